"""C12 -- a crashed run leaves a loadable prefix backup and restarts without rework (protocol ordering)."""

from __future__ import annotations

import ast

from gv import rules
from gv.astutil import AnalysisError
from gv.astutil import compare_parts
from gv.astutil import const_value
from gv.astutil import dotted
from gv.astutil import kwarg
from gv.astutil import last_attr
from gv.astutil import norm_stmt
from gv.astutil import stmts_of
from gv.astutil import walk_body
from gv.cfg import cfg_of
from gv.props import describe
from gv.props.shared import branch_conditions
from gv.props.shared import h5py_files_in_with
from gv.props.shared import store_protocol
from gv.props.shared import unfolded
from gv.report import Ctx
from gv.report import cname

BS = "scenarios/base_scenario.py"
DB = "algos/database.py"
EP = "algos/evaluation_problem.py"
HD = "algos/_hdf_database.py"
PF = "algos/problem_function.py"

describe(
    "C12",
    explanation=(
        "The state of the HDF5 file when the process dies inside a write is NOT decided (no static argument "
        "reaches into h5py/the OS). Decided: the protocol that makes every completed evaluation durable before "
        "the next one starts and lets a restart reuse it: the backup callback exports in append mode and no file "
        "handle outlives an export; an evaluation is in memory and marked pending before the export is "
        "triggered; the export happens in the store listener / new-iteration listener of the database; loading "
        "the backup restores the counter and precedes listening; erase and load together are refused; loaded "
        "points are served from the database without calling the functions again."
    ),
    decided=["12.1 file closed between exports", "12.2 in memory and pending before export", "12.3 load restores the counter and precedes listening", "12.4 loaded points are memoised", "12.7 a driver removes its own listeners only"],
    not_decided=["state of the HDF5 file if the process dies inside a write", "equality of the restarted and uninterrupted histories"],
    trusted=["h5py flushes and closes the file when the context manager exits"],
)


class _Prefixed:
    """Context proxy renaming the rules of another property's rule group."""

    def __init__(self, ctx: Ctx, prefix: str):
        self._ctx = ctx
        self._prefix = prefix

    def ob(self, rule, *a, **k):
        return self._ctx.ob(self._prefix + rule, *a, **k)

    def floor(self, rule, n):
        return self._ctx.floor(self._prefix + rule, n)

    def __getattr__(self, name):
        return getattr(self._ctx, name)


def _display(func: ast.AST, e: ast.AST, kinds: tuple) -> ast.AST | None:
    """``e`` itself when it is a display of one of ``kinds``, or the single display a local unfolds to."""
    if isinstance(e, kinds):
        return e
    if isinstance(e, ast.Name):
        alts = unfolded(func, e) or []
        if len(alts) == 1 and isinstance(alts[0], kinds):
            return alts[0]
    return None


def _binding(func: ast.AST, call: ast.Call, callee: ast.FunctionDef, *, bound: bool = True) -> dict[str, ast.AST] | None:
    """Parameter name -> argument expression of ``call`` for the signature of ``callee``, whatever the spelling of the
    arguments: positional, keyword, ``*(a, b)`` / ``*[a, b]`` (display, possibly held in a local) and
    ``**{"k": v}`` / ``**dict(k=v)``.  None when an argument list cannot be read (``*xs`` of unknown length, computed
    keys) or does not fit the signature.  ``bound``: the call is made on an instance (``self`` is not an argument)."""
    a = callee.args
    if a.vararg is not None:
        return None
    params = [x.arg for x in [*a.posonlyargs, *a.args]]
    static = any(getattr(d, "id", getattr(d, "attr", None)) == "staticmethod" for d in callee.decorator_list)
    if bound and not static and params and params[0] in ("self", "cls"):
        params = params[1:]
    names = set(params) | {x.arg for x in a.kwonlyargs}
    pos: list[ast.AST] = []
    for x in call.args:
        if isinstance(x, ast.Starred):
            d = _display(func, x.value, (ast.Tuple, ast.List))
            if d is None or any(isinstance(e, ast.Starred) for e in d.elts):
                return None
            pos += d.elts
        else:
            pos.append(x)
    if len(pos) > len(params):
        return None
    bind = dict(zip(params, pos))
    pairs: list[tuple[str, ast.AST]] = []
    for k in call.keywords:
        if k.arg is not None:
            pairs.append((k.arg, k.value))
            continue
        d = _display(func, k.value, (ast.Dict, ast.Call))
        if isinstance(d, ast.Dict) and all(isinstance(key, ast.Constant) and isinstance(key.value, str) for key in d.keys):
            pairs += [(key.value, v) for key, v in zip(d.keys, d.values)]
        elif isinstance(d, ast.Call) and dotted(d.func) == "dict" and not d.args and all(kw.arg is not None for kw in d.keywords):
            pairs += [(kw.arg, kw.value) for kw in d.keywords]
        else:
            return None
    for name, v in pairs:
        if name in bind or (name not in names and a.kwarg is None):
            return None  # TypeError at run time
        bind[name] = v
    return bind


def check_backup_callback(ctx: Ctx) -> None:
    f = ctx.index.method(BS, "BaseScenario", "_execute_backup_callback")
    con = cname(BS, "BaseScenario", "_execute_backup_callback")
    calls = rules.self_calls(f, "save_optimization_history")
    s = ctx.index.method(BS, "BaseScenario", "save_optimization_history")
    b = (_binding(f, calls[0], s) or {}) if len(calls) == 1 else {}
    ok = len(calls) == 1 and const_value(b.get("append")) is True and dotted(b.get("file_path")) == "self._opt_hist_backup_path"
    ctx.ob("12.1-append", con, ok, "the backup callback must export to the backup path in append mode: a full rewrite at every evaluation truncates the file first, so a crash during the export loses the whole history", node=(calls or [f])[0])
    # builtin constructors of the argument list itself (``**dict(append=True)``, ``*tuple(...)``) are part of the call
    packing = {id(x) for c in calls for x in ast.walk(c) if x is not c and isinstance(x, ast.Call) and dotted(x.func) in ("dict", "tuple", "list")}
    others = [c for c in walk_body(f) if isinstance(c, ast.Call) and c not in calls and id(c) not in packing]
    ctx.ob("12.1-append", con, not others, "the backup callback must do nothing else than exporting", node=(others or [f])[0], stmt="only the export")
    cons = cname(BS, "BaseScenario", "save_optimization_history")
    h = [c for c in walk_body(s) if isinstance(c, ast.Call) and last_attr(c) == "to_hdf"]
    b = (_binding(s, h[0], ctx.index.method("algos/optimization_problem.py", "OptimizationProblem", "to_hdf")) or {}) if len(h) == 1 else {}
    ok = len(h) == 1 and dotted(b.get("append")) == "append" and dotted(b.get("file_path")) == "file_path"
    ctx.ob("12.1-append", cons, ok, "save_optimization_history must forward file_path and append to OptimizationProblem.to_hdf", node=(h or [s])[0])
    d = ctx.index.method(DB, "Database", "to_hdf")
    c = [x for x in walk_body(d) if isinstance(x, ast.Call) and last_attr(x) == "to_file"]
    b = (_binding(d, c[0], ctx.index.method(HD, "HDFDatabase", "to_file")) or {}) if len(c) == 1 else {}
    ok = len(c) == 1 and [dotted(b.get(p_)) for p_ in ("database", "file_path", "append")] == ["self", "file_path", "append"]
    ctx.ob("12.1-append", cname(DB, "Database", "to_hdf"), ok, "Database.to_hdf must forward (self, file_path, append) to the HDF exporter", node=(c or [d])[0])
    # no handle on self anywhere in the export path
    n = 0
    for rel in ("algos/_hdf_database.py", "algos/database.py", "algos/optimization_problem.py", "algos/design_space.py", "scenarios/base_scenario.py"):
        mod = ctx.index.module(rel)
        for node in ast.walk(mod.tree):
            if isinstance(node, ast.Assign) and any(isinstance(t, ast.Attribute) and dotted(t.value) == "self" for t in node.targets) and any(isinstance(x, ast.Call) and dotted(x.func) in ("h5py.File", "File") for x in ast.walk(node.value)):
                n += 1
                ctx.ob("12.1-no-handle", cname(rel, None, "<module>"), False, "an open HDF5 file is kept on the object: the backup is then only complete when that handle is closed, not after each export", node=node)
    ctx.ob("12.1-no-handle", cname(HD, "HDFDatabase"), n == 0, "no file handle is kept between exports", stmt="no self.<attr> = h5py.File(...) in the export path")
    h5py_files_in_with(ctx, "12.1-with", ["algos/_hdf_database.py", "algos/design_space.py", "algos/optimization_problem.py"], 6)


def check_listeners(ctx: Ctx) -> None:
    f = ctx.index.method(EP, "EvaluationProblem", "add_listener")
    con = cname(EP, "EvaluationProblem", "add_listener")
    cfg = cfg_of(f)
    want = {"add_store_listener": "at_each_function_call", "add_new_iter_listener": "at_each_iteration"}
    for meth, flag in want.items():
        calls = [c for c in walk_body(f) if isinstance(c, ast.Call) and last_attr(c) == meth]
        ok = len(calls) == 1 and dotted(calls[0].args[0]) == f.args.args[1].arg
        if ok:
            conds = [(norm_stmt(cfg.ast[t].test), v) for t, v in branch_conditions(cfg, cfg.node_of(calls[0])) if cfg.kind[t] == "test"]
            ok = conds == [(flag, True)]
        ctx.ob("12.2-listener-kind", con, ok, f"the listener must be attached with {meth} iff {flag}: a backup 'at each function call' attached to new iterations only misses the evaluations made between two iterations", node=(calls or [f])[0])
    # the notifications run every registered listener
    for meth, attr in (("notify_store_listeners", "__store_listeners"), ("notify_new_iter_listeners", "__new_iter_listeners")):
        g = ctx.index.method(DB, "Database", meth)
        calls = rules.self_calls(g, "__notify_listeners", "Database")
        ok = len(calls) == 1 and (dotted(calls[0].args[0]) or "").endswith(attr) and dotted(calls[0].args[1]) == g.args.args[1].arg
        ctx.ob("12.2-notify-all", cname(DB, "Database", meth), ok, f"{meth} must notify the listeners of its own kind ({attr}) with the stored point", node=(calls or [g])[0])
    g = ctx.index.method(DB, "Database", "__notify_listeners")
    loops = [s for s in stmts_of(g) if isinstance(s, ast.For) and dotted(s.iter) == g.args.args[1].arg]
    ok = len(loops) == 1 and any(isinstance(c, ast.Call) and dotted(c.func) == dotted(loops[0].target) for c in ast.walk(loops[0])) and not any(isinstance(x, (ast.Break, ast.Return, ast.If)) for x in ast.walk(loops[0]))
    ctx.ob("12.2-notify-all", cname(DB, "Database", "__notify_listeners"), ok, "every registered listener must be called, unconditionally", node=(loops or [g])[0])


def check_backup_setup(ctx: Ctx) -> None:
    f = ctx.index.method(BS, "BaseScenario", "set_optimization_history_backup")
    con = cname(BS, "BaseScenario", "set_optimization_history_backup")
    cfg = cfg_of(f)
    load = [c for c in walk_body(f) if isinstance(c, ast.Call) and last_attr(c) == "update_from_hdf"]
    ok = len(load) == 1 and dotted(load[0].args[0]) == "self._opt_hist_backup_path"
    ctx.ob("12.3-load", con, ok, "the backup file itself must be loaded into the problem's database", node=(load or [f])[0])
    from gv.props.shared import literal_facts as _lf

    fl = _lf(cfg, cfg.node_of(load[0])) if load else {}
    lits = sorted(fl.items())
    # loaded only when the file exists and load is requested (erase and load together are refused elsewhere)
    ok = fl.get("load") is True and fl.get("self._opt_hist_backup_path.exists()") is True and fl.get("erase") is not True
    ctx.ob("12.3-load", con, ok, "the backup is loaded only when it exists and load is requested (never together with erase)", node=(load or [f])[0], stmt="load iff exists and load and not erase", slots={"conditions": [f"{a}={b}" for a, b in lits]})
    cnt = [s for s in stmts_of(f) if isinstance(s, ast.Assign) and (dotted(s.targets[0]) or "").endswith("evaluation_counter.current")]
    ok = len(cnt) == 1 and load
    if ok:
        src = dotted(cnt[0].value)
        sdef = [s for s in stmts_of(f) if isinstance(s, ast.Assign) and dotted(s.targets[0]) == src]
        ok = len(sdef) == 1 and norm_stmt(sdef[0].value) == "len(opt_pb.database)" and cfg.reachable(cfg.node_of(load[0]), cfg.node_of(sdef[0])) and not cfg.reachable(cfg.node_of(sdef[0]), cfg.node_of(load[0])) and cfg.dominates(cfg.node_of(load[0]), cfg.node_of(cnt[0]))
    ctx.ob("12.3-counter", con, bool(ok), "after loading, the evaluation counter must be set to the number of loaded entries (measured after the load): otherwise the restarted run gets the full budget again on top of the loaded evaluations", node=(cnt or [f])[0])
    listen = [c for c in walk_body(f) if isinstance(c, ast.Call) and last_attr(c) == "add_listener" and c.args and dotted(c.args[0]) == "self._execute_backup_callback"]
    ok = len(listen) == 1 and not [tv for tv in branch_conditions(cfg, cfg.node_of(listen[0])) if cfg.kind[tv[0]] == "test"]
    ctx.ob("12.3-listen", con, ok, "the backup callback must be registered unconditionally", node=(listen or [f])[0])
    if listen and load:
        ln = cfg.node_of(listen[0])
        ok = cfg.reachable(cfg.node_of(load[0]), ln) and not cfg.reachable(ln, cfg.node_of(load[0]))
        ctx.ob("12.3-load-before-listen", con, ok, "the backup must be loaded before the backup callback listens: loading stores every loaded point, and a listening callback would re-export the file while it is being read", node=listen[0])
        kw = {n_: dotted(kwarg(listen[0], n_)) for n_ in ("at_each_iteration", "at_each_function_call")}
        ok = kw.get("at_each_iteration") == "at_each_iteration" and kw.get("at_each_function_call") == "at_each_function_call"
        ctx.ob("12.3-listen", con, ok, "the two backup frequencies must be forwarded to add_listener under their own names", node=listen[0], stmt="frequencies forwarded")
    raises = [s for s in stmts_of(f) if isinstance(s, ast.Raise)]
    ok = False
    for r in raises:
        fr = _lf(cfg, cfg.node_of(r))
        if fr.get("erase") is True and fr.get("load") is True:
            ok = True
    ctx.ob("12.3-erase-and-load", con, ok, "asking to erase and to load the same backup must be refused", node=(raises or [f])[0])
    unl = [c for c in walk_body(f) if isinstance(c, ast.Call) and last_attr(c) == "unlink"]
    ok = len(unl) == 1
    if ok:
        fu = _lf(cfg, cfg.node_of(rules.enclosing_stmt(f, unl[0])))
        # a file that is going to be loaded is never removed (removing a stale file that is NOT loaded is allowed)
        ok = fu.get("erase") is True or fu.get("load") is False
    ctx.ob("12.3-erase-and-load", con, ok, "the backup file must not be removed on a path where it is loaded (it may be removed when erase is requested, or when it is not loaded)", node=(unl or [f])[0], stmt="no unlink of a file that is loaded")
    path = rules.assigns_to_self(f, "_opt_hist_backup_path")
    ok = len(path) == 1 and "file_path" in norm_stmt(path[0].value)
    ctx.ob("12.3-load", con, ok, "the backup path used by the callback is the given file path", node=(path or [f])[0], stmt="backup path recorded")


def _storing_calls(cls, f: ast.AST, is_db, depth: int = 2) -> list[ast.Call]:
    """Calls of ``f`` that store a point in the database: ``<database>.store(...)`` (``is_db`` tells whether an
    expression is the database), or a call of a method of the same class given the database as argument and that stores
    in it on every path to its end (an extracted helper)."""
    out = []
    for c in walk_body(f):
        if not isinstance(c, ast.Call) or not isinstance(c.func, ast.Attribute):
            continue
        if c.func.attr == "store" and is_db(c.func.value):
            out.append(c)
            continue
        recv = c.func.value
        h = cls.methods.get(c.func.attr)
        if depth <= 0 or h is None or h is f or not (isinstance(recv, ast.Name) and recv.id in ("self", "cls", cls.name)):
            continue
        b = _binding(f, c, h, bound=recv.id != cls.name)
        if b is None:
            continue
        db_params = {p_ for p_, a_ in b.items() if is_db(a_)}
        if not db_params or any(isinstance(t, ast.Name) and isinstance(t.ctx, ast.Store) and t.id in db_params for t in walk_body(h)):
            continue
        inner = _storing_calls(cls, h, lambda e, names=db_params: isinstance(e, ast.Name) and e.id in names, depth - 1)
        hc = cfg_of(h)
        if inner and hc.must_pass(hc.entry, {hc.node_of(rules.enclosing_stmt(h, x)) for x in inner}):
            out.append(c)
    return out


def _is_int(e: ast.AST | None, value: int) -> bool:
    return isinstance(e, ast.Constant) and type(e.value) is int and e.value == value


def _all_indices(func: ast.AST, lp: ast.For) -> ast.AST | None:
    """The container ``G`` when the loop of ``lp`` runs once for every index 0..len(G)-1, in increasing order:
    ``for i in range(len(G))``, ``range(0, len(G))``, ``range(0, len(G), 1)``, ``for i, _ in enumerate(G)``
    (``enumerate(G, 0)``, ``enumerate(G, start=0)``), and one-to-one transformations of these
    (``for s in map(str, range(len(G)))``, ``for s in (str(i) for i in range(len(G)))``)."""
    return _index_iter(func, lp.iter, lp.target)


def _index_iter(func: ast.AST, it: ast.AST, target: ast.AST | None) -> ast.AST | None:
    # an element-wise image of an iterable has as many elements, in the same order
    if isinstance(it, (ast.GeneratorExp, ast.ListComp)) and len(it.generators) == 1 and not it.generators[0].ifs and not it.generators[0].is_async:
        return _index_iter(func, it.generators[0].iter, it.generators[0].target)
    if not isinstance(it, ast.Call) or any(isinstance(a, ast.Starred) for a in it.args) or any(k.arg is None for k in it.keywords):
        return None
    fn, a = dotted(it.func), it.args
    if fn == "map" and len(a) == 2 and not it.keywords:
        return _index_iter(func, a[1], None)
    if fn in ("list", "tuple", "iter") and len(a) == 1 and not it.keywords:
        return _index_iter(func, a[0], target)
    if fn == "range" and isinstance(target, (ast.Name, type(None))) and not it.keywords and 1 <= len(a) <= 3:
        if len(a) >= 2 and not _is_int(a[0], 0):
            return None
        if len(a) == 3 and not _is_int(a[2], 1):
            return None
        stop = a[0] if len(a) == 1 else a[1]
        if isinstance(stop, ast.Name):  # the length kept in a local
            alts = unfolded(func, stop) or []
            stop = alts[0] if len(alts) == 1 else stop
        if isinstance(stop, ast.Call) and dotted(stop.func) == "len" and len(stop.args) == 1 and not stop.keywords:
            return stop.args[0]
        return None
    if fn == "enumerate" and (target is None or (isinstance(target, ast.Tuple) and len(target.elts) == 2)):
        first = a[1] if len(a) == 2 else next((k.value for k in it.keywords if k.arg == "start"), None)
        if len(a) in (1, 2) and len(a) + len(it.keywords) <= 2 and all(k.arg == "start" for k in it.keywords) and (first is None or _is_int(first, 0)):
            return a[0]
    return None


def check_reader_keeps_every_entry(ctx: Ctx) -> None:
    """12.5: loading a backup stores EVERY entry of the file (an entry without scalar values, or without any
    value, is still a point that was evaluated or seeded): no path of the loop skips the store."""
    cls = next(iter(c for c in ctx.index.module(HD).classes.values() if "update_from_file" in c.methods), None)
    if cls is None:
        raise AnalysisError("update_from_file not found in algos/_hdf_database.py")
    f = cls.methods["update_from_file"]
    con = cname(HD, cls.qualname, "update_from_file")
    cfg = cfg_of(f)
    # the stores of the entry: one call, or one call in each alternative of the loop body, possibly through a helper
    stores = _storing_calls(cls, f, lambda e: "database" in norm_stmt(e))
    loops = [lp for lp in stmts_of(f) if isinstance(lp, ast.For) and stores and all(any(x is c for x in ast.walk(lp)) for c in stores)]
    ok = len(stores) >= 1 and len(loops) >= 1
    esc = None
    if ok:
        lp = loops[-1]
        head = cfg.node_of(lp)
        start = cfg.branch[(head, True)]
        sns = {cfg.node_of(rules.enclosing_stmt(f, c)) for c in stores}
        esc = cfg.path(start, head, avoid=sns)
        ok = esc is None and _all_indices(f, lp) is not None
    ctx.ob("12.5-every-entry", con, bool(ok), "an iteration of the loading loop can end without storing the entry" + (f" ({cfg.describe_path(esc)})" if esc else "") + ": points evaluated before the crash are missing from the reloaded database and are re-executed", node=(stores or [f])[0], stmt="every entry of the file is stored")


def check_own_listeners_only(ctx: Ctx) -> None:
    """12.7 a driver removes only the listeners it added: Database.clear_listeners takes an EMPTY collection for "all of
    them", so a collection that may be empty (no KKT checker under the default settings...) silently removes the
    listeners of others -- the scenario's backup callback stops being called and the file stays frozen while the
    second execution runs."""
    from gv.props.shared import literal_facts

    n = 0
    for rel, mod in sorted(ctx.index.modules.items()):
        if not rel.startswith("algos/") or rel == "algos/database.py":
            continue
        for cn, c in sorted(mod.classes.items()):
            for mname, m in sorted(c.methods.items()):
                for call in (x for x in walk_body(m) if isinstance(x, ast.Call) and last_attr(x) == "clear_listeners" and isinstance(x.func, ast.Attribute) and (dotted(x.func.value) or "").endswith("database")):
                    n += 1
                    bound = dict(zip(("new_iter_listeners", "store_listeners"), call.args))
                    bound.update({k.arg: k.value for k in call.keywords if k.arg})
                    cfg = cfg_of(m)
                    in_worker = any("SUBPROCESS_NAME" in k_ and v_ for k_, v_ in literal_facts(cfg, cfg.node_of(call)).items())
                    bad = []
                    for par in ("new_iter_listeners", "store_listeners"):
                        a = bound.get(par)
                        if a is None:
                            if not in_worker:
                                bad.append(f"{par} is left to its default (all the listeners)")
                            continue
                        if isinstance(a, ast.Constant) and a.value is None:
                            continue  # none of that kind
                        if isinstance(a, ast.BoolOp) and isinstance(a.op, ast.Or) and isinstance(a.values[-1], ast.Constant) and a.values[-1].value is None:
                            continue  # `own or None`: nothing when the driver added nothing
                        if isinstance(a, (ast.Set, ast.List, ast.Tuple)) and a.elts:
                            continue  # a non-empty display
                        bad.append(f"{par}={norm_stmt(a, 50)} may be empty, which means ALL the listeners")
                    ctx.ob("12.7-own-listeners", cname(rel, cn, mname), not bad, "a driver must remove its own listeners only (" + "; ".join(bad) + "): the backup callback of the scenario is a listener too, and without it the evaluations of the next execution never reach the file", node=call, stmt="clear_listeners removes the driver's own listeners only")
    ctx.floor("12.7-own-listeners", 2)


def run(ctx: Ctx) -> None:
    check_reader_keeps_every_entry(ctx)
    check_backup_callback(ctx)
    store_protocol(ctx, "12.2", {"pending"})
    check_listeners(ctx)
    check_own_listeners_only(ctx)
    check_backup_setup(ctx)
    # 12.6: a restarted DOE goes through every generated sample again: what is already stored is served by the
    # memoisation of each function (12.4), value by value, never by skipping the sample as a whole (an entry the crash
    # left with the objective only would never get its constraints and observables) -- rule 3.7 of C03
    from gv.props import c03

    c03.check_doe_run(_Prefixed(ctx, "12.6-restarted-doe/"))
    # 12.4: the memoisation rules of C01 (same rule instances, cited)
    from gv.props import c01

    roles = c01.compute_roles(ctx)
    px = _Prefixed(ctx, "12.4/")
    for m, r in sorted(roles.items()):
        if r["db"]:
            c01.check_memo_method(px, m, r)
    # export order of the HDF writer for pending points (shared with C11)
    from gv.props import c11

    c11.check_pending(_Prefixed(ctx, "12.2/"))
    ctx.floor("12.4/1.3-memo", 4)


# ---------------------------------------------------------------------------
WITNESSES = [
    {"name": "seeded-C12-7", "file": "algos/opt/base_optimization_library.py", "old": "\n    ALGORITHM_INFOS: ClassVar[dict[str, OptimizationAlgorithmDescription]] = {}\n    \"\"\"The description of the algorithms contained in the library.\"\"\"\n\n    def __init__(self, algo_name: str) -> None:  # noqa:D107\n        super().__init__(algo_name)\n        self._f_tol_tester = ObjectiveToleranceTester()\n        self._x_tol_tester = DesignToleranceTester()\n\n    def _check_constraints_handling(self, problem: OptimizationProblem) -> None:\n        \"\"\"Check if problem and algorithm are consistent for constraints handling.\"\"\"\n        algo_name = self._algo_name\n        if (\n            tuple(problem.constraints.get_equality_constraints())\n            and not self.ALGORITHM_INFOS[algo_name].handle_equality_constraints\n        ):\n            msg = (\n                \"Requested optimization algorithm \"\n                f\"{algo_name} can not handle equality constraints.\"\n            )\n            raise ValueError(msg)\n        if (\n            tuple(problem.constraints.get_inequality_constraints())\n            and not self.ALGORITHM_INFOS[algo_name].handle_inequality_constraints\n        ):\n            msg = (\n                \"Requested optimization algorithm \"\n                f\"{algo_name} can not handle inequality constraints.\"\n            )\n            raise ValueError(msg)\n\n    def _get_right_sign_constraints(self, problem: OptimizationProblem):\n        \"\"\"Transform the problem constraints into their opposite sign counterpart.\n\n        This is done if the algorithm requires positive constraints.\n\n        Args:\n            problem: The problem to be solved.\n\n        Returns:\n            The constraints with the right sign.\n        \"\"\"\n        if (\n            tuple(problem.constraints.get_inequality_constraints())\n            and self.ALGORITHM_INFOS[self._algo_name].positive_constraints\n        ):\n            return [-constraint for constraint in problem.constraints]\n        return problem.constraints\n\n    def _pre_run(self, problem: OptimizationProblem, **settings: Any) -> None:\n        super()._pre_run(problem, **settings)\n\n        self._check_constraints_handling(problem)\n\n        n_points = settings[self._STOP_CRIT_NX]\n\n        self._f_tol_tester = ObjectiveToleranceTester(\n            absolute=settings[self._F_TOL_ABS],\n            relative=settings[self._F_TOL_REL],\n            n_last_iterations=n_points,\n        )\n\n        self._x_tol_tester = DesignToleranceTester(\n            absolute=settings[self._X_TOL_ABS],\n            relative=settings[self._X_TOL_REL],\n            n_last_iterations=n_points,\n        )\n\n        self._init_iter_observer(problem, settings[self._MAX_ITER])\n\n        require_gradient = self.ALGORITHM_INFOS[self._algo_name].require_gradient\n        if require_gradient:\n            kkt_abs_tol = settings[self._KKT_TOL_ABS]\n            kkt_rel_tol = settings[self._KKT_TOL_REL]\n            if not isinf(kkt_abs_tol) or not isinf(kkt_rel_tol):\n                problem.add_listener(\n                    _KKTChecker(\n                        problem,\n                        kkt_abs_tol,\n                        kkt_rel_tol,\n                        settings[self._INEQ_TOLERANCE],\n                    ),\n                    at_each_iteration=False,\n                    at_each_function_call=True,\n                )\n\n        problem.design_space.initialize_missing_current_values()\n        if problem.differentiation_method == self.DifferentiationMethod.COMPLEX_STEP:\n            problem.design_space.to_complex()\n\n        # First, evaluate all functions at x_0. Some algorithms don't do this\n        output_functions, jacobian_functions = problem.get_functions(\n            jacobian_names=() if require_gradient else None,\n            evaluate_objective=True,\n            observable_names=None,\n        )\n\n        function_values, _ = problem.evaluate_functions(\n            design_vector_is_normalized=self._normalize_ds,\n            output_functions=output_functions or None,\n            jacobian_functions=jacobian_functions or None,\n        )\n\n        scaling_threshold = settings[self._SCALING_THRESHOLD]\n        if scaling_threshold is not None:\n            self._problem.objective = self.__scale(\n                self._problem.objective,\n                function_values[self._problem.objective.name],\n                scaling_threshold,\n            )\n            self._problem.constraints = [\n                self.__scale(\n                    constraint, function_values[constraint.name], scaling_threshold\n                )\n                for constraint in self._problem.constraints\n            ]\n\n    @classmethod\n    def _get_unsuitability_reason(\n        cls,\n        algorithm_description: OptimizationAlgorithmDescription,\n        problem: OptimizationProblem,\n    ) -> _UnsuitabilityReason:\n        reason = super()._get_unsuitability_reason(algorithm_description, problem)\n        if reason:\n            return reason\n\n        if (\n            tuple(problem.constraints.get_equality_constraints())\n            and not algorithm_description.handle_equality_constraints\n        ):\n            return _UnsuitabilityReason.EQUALITY_CONSTRAINTS\n\n        if (\n            tuple(problem.constraints.get_inequality_constraints())\n            and not algorithm_description.handle_inequality_constraints\n        ):\n            return _UnsuitabilityReason.INEQUALITY_CONSTRAINTS\n\n        if not problem.is_linear and algorithm_description.for_linear_problems:\n            return _UnsuitabilityReason.NON_LINEAR_PROBLEM\n\n        return reason\n\n    def _new_iteration_callback(self, x_vect: ndarray) -> None:\n        super()._new_iteration_callback(x_vect)\n        self._f_tol_tester.check(self._problem, raise_exception=True)\n        self._x_tol_tester.check(self._problem, raise_exception=True)\n\n", "new": "\n    __kkt_checkers: list[_KKTChecker]\n    \"\"\"The KKT checkers attached to the database of the problem being solved.\"\"\"\n\n    ALGORITHM_INFOS: ClassVar[dict[str, OptimizationAlgorithmDescription]] = {}\n    \"\"\"The description of the algorithms contained in the library.\"\"\"\n\n    def __init__(self, algo_name: str) -> None:  # noqa:D107\n        super().__init__(algo_name)\n        self._f_tol_tester = ObjectiveToleranceTester()\n        self._x_tol_tester = DesignToleranceTester()\n        self.__kkt_checkers = []\n\n    def _check_constraints_handling(self, problem: OptimizationProblem) -> None:\n        \"\"\"Check if problem and algorithm are consistent for constraints handling.\"\"\"\n        algo_name = self._algo_name\n        if (\n            tuple(problem.constraints.get_equality_constraints())\n            and not self.ALGORITHM_INFOS[algo_name].handle_equality_constraints\n        ):\n            msg = (\n                \"Requested optimization algorithm \"\n                f\"{algo_name} can not handle equality constraints.\"\n            )\n            raise ValueError(msg)\n        if (\n            tuple(problem.constraints.get_inequality_constraints())\n            and not self.ALGORITHM_INFOS[algo_name].handle_inequality_constraints\n        ):\n            msg = (\n                \"Requested optimization algorithm \"\n                f\"{algo_name} can not handle inequality constraints.\"\n            )\n            raise ValueError(msg)\n\n    def _get_right_sign_constraints(self, problem: OptimizationProblem):\n        \"\"\"Transform the problem constraints into their opposite sign counterpart.\n\n        This is done if the algorithm requires positive constraints.\n\n        Args:\n            problem: The problem to be solved.\n\n        Returns:\n            The constraints with the right sign.\n        \"\"\"\n        if (\n            tuple(problem.constraints.get_inequality_constraints())\n            and self.ALGORITHM_INFOS[self._algo_name].positive_constraints\n        ):\n            return [-constraint for constraint in problem.constraints]\n        return problem.constraints\n\n    def _pre_run(self, problem: OptimizationProblem, **settings: Any) -> None:\n        super()._pre_run(problem, **settings)\n\n        self._check_constraints_handling(problem)\n\n        n_points = settings[self._STOP_CRIT_NX]\n\n        self._f_tol_tester = ObjectiveToleranceTester(\n            absolute=settings[self._F_TOL_ABS],\n            relative=settings[self._F_TOL_REL],\n            n_last_iterations=n_points,\n        )\n\n        self._x_tol_tester = DesignToleranceTester(\n            absolute=settings[self._X_TOL_ABS],\n            relative=settings[self._X_TOL_REL],\n            n_last_iterations=n_points,\n        )\n\n        self._init_iter_observer(problem, settings[self._MAX_ITER])\n\n        require_gradient = self.ALGORITHM_INFOS[self._algo_name].require_gradient\n        if require_gradient:\n            kkt_abs_tol = settings[self._KKT_TOL_ABS]\n            kkt_rel_tol = settings[self._KKT_TOL_REL]\n            if not isinf(kkt_abs_tol) or not isinf(kkt_rel_tol):\n                kkt_checker = _KKTChecker(\n                    problem,\n                    kkt_abs_tol,\n                    kkt_rel_tol,\n                    settings[self._INEQ_TOLERANCE],\n                )\n                problem.add_listener(\n                    kkt_checker,\n                    at_each_iteration=False,\n                    at_each_function_call=True,\n                )\n                self.__kkt_checkers.append(kkt_checker)\n\n        problem.design_space.initialize_missing_current_values()\n        if problem.differentiation_method == self.DifferentiationMethod.COMPLEX_STEP:\n            problem.design_space.to_complex()\n\n        # First, evaluate all functions at x_0. Some algorithms don't do this\n        output_functions, jacobian_functions = problem.get_functions(\n            jacobian_names=() if require_gradient else None,\n            evaluate_objective=True,\n            observable_names=None,\n        )\n\n        function_values, _ = problem.evaluate_functions(\n            design_vector_is_normalized=self._normalize_ds,\n            output_functions=output_functions or None,\n            jacobian_functions=jacobian_functions or None,\n        )\n\n        scaling_threshold = settings[self._SCALING_THRESHOLD]\n        if scaling_threshold is not None:\n            self._problem.objective = self.__scale(\n                self._problem.objective,\n                function_values[self._problem.objective.name],\n                scaling_threshold,\n            )\n            self._problem.constraints = [\n                self.__scale(\n                    constraint, function_values[constraint.name], scaling_threshold\n                )\n                for constraint in self._problem.constraints\n            ]\n\n    @classmethod\n    def _get_unsuitability_reason(\n        cls,\n        algorithm_description: OptimizationAlgorithmDescription,\n        problem: OptimizationProblem,\n    ) -> _UnsuitabilityReason:\n        reason = super()._get_unsuitability_reason(algorithm_description, problem)\n        if reason:\n            return reason\n\n        if (\n            tuple(problem.constraints.get_equality_constraints())\n            and not algorithm_description.handle_equality_constraints\n        ):\n            return _UnsuitabilityReason.EQUALITY_CONSTRAINTS\n\n        if (\n            tuple(problem.constraints.get_inequality_constraints())\n            and not algorithm_description.handle_inequality_constraints\n        ):\n            return _UnsuitabilityReason.INEQUALITY_CONSTRAINTS\n\n        if not problem.is_linear and algorithm_description.for_linear_problems:\n            return _UnsuitabilityReason.NON_LINEAR_PROBLEM\n\n        return reason\n\n    def _new_iteration_callback(self, x_vect: ndarray) -> None:\n        super()._new_iteration_callback(x_vect)\n        self._f_tol_tester.check(self._problem, raise_exception=True)\n        self._x_tol_tester.check(self._problem, raise_exception=True)\n\n    def _clear_listeners(self, problem: OptimizationProblem) -> None:\n        super()._clear_listeners(problem)\n        # The KKT checker is specific to an execution:\n        # do not let it check the KKT conditions during the next ones.\n        problem.database.clear_listeners(\n            new_iter_listeners=None, store_listeners=self.__kkt_checkers\n        )\n        self.__kkt_checkers.clear()\n\n", "expect": "12.7", "note": "The optimization libraries remove their KKT checker from the store listeners at "},
    {"name": "driver-clears-a-possibly-empty-collection", "file": "algos/base_driver_library.py", "old": "            new_iter_listeners=self.__new_iter_listeners or None, store_listeners=None", "new": "            new_iter_listeners=self.__new_iter_listeners, store_listeners=None", "expect": "12.7"},
    {"name": "driver-clears-all-store-listeners", "file": "algos/base_driver_library.py", "old": "            new_iter_listeners=self.__new_iter_listeners or None, store_listeners=None", "new": "            new_iter_listeners=self.__new_iter_listeners or None", "expect": "12.7"},
    {"name": "seeded-C12-6", "file": "algos/doe/base_doe_library.py", "old": "                )\n            for index, input_value in enumerate(self.samples):\n                try:\n", "new": "                )\n            database = problem.database\n            for index, input_value in enumerate(self.samples):\n                if use_database and database.get(input_value):\n                    # Already evaluated, e.g. loaded from a backup file.\n                    continue\n\n                try:\n", "expect": "12.6", "note": "Sequential DOE skips the samples that already have an entry in the database"},
    {"name": "reader-skips-entries-without-scalars", "file": HD, "old": "                else:\n                    scalar_dict = {}\n                scalar_dict.update(names_to_arrays)", "new": "                else:\n                    continue\n                scalar_dict.update(names_to_arrays)", "expect": "12.5"},
    {"name": "backup-rewrites-file", "file": BS, "old": "self.save_optimization_history(self._opt_hist_backup_path, append=True)", "new": "self.save_optimization_history(self._opt_hist_backup_path, append=False)", "expect": "12.1"},
    {"name": "append-flag-dropped", "file": BS, "old": "optimization_problem.to_hdf(file_path=file_path, append=append)", "new": "optimization_problem.to_hdf(file_path=file_path)", "expect": "12.1"},
    {"name": "database-to_hdf-drops-append", "file": DB, "old": "            self, file_path, append, hdf_node_path=hdf_node_path\n        )", "new": "            self, file_path, False, hdf_node_path=hdf_node_path\n        )", "expect": "12.1"},
    {"name": "handle-kept-on-self", "file": HD, "old": "    def __init__(self) -> None:  # noqa:D107\n        self.__pending_arrays = {}", "new": "    def __init__(self) -> None:  # noqa:D107\n        self.__pending_arrays = {}\n        self._file = h5py.File(\"history.h5\", \"a\")", "expect": "12.1"},
    {"name": "notify-before-data-stored", "file": DB, "old": "        if stored_outputs is None:\n            self.__data[hashed_input_value] = outputs\n        else:\n            # No new keys = already computed = new iteration\n            # otherwise just calls to other functions\n            stored_outputs.update(outputs)\n\n        if self.__store_listeners:\n            self.notify_store_listeners(x_vect)\n", "new": "        if self.__store_listeners:\n            self.notify_store_listeners(x_vect)\n\n        if stored_outputs is None:\n            self.__data[hashed_input_value] = outputs\n        else:\n            stored_outputs.update(outputs)\n", "expect": "12.2"},
    {"name": "pending-only-for-new-points", "file": DB, "old": "        self.__hdf_database.add_pending_array(hashed_input_value)\n\n        stored_outputs = self.get(hashed_input_value)\n        current_outputs_is_empty = not stored_outputs\n", "new": "        stored_outputs = self.get(hashed_input_value)\n        current_outputs_is_empty = not stored_outputs\n        if stored_outputs is None:\n            self.__hdf_database.add_pending_array(hashed_input_value)\n", "expect": "12.2"},
    {"name": "listener-kinds-swapped", "file": EP, "old": "        if at_each_function_call:\n            self.database.add_store_listener(listener)\n        if at_each_iteration:\n            self.database.add_new_iter_listener(listener)", "new": "        if at_each_function_call:\n            self.database.add_new_iter_listener(listener)\n        if at_each_iteration:\n            self.database.add_store_listener(listener)", "expect": "12.2"},
    {"name": "listen-before-load", "file": BS, "old": "        if self._opt_hist_backup_path.exists():\n            if erase and load:", "new": "        opt_pb.add_listener(\n            self._execute_backup_callback,\n            at_each_iteration=at_each_iteration,\n            at_each_function_call=at_each_function_call,\n        )\n        if self._opt_hist_backup_path.exists():\n            if erase and load:", "expect": "12.3", "then": None},
    {"name": "counter-not-restored", "file": BS, "old": "                max_iteration = len(opt_pb.database)\n                if max_iteration != 0:\n                    opt_pb.evaluation_counter.current = max_iteration\n", "new": "", "expect": "12.3"},
    {"name": "counter-measured-before-load", "file": BS, "old": "                opt_pb.database.update_from_hdf(self._opt_hist_backup_path)\n                max_iteration = len(opt_pb.database)\n", "new": "                max_iteration = len(opt_pb.database)\n                opt_pb.database.update_from_hdf(self._opt_hist_backup_path)\n", "expect": "12.3"},
    {"name": "erase-and-load-accepted", "file": BS, "old": "            if erase and load:\n                msg = (\n                    \"Conflicting options for history backup, \"\n                    \"cannot pre load optimization history and erase it!\"\n                )\n                raise ValueError(msg)\n", "new": "", "expect": "12.3"},
    {"name": "loaded-point-recomputed", "file": PF, "old": "        output_value = database.get_function_value(self.name, hashed_xu)\n        if output_value is None:", "new": "        output_value = database.get_function_value(self.name, hashed_xu)\n        if output_value is None or not self.stop_if_nan:", "expect": "12.4"},
    {"name": "pending-cleared-before-close", "file": HD, "old": "                input_space.to_hdf(file_path, append=True, hdf_node_path=hdf_node_path)\n\n        self.__pending_arrays.clear()", "new": "                input_space.to_hdf(file_path, append=True, hdf_node_path=hdf_node_path)\n\n            self.__pending_arrays.clear()", "expect": "12.2"},
]
TWINS = [
    {"name": "load-tested-separately-after-the-refusal", "file": BS, "old": "            elif load:\n                opt_pb.database.update_from_hdf", "new": "            if load:\n                opt_pb.database.update_from_hdf"},
    {"name": "backup-path-by-keyword", "file": BS, "old": "self.save_optimization_history(self._opt_hist_backup_path, append=True)", "new": "self.save_optimization_history(file_path=self._opt_hist_backup_path, append=True)"},
]
