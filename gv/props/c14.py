"""C14 -- DOE samples honour bounds, types, count and seed (seed routing, integer window, image of unit samples)."""

from __future__ import annotations

import ast

from gv import rules
from gv.astutil import AnalysisError
from gv.astutil import dotted
from gv.astutil import kwarg
from gv.astutil import last_attr
from gv.astutil import names_in
from gv.astutil import norm_stmt
from gv.astutil import stmts_of
from gv.astutil import walk_body
from gv.cfg import cfg_of
from gv.props import describe
from gv.props.shared import branch_conditions
from gv.props.shared import unfolded
from gv.props.shared import literal_facts
from gv.report import Ctx
from gv.report import cname

DOE = "algos/doe/base_doe_library.py"
SEED = "utils/seeder.py"

describe(
    "C14",
    explanation=(
        "That the third-party generators return points of [0,1]^d, and the exact counts of structured designs, "
        "are NOT decided. Decided: every random-number source constructed by a DOE library is seeded with "
        "self._seeder.get_seed(<user seed>) and no unseeded global source is called anywhere under algos/doe; "
        "the seeder returns the user's seed when given and a fresh default otherwise; the map from unit samples "
        "to physical samples is applied to the unit samples just generated, inside the window in which integer "
        "variables are normalised, and the window is closed with the flag returned when it was opened; "
        "unit_sampling returns the unit samples untouched; unbounded components are refused before sampling; the "
        "evaluation budget equals the number of samples."
    ),
    decided=["14.1 seed routing", "14.2 integer-normalisation window", "14.3 physical samples are the image of the unit samples", "14.4 budget = number of samples", "14.6 block size of the Sobol indices design per case", "14.7 named samples in design-space order", "14.8 bounds edits invalidate the cached normalisation (rule groups of C02)", "14.1 global generators seeded unconditionally", "14.11 ParameterSpace image in variable order (rule group 19.2 of C19)"],
    not_decided=["third-party generators return points in [0,1]^d", "exact counts of structured designs"],
    trusted=["scipy.stats.qmc, pyDOE, OpenTURNS generators are deterministic for a given seed"],
)

GLOBAL_RNG_MODULES = ("numpy.random", "random")
RNG_CTORS = {"RandomState", "default_rng", "Generator", "SeedSequence"}


_SEED_KEYS = ("seed", "random_state")


def _seed_in_options(f: ast.AST, call: ast.Call):
    """The seed that reaches ``call(..., **options)`` through the local mapping ``options``: the value stored last
    under the key "seed" / "random_state" (``options["seed"] = e``, or an item of the literal the local is defined
    by), provided that this store happens on every path to the call and nothing edits the mapping in between."""
    stars = [kw.value.id for kw in call.keywords if kw.arg is None and isinstance(kw.value, ast.Name)]
    if not stars:
        return None
    cfg = cfg_of(f)
    if not cfg.has(call):
        return None
    at = cfg.node_of(call)
    for name in stars:
        stores, edits = [], []
        for s_ in stmts_of(f):
            if isinstance(s_, ast.Assign) and len(s_.targets) == 1:
                t = s_.targets[0]
                if isinstance(t, ast.Subscript) and dotted(t.value) == name:
                    edits.append(s_)
                    if isinstance(t.slice, ast.Constant) and t.slice.value in _SEED_KEYS:
                        stores.append((s_, s_.value))
                    continue
                if isinstance(t, ast.Name) and t.id == name:
                    edits.append(s_)
                    v = s_.value
                    if isinstance(v, ast.Dict):
                        items = [(k, x) for k, x in zip(v.keys, v.values)]
                        for i, (k, x) in enumerate(items):
                            if isinstance(k, ast.Constant) and k.value in _SEED_KEYS and all(k2 is not None for k2, _ in items[i + 1 :]):
                                stores.append((s_, x))
                    elif isinstance(v, ast.Call) and dotted(v.func) == "dict":
                        for kw in v.keywords:
                            if kw.arg in _SEED_KEYS:
                                stores.append((s_, kw.value))
                    continue
            if any(isinstance(n_, ast.Name) and n_.id == name and not isinstance(n_.ctx, ast.Load) for n_ in ast.walk(s_)):
                edits.append(s_)
            elif any(isinstance(n_, ast.Subscript) and dotted(n_.value) == name and not isinstance(n_.ctx, ast.Load) for n_ in ast.walk(s_)):
                edits.append(s_)
            elif any(isinstance(n_, ast.Call) and isinstance(n_.func, ast.Attribute) and dotted(n_.func.value) == name and n_.func.attr in ("update", "pop", "clear", "setdefault", "popitem", "__setitem__", "__delitem__") for n_ in ast.walk(s_)):
                edits.append(s_)
        for st, value in stores:
            sn = cfg.node_of(st)
            if sn == at or not cfg.dominates(sn, at):
                continue
            if any(e_ is not st and cfg.node_of(e_) != at and cfg.reachable(sn, cfg.node_of(e_)) and cfg.reachable(cfg.node_of(e_), at) for e_ in edits):
                continue
            return value
    return None


def check_seeds(ctx: Ctx) -> None:
    base = ctx.index.cls(DOE, "BaseDOELibrary")
    impls = ctx.index.overriders(base, "_generate_unit_samples")
    ctx.need(len(impls) >= 7, f"only {len(impls)} _generate_unit_samples implementations found")
    n_seeded = 0
    for cls, f in impls:
        if cls == base:
            continue
        con = cname(cls.module.relpath, cls.qualname, "_generate_unit_samples")
        params = [x.arg for x in f.args.posonlyargs + f.args.args + f.args.kwonlyargs]
        for c in walk_body(f):
            if not isinstance(c, ast.Call):
                continue
            name = last_attr(c)
            seed_expr = None
            if name in RNG_CTORS:
                seed_expr = c.args[0] if c.args else (kwarg(c, "seed") or "MISSING")
            elif name == "SetSeed":
                seed_expr = c.args[0] if c.args else "MISSING"
            elif kwarg(c, "seed") is not None and name not in ("get_seed",):
                seed_expr = kwarg(c, "seed")
            elif kwarg(c, "random_state") is not None:
                seed_expr = kwarg(c, "random_state")
            else:
                seed_expr = _seed_in_options(f, c)
            if seed_expr is None:
                continue
            if isinstance(seed_expr, ast.Call) and last_attr(seed_expr) in RNG_CTORS:
                continue  # the inner constructor is checked on its own
            n_seeded += 1
            # the seed with the locals it reads replaced by their definitions (seed = get_seed(seed); SetSeed(seed))
            alts = (unfolded(f, seed_expr) or [seed_expr]) if isinstance(seed_expr, ast.AST) else [seed_expr]
            ok = all(isinstance(a_, ast.Call) and norm_stmt(a_.func) == "self._seeder.get_seed" and len(a_.args) == 1 and not a_.keywords for a_ in alts)
            ctx.ob("14.1-seeded", con, ok, f"`{norm_stmt(c, 60)}` creates a random source that is not seeded with self._seeder.get_seed(<user seed>): two runs with the same settings and seed differ, or the user's seed is ignored", node=c)
            if name == "SetSeed":
                # a GLOBAL generator: it is re-seeded at every generation, whatever the algorithm (a list of "random"
                # algorithms is one omission away from an unseeded design; the state left by other users of the library
                # would otherwise decide the samples)
                fcfg = cfg_of(f)
                conds = literal_facts(fcfg, fcfg.node_of(c)) if fcfg.has(c) else {"?": True}
                ctx.ob("14.1-seeded", con, not conds, f"the global OpenTURNS generator must be seeded on every path to the generation; here only under `{' and '.join(conds)}`", node=c, stmt="SetSeed is unconditional")
            if ok:
                # the argument is the user's setting (a subscript of settings / a parameter named seed)
                args = [a_.args[0] for a_ in alts]
                ok2 = all((isinstance(a, ast.Subscript) and dotted(a.value) == "settings") or (isinstance(a, ast.Name) and a.id in params) for a in args)
                ctx.ob("14.1-user-seed", con, ok2, "the seeder must be asked with the user's seed setting (None means: next default seed)", node=c, stmt=f"get_seed({norm_stmt(seed_expr.args[0]) if isinstance(seed_expr, ast.Call) and seed_expr.args else ' | '.join(norm_stmt(a) for a in args)})")
    ctx.counts["14.1-seeded"] = max(ctx.counts.get("14.1-seeded", 0), n_seeded)
    ctx.floor("14.1-seeded", 3)
    # no unseeded global source under algos/doe
    n_mod = n_calls = 0
    for rel, mod in sorted(ctx.index.modules.items()):
        if not rel.startswith("algos/doe/"):
            continue
        n_mod += 1
        rng_names = {local for local, q in mod.imports.items() if any(q == m or q.startswith(m + ".") for m in GLOBAL_RNG_MODULES)}
        for c in ast.walk(mod.tree):
            if not isinstance(c, ast.Call):
                continue
            d = dotted(c.func) or ""
            head = d.split(".")[0]
            qual = mod.imports.get(head, "")
            full = (qual + d[len(head):]) if qual else d
            is_global = False
            if any(full.startswith(m + ".") for m in GLOBAL_RNG_MODULES):
                fn = full.rsplit(".", 1)[1]
                if fn in RNG_CTORS:
                    is_global = not c.args and not c.keywords
                else:
                    is_global = True
            elif full.startswith("numpy.random") or ".random." in full and full.startswith(("np.", "numpy.")):
                fn = full.rsplit(".", 1)[1]
                is_global = fn not in RNG_CTORS or (not c.args and not c.keywords)
            if head in rng_names or is_global:
                n_calls += 1
                ctx.ob("14.1-no-global-rng", cname(rel, None, "<module>"), not is_global, f"`{norm_stmt(c, 60)}` draws from an unseeded global random source: the design is not reproducible for a given seed", node=c)
    ctx.extra["doe_modules_scanned"] = n_mod
    ctx.ob("14.1-no-global-rng", cname("algos/doe", None, "<package>"), n_mod >= 20, "DOE modules scanned for unseeded global random sources", stmt=f"{n_mod} modules scanned")
    # positive control for the zero-count rule
    ctl = ast.parse("from numpy.random import rand\nimport numpy as np\ndef g():\n    return rand(3) + np.random.uniform(size=3)\n")
    hits = [c for c in ast.walk(ctl) if isinstance(c, ast.Call) and (dotted(c.func) in ("rand", "np.random.uniform"))]
    ctx.need(len(hits) == 2, "self-check of the global-RNG rule failed")
    # the seeder
    g = ctx.index.method(SEED, "Seeder", "get_seed")
    con = cname(SEED, "Seeder", "get_seed")
    rets = [s for s in stmts_of(g) if isinstance(s, ast.Return)]
    ok = len(rets) == 1 and isinstance(rets[0].value, ast.IfExp) and norm_stmt(rets[0].value.test) in ("seed is None", "None is seed") and dotted(rets[0].value.body) == "self.default_seed" and dotted(rets[0].value.orelse) == "seed"
    if not ok and len(rets) == 1 and isinstance(rets[0].value, ast.IfExp) and norm_stmt(rets[0].value.test) == "seed is not None":
        ok = dotted(rets[0].value.body) == "seed" and dotted(rets[0].value.orelse) == "self.default_seed"
    ctx.ob("14.1-seeder", con, ok, "get_seed must return the user's seed when given and the default seed otherwise", node=(rets or [g])[0])
    inc = [s for s in stmts_of(g) if isinstance(s, ast.AugAssign) and dotted(s.target) == "self.default_seed"]
    ctx.ob("14.1-seeder", con, len(inc) == 1 and isinstance(inc[0].op, ast.Add), "the default seed must change at every call (successive unseeded DOEs differ, runs are reproducible)", node=(inc or [g])[0], stmt="default seed incremented per call")


def _name_of(f: ast.AST, e: ast.AST | None) -> str | None:
    """The attribute chain ``e`` stands for (``problem.design_space``), read through the locals that merely name it
    (``design_space = problem.design_space``); None when it is anything else (a call result is not an identity)."""
    if e is None:
        return None
    alts = unfolded(f, e) or [e]
    texts = {_chain(a_) for a_ in alts}
    return next(iter(texts)) if len(texts) == 1 else None


def _chain(e: ast.AST | None) -> str | None:
    """``a.b.c`` for a chain of plain attribute reads, None for anything else."""
    n = e
    while isinstance(n, ast.Attribute):
        n = n.value
    return dotted(e) if isinstance(n, ast.Name) else None


def _same_object(f: ast.AST, a: ast.AST, b: ast.AST) -> bool:
    """Do ``a`` and ``b`` name the same object: the same name in the source, or the same attribute chain once the
    locals that merely name it are read through."""
    if _chain(a) is not None and _chain(a) == _chain(b):
        return True
    return _name_of(f, a) is not None and _name_of(f, a) == _name_of(f, b)


def check_window(ctx: Ctx) -> None:
    for m in ("_pre_run", "compute_doe"):
        f = ctx.index.method(DOE, "BaseDOELibrary", m)
        con = cname(DOE, "BaseDOELibrary", m)
        cfg = cfg_of(f)
        en = [s for s in stmts_of(f) if isinstance(s, ast.Assign) and isinstance(s.value, ast.Call) and last_attr(s.value).endswith("__enable_integer_variables_normalization")]
        rs = [c for c in walk_body(f) if isinstance(c, ast.Call) and last_attr(c).endswith("__reset_integer_variables_normalization")]
        ctx.ob("14.2-window", con, len(en) == 1 and len(rs) >= 1, "the mapping of the unit samples must be bracketed by the enable and the reset of the integer-variable normalisation (one of them is missing)", node=(en or rs or [f])[0], stmt="enable and reset present")
        if len(en) != 1 or not rs:
            continue
        flag = dotted(en[0].targets[0])
        if m == "_pre_run":
            conv = rules.self_calls(f, "__convert_unit_samples_to_samples", "BaseDOELibrary")
            ctx.need(len(conv) == 1, "_pre_run: conversion of the unit samples not found")
            un = cfg.node_of(conv[0])
            unt = conv[0]
        else:
            unts = [c for c in walk_body(f) if isinstance(c, ast.Call) and last_attr(c) == "untransform_vect"]
            ctx.need(len(unts) == 1, "compute_doe: untransform_vect call not found")
            un = cfg.node_of(unts[0])
            unt = unts[0]
        e_n = cfg.node_of(en[0])
        r_nodes = {cfg.node_of(rules.enclosing_stmt(f, r_)) for r_ in rs}
        r_n = min(r_nodes)
        ok = cfg.reachable(e_n, un) and not cfg.reachable(un, e_n) and any(cfg.reachable(un, x_) for x_ in r_nodes) and not any(cfg.path(x_, un, avoid={e_n}) is not None for x_ in r_nodes)
        ctx.ob("14.2-window", con, ok, "the unit samples must be mapped to the design space while integer variables are normalised: enable ... untransform ... reset, in this order (outside the window integer components keep their unit value and are then rounded to 0 or 1)", node=unt)
        # every normal path from the enable to the end of the method passes a reset
        from gv.props.shared import contradicted_branches

        ok = cfg.escape_path(e_n, r_nodes | contradicted_branches(cfg, e_n)) is None
        ctx.ob("14.2-window", con, ok, "the normalisation of integer variables must be restored on every normal path after the mapping", node=rs[0], stmt="reset post-dominates the mapping")
        ok = all(len(r_.args) == 2 and dotted(r_.args[1]) == flag and bool(en[0].value.args) and _same_object(f, r_.args[0], en[0].value.args[0]) for r_ in rs)
        ctx.ob("14.2-window", con, ok, "the reset must receive the flag returned by the enable for the same design space (otherwise a space whose integers were already normalised is switched off)", node=rs[0], stmt="reset(design_space, <flag returned by enable>)")
        chk = [c for c in walk_body(f) if isinstance(c, ast.Call) and last_attr(c).endswith("__check_unnormalization_capability")]
        gen = rules.self_calls(f, "_generate_unit_samples")
        ok = len(chk) == 1 and len(gen) == 1 and cfg.reachable(cfg.node_of(chk[0]), cfg.node_of(gen[0])) and not cfg.reachable(cfg.node_of(gen[0]), cfg.node_of(chk[0]))
        ctx.ob("14.3-bounded", con, ok, "unbounded components must be refused before samples are generated", node=(chk or [f])[0])
    e = ctx.index.method(DOE, "BaseDOELibrary", "__enable_integer_variables_normalization")
    # decided by running the method on the two states of the switch: it returns True and leaves the switch on when
    # the switch was off; it returns False and leaves the switch on when it was on
    from gv.ordering import Unsupported

    e_params = [a_.arg for a_ in e.args.args if a_.arg not in ("self", "cls")]
    ctx.need(len(e_params) == 1, "__enable_integer_variables_normalization(design_space) not recognised")
    switch = f"{e_params[0]}.enable_integer_variables_normalization"
    ok = True
    for was_on in (0, 1):
        env, loc, path = {"on": was_on}, {}, []
        try:
            done = _run_case(e.body, loc, {switch: "on"}, env, path, state=True)
            ok = ok and done and path[-1].value is not None and _truth_of(path[-1].value, loc, {switch: "on"}, env) == (not was_on) and env["on"] == 1
        except Unsupported:
            ok = False
    rets = [s for s in stmts_of(e) if isinstance(s, ast.Return)]
    ctx.ob("14.2-window", cname(DOE, "BaseDOELibrary", "__enable_integer_variables_normalization"), ok, "enable returns whether it had to switch the normalisation on", node=(rets or [e])[0])
    r = ctx.index.method(DOE, "BaseDOELibrary", "__reset_integer_variables_normalization")
    sets = [s for s in stmts_of(r) if isinstance(s, ast.Assign) and (dotted(s.targets[0]) or "").endswith("enable_integer_variables_normalization")]
    cfgr = cfg_of(r)
    ok = len(sets) == 1 and getattr(sets[0].value, "value", None) is False and [(norm_stmt(cfgr.ast[t].test), v) for t, v in branch_conditions(cfgr, cfgr.node_of(sets[0])) if cfgr.kind[t] == "test"] == [(r.args.args[1].arg, True)]
    ctx.ob("14.2-window", cname(DOE, "BaseDOELibrary", "__reset_integer_variables_normalization"), ok, "reset switches the normalisation off iff the enable had switched it on", node=(sets or [r])[0])


def check_image(ctx: Ctx) -> None:
    f = ctx.index.method(DOE, "BaseDOELibrary", "_pre_run")
    con = cname(DOE, "BaseDOELibrary", "_pre_run")
    us = rules.assigns_to_self(f, "unit_samples")
    ok = len(us) == 1 and isinstance(us[0].value, ast.Call) and last_attr(us[0].value) == "_generate_unit_samples" and bool(us[0].value.args) and _name_of(f, us[0].value.args[0]) == "problem.design_space"
    ctx.ob("14.3-image", con, ok, "the unit samples are those generated for the problem's design space", node=(us or [f])[0])
    sm = rules.assigns_to_self(f, "samples")
    ok = len(sm) == 1 and isinstance(sm[0].value, ast.Call) and last_attr(sm[0].value).endswith("__convert_unit_samples_to_samples")
    cfg = cfg_of(f)
    ok = ok and us and cfg.reachable(cfg.node_of(us[0]), cfg.node_of(sm[0])) and not cfg.reachable(cfg.node_of(sm[0]), cfg.node_of(us[0]))
    ctx.ob("14.3-image", con, bool(ok), "the physical samples must be computed from the unit samples just generated", node=(sm or [f])[0])
    # every design space handed over by _pre_run (to the generation, the enable, the bounds check, the reset) is the
    # problem's: the local that names it, if any, is bound once to problem.design_space
    ds = [s for s in stmts_of(f) if isinstance(s, ast.Assign) and dotted(s.targets[0]) == "design_space"]
    handed = [c_.args[0] for c_ in walk_body(f) if isinstance(c_, ast.Call) and c_.args and (last_attr(c_) == "_generate_unit_samples" or last_attr(c_).endswith(("__enable_integer_variables_normalization", "__reset_integer_variables_normalization", "__check_unnormalization_capability")))]
    ok = len(ds) <= 1 and all(dotted(s.value) == "problem.design_space" for s in ds) and len(handed) >= 4 and all(_name_of(f, a_) == "problem.design_space" for a_ in handed)
    ctx.ob("14.3-image", con, ok, "the design space sampled is the problem's", node=(ds or [f])[0])
    c = ctx.index.method(DOE, "BaseDOELibrary", "__convert_unit_samples_to_samples")
    conc = cname(DOE, "BaseDOELibrary", "__convert_unit_samples_to_samples")
    unt = [x for x in walk_body(c) if isinstance(x, ast.Call) and last_attr(x) == "untransform_vect"]
    ok = len(unt) == 1 and bool(unt[0].args) and _name_of(c, unt[0].args[0]) == "self.unit_samples" and _name_of(c, unt[0].func.value) == "problem.design_space"
    ctx.ob("14.3-image", conc, ok, "samples = design_space.untransform_vect(self.unit_samples)", node=(unt or [c])[0])
    rets = [s for s in stmts_of(c) if isinstance(s, ast.Return)]
    sdef = [s for s in stmts_of(c) if isinstance(s, ast.Assign) and rets and dotted(s.targets[0]) == dotted(rets[0].value)]
    ok = len(rets) == 1 and len(sdef) == 1 and unt and sdef[0].value is unt[0]
    ctx.ob("14.3-image", conc, bool(ok), "the converted samples are what is returned", node=(rets or [c])[0])
    g = ctx.index.method(DOE, "BaseDOELibrary", "compute_doe")
    cong = cname(DOE, "BaseDOELibrary", "compute_doe")
    cfgg = cfg_of(g)
    gen = [s for s in stmts_of(g) if isinstance(s, ast.Assign) and isinstance(s.value, ast.Call) and last_attr(s.value) == "_generate_unit_samples"]
    ctx.need(len(gen) == 1, "compute_doe: unit sample generation not found")
    uv = dotted(gen[0].targets[0])
    unt = [x for x in walk_body(g) if isinstance(x, ast.Call) and last_attr(x) == "untransform_vect"]
    ok = len(unt) == 1 and bool(unt[0].args) and dotted(unt[0].args[0]) == uv and bool(gen[0].value.args) and dotted(unt[0].func.value) is not None and dotted(unt[0].func.value) == dotted(gen[0].value.args[0])
    ctx.ob("14.3-image", cong, ok, "compute_doe must map the unit samples it has just generated with the same design space", node=(unt or [g])[0])
    rets = [s for s in stmts_of(g) if isinstance(s, ast.Return)]
    unit_ret = [r for r in rets if dotted(r.value) == uv]
    ok = len(unit_ret) == 1 and [(norm_stmt(cfgg.ast[t].test), v) for t, v in branch_conditions(cfgg, cfgg.node_of(unit_ret[0])) if cfgg.kind[t] == "test"] == [("unit_sampling", True)]
    ctx.ob("14.3-unit", cong, ok, "with unit_sampling the unit samples are returned untouched, and only then", node=(unit_ret or [g])[0])
    phys = [r for r in rets if r not in unit_ret]
    ok = len(phys) == 1 and unt
    if ok:
        d = [s for s in stmts_of(g) if isinstance(s, ast.Assign) and dotted(s.targets[0]) == dotted(phys[0].value)]
        ok = len(d) == 1 and d[0].value is unt[0]
    ctx.ob("14.3-image", cong, bool(ok), "without unit_sampling the mapped samples are returned", node=(phys or [g])[0])


def check_stratified_levels(ctx: Ctx) -> None:
    """14.5: a stratified design (axial, factorial, composite) never has more points than requested:
    with n_levels = floor(q) and size = c0 + c1 * n_levels (c1 > 0), size <= c0 + c1 * q must be <= n_samples."""
    import sympy as sp

    from gv import symexpr

    n = 0
    for rel in ("ot_axial_doe.py", "ot_factorial_doe.py", "ot_composite_doe.py"):
        path = "algos/doe/openturns/_algos/" + rel
        mod = ctx.index.module(path)
        cls = next(iter(mod.classes.values()))
        f = cls.methods.get("_compute_n_levels")
        con = cname(path, cls.qualname, "_compute_n_levels")
        if f is None:
            ctx.ob("14.5-levels", con, False, "the number of levels of the stratified design is not computed in _compute_n_levels", node=cls.node, stmt="_compute_n_levels defined")
            continue
        params = [a.arg for a in f.args.args if a.arg not in ("self", "cls")]
        env = {p_: sp.Symbol(p_, positive=True) for p_ in params}
        fin = [s_ for s_ in stmts_of(f) if isinstance(s_, ast.Assign) and dotted(s_.targets[0]) == "final_n_samples"]
        rets = [s_ for s_ in stmts_of(f) if isinstance(s_, ast.Return) and s_.value is not None]
        # the number of levels is the local the size of the design is computed from, read through its definitions
        # (n_levels = <quotient>; n_levels = int(n_levels) is the same number as int(<quotient>))
        reads = [n_ for n_ in ast.walk(fin[0].value) if isinstance(n_, ast.Name) and n_.id not in params] if len(fin) == 1 else []
        lname = reads[0].id if len({n_.id for n_ in reads}) == 1 else None
        lv = [s_ for s_ in stmts_of(f) if isinstance(s_, ast.Assign) and lname is not None and dotted(s_.targets[0]) == lname]
        levels = (unfolded(f, reads[0]) or []) if lname is not None else []
        q = None
        if len(levels) == 1:
            v = levels[0]
            if isinstance(v, ast.Call) and dotted(v.func) in ("int", "floor", "math.floor") and len(v.args) == 1 and not v.keywords:
                q = symexpr.to_term(v.args[0], env)
            elif isinstance(v, ast.BinOp) and isinstance(v.op, ast.FloorDiv):
                a, b = symexpr.to_term(v.left, env), symexpr.to_term(v.right, env)
                q = a / b if a is not None and b is not None else None
        size = symexpr.to_term(fin[0].value, {**env, lname: sp.Symbol("n_levels", positive=True)}) if lname is not None else None
        if q is None and len(levels) == 1 and lv and size is not None and "n_samples" in env:
            # the number of levels is not a floor: round() / ceil() of the quotient can give a design LARGER than requested
            ctx.ob("14.5-levels", con, False, f"the number of levels `{norm_stmt(levels[0], 60)}` must be the floor of the quotient (int(...) or //): rounded to nearest or up, the design has more points than n_samples", node=lv[-1], stmt="n_levels is a floor")
            continue
        if q is None or size is None or not lv or "n_samples" not in env:
            raise AnalysisError(f"{con}: n_levels = int(<quotient>) / final_n_samples = <affine in n_levels> not recognised")
        L = sp.Symbol("n_levels", positive=True)
        c1 = sp.simplify(sp.diff(size, L))
        slack = sp.simplify(env["n_samples"] - size.subs(L, q))
        n += 1
        ok = c1.free_symbols <= set(env.values()) and bool(c1.is_positive) and slack.is_number and slack >= 0
        ctx.ob("14.5-levels", con, bool(ok), f"with n_levels = floor({q}) the design has {size} = at most {sp.simplify(size.subs(L, q))} points, which exceeds the requested n_samples by {sp.simplify(-slack)} when the quotient is an integer: more samples than requested", node=lv[-1], stmt="size of the stratified design <= n_samples")
        ok = len(rets) == 1 and (dotted(rets[0].value) == lname or [ast.unparse(x_) for x_ in unfolded(f, rets[0].value) or []] == [ast.unparse(levels[0])])
        ctx.ob("14.5-levels", con, ok, "the computed number of levels is what is returned", node=(rets or [f])[0])
    ctx.floor("14.5-levels", 6)


_OTS = "algos/doe/openturns/_algos/ot_sobol_doe.py"


def _resolve(e: ast.AST, loc: dict, atoms: dict, env: dict) -> ast.AST:
    """``e`` with the locals of ``loc`` replaced by their value and every conditional expression replaced by the
    alternative selected under ``env`` (gv.ordering.Unsupported when a test is not a comparison of the atoms)."""
    import copy

    from gv.ordering import executed

    class R(ast.NodeTransformer):
        def visit_Name(self, n):  # noqa: N802
            if isinstance(n.ctx, ast.Load) and n.id in loc:
                return copy.deepcopy(loc[n.id])
            return n

        def visit_IfExp(self, n):  # noqa: N802
            test = self.visit(n.test)
            probe = ast.If(test=test, body=[ast.Expr(value=ast.Constant(value=True))], orelse=[ast.Expr(value=ast.Constant(value=False))])
            return self.visit(n.body if executed([probe], atoms, env)[0].value.value else n.orelse)

    return R().visit(copy.deepcopy(e))


def _truth_of(e: ast.AST, loc: dict, atoms: dict, env: dict) -> bool:
    """Truth value of a test on the atoms under ``env`` (gv.ordering.Unsupported when it is something else)."""
    return _resolve(ast.IfExp(test=e, body=ast.Constant(value=True), orelse=ast.Constant(value=False)), loc, atoms, env).value


def _run_case(stmts, loc: dict, atoms: dict, env: dict, seen: list, frozen: str | None = None, state: bool = False) -> bool:
    """Run straight-line code whose tests compare the atoms: ``loc`` maps each local to its value in terms of the
    parameters, ``seen`` collects the simple statements executed.  True when a return was reached.

    With ``state`` an atom may be assigned a boolean constant (``env`` is updated), and a local that holds a test on
    the atoms keeps the truth value the test had when the local was bound."""
    from gv.ordering import Unsupported

    for st in stmts:
        if isinstance(st, ast.If):
            if _run_case(st.body if _truth_of(st.test, loc, atoms, env) else st.orelse, loc, atoms, env, seen, frozen, state):
                return True
            continue
        if isinstance(st, (ast.For, ast.While, ast.Try, ast.With, ast.Match)):
            raise Unsupported(f"statement `{ast.unparse(st)[:40]}`")
        seen.append(st)
        if isinstance(st, ast.Return):
            return True
        if isinstance(st, ast.Assign) and len(st.targets) == 1 and isinstance(st.targets[0], ast.Name):
            loc[st.targets[0].id] = _resolve(st.value, loc, atoms, env)
            if state:
                try:
                    loc[st.targets[0].id] = ast.Constant(value=_truth_of(st.value, loc, atoms, env))
                except Unsupported:
                    pass
        elif isinstance(st, ast.AugAssign) and isinstance(st.target, ast.Name):
            loc[st.target.id] = _resolve(ast.BinOp(left=ast.Name(id=st.target.id, ctx=ast.Load()), op=st.op, right=st.value), loc, atoms, env)
        elif state and isinstance(st, ast.Assign) and len(st.targets) == 1 and ast.unparse(st.targets[0]) in atoms:
            v = _resolve(st.value, loc, atoms, env)
            if not (isinstance(v, ast.Constant) and isinstance(v.value, bool)):
                raise Unsupported(f"statement `{ast.unparse(st)[:40]}`")
            env[atoms[ast.unparse(st.targets[0])]] = int(v.value)
        elif isinstance(st, (ast.Assign, ast.AugAssign, ast.Delete)):
            raise Unsupported(f"statement `{ast.unparse(st)[:40]}`")
        elif frozen is not None and any(isinstance(c_, ast.Call) and isinstance(c_.func, ast.Attribute) and dotted(c_.func.value) == frozen and c_.func.attr not in ("get", "keys", "values", "items", "copy") for c_ in ast.walk(st)):
            # a method of the settings mapping called for its effect (pop, update, ...) may change the option
            raise Unsupported(f"statement `{ast.unparse(st)[:40]}`")
    return False


def check_sobol_count(ctx: Ctx) -> None:
    """14.6: OT_SOBOL_INDICES never returns more than n_samples.

    SobolIndicesExperiment(N) has N(2+d) points when the second-order indices are not computed or d == 2, and N(2+2d)
    otherwise (OpenTURNS documentation, quoted in the source): N must be floor(n_samples / block) for the block of the
    case at hand.  The tests compare `dimension` with constants only, so each (option, ordering of d and 2) selects a
    path; on that path the locals are replaced by their values (conditional expressions by the alternative taken), and
    the divisor of the size given to the experiment is compared with the block size with sympy.
    """
    import sympy

    from gv.ordering import Unsupported

    f = ctx.index.method(_OTS, "OTSobolDOE", "generate_samples")
    con = cname(_OTS, "OTSobolDOE", "generate_samples")
    exp = [c for c in walk_body(f) if isinstance(c, ast.Call) and last_attr(c) == "SobolIndicesExperiment"]
    ctx.need(len(exp) == 1 and len(exp[0].args) + len(exp[0].keywords) >= 2, "OTSobolDOE: SobolIndicesExperiment(distribution, size, ...) not found")
    size_arg = kwarg(exp[0], "size") or (exp[0].args[1] if len(exp[0].args) >= 2 else None)
    flag_arg = kwarg(exp[0], "computeSecondOrder") or (exp[0].args[2] if len(exp[0].args) >= 3 else None)
    ctx.need(size_arg is not None, "OTSobolDOE: SobolIndicesExperiment(distribution, size, ...) not found")
    n_par, d_par = f.args.args[1].arg, f.args.args[2].arg
    ctx.need(f.args.kwarg is not None, "OTSobolDOE: the eval_second_order option was not found")
    opts = f.args.kwarg.arg
    option = f"{opts}['eval_second_order']"
    ctx.need(any(isinstance(n_, ast.Subscript) and ast.unparse(n_) == option for n_ in walk_body(f)), "OTSobolDOE: the eval_second_order option was not found")
    atoms = {option: "flag", d_par: "d"}
    first = True
    for second in (False, True):
        for d, dlabel in ((1, "d < 2"), (2, "d = 2"), (3, "d > 2"), (6, "d > 2")):
            label = f"eval_second_order={second}, {dlabel}"
            env = {"flag": 1 if second else 0, "d": d}
            loc, path = {}, []
            try:
                _run_case(f.body, loc, atoms, env, path, opts)
                in_path = [s_ for s_ in path if any(n_ is exp[0] for n_ in ast.walk(s_))]
                v = _resolve(size_arg, loc, atoms, env) if in_path else None
                fl = _resolve(flag_arg, loc, atoms, env) if in_path and flag_arg is not None else None
            except Unsupported as e:
                ctx.ob("14.6-sobol-count", con, False, f"the block-size selection is no longer a comparison of the dimension with constants ({e})", node=f, stmt=label)
                continue
            if first:
                first = False
                if isinstance(fl, ast.Call) and dotted(fl.func) == "bool" and len(fl.args) == 1 and not fl.keywords:
                    fl = fl.args[0]
                ctx.ob("14.6-sobol-count", con, fl is not None and ast.unparse(fl) == option, "the experiment must be built with the same eval_second_order option as the one the block size is computed from", node=exp[0], stmt="SobolIndicesExperiment(..., eval_second_order)")
            if v is None:
                ctx.ob("14.6-sobol-count", con, False, f"no sub-sample size is computed for {label}", node=f, stmt=label)
                continue
            where = next((s_ for s_ in reversed(path) if isinstance(s_, ast.Assign) and isinstance(size_arg, ast.Name) and dotted(s_.targets[0]) == size_arg.id), in_path[0])
            quot = None
            if isinstance(v, ast.Call) and dotted(v.func) in ("int", "floor", "math.floor") and len(v.args) == 1 and not v.keywords and isinstance(v.args[0], ast.BinOp) and isinstance(v.args[0].op, (ast.Div, ast.FloorDiv)):
                quot = v.args[0]
            elif isinstance(v, ast.BinOp) and isinstance(v.op, ast.FloorDiv):
                quot = v
            if quot is None or dotted(quot.left) != n_par:
                ctx.ob("14.6-sobol-count", con, False, f"for {label} the sub-sample size `{norm_stmt(v, 60)}` is not floor(n_samples / block): rounding to nearest (or up) returns more samples than requested", node=where, stmt=label)
                continue
            try:
                got = sympy.sympify(norm_stmt(quot.right), locals={d_par: sympy.Integer(d)})
            except Exception:  # noqa: BLE001
                got = None
            block = 2 + d if (not second or d == 2) else 2 + 2 * d
            ctx.ob("14.6-sobol-count", con, got == block, f"for {label} (d={d}) the design has {block} points per unit of sub-sample size but n_samples is divided by {got}: the design has more points than requested", node=where, stmt=label)
    ctx.floor("14.6-sobol-count", 7)


_CD = "algos/doe/custom_doe/custom_doe.py"


def check_custom_order(ctx: Ctx) -> None:
    """14.7: samples given by variable NAME are laid out in the design space's variable order.

    A mapping (or a sequence of mappings) carries no order of its own that means anything: the only conversion to an
    array that is right for every key order is the design space's convert_dict_to_array.
    """
    f = ctx.index.method(_CD, "CustomDOE", "_generate_unit_samples")
    con = cname(_CD, "CustomDOE", "_generate_unit_samples")
    ds = f.args.args[1].arg
    cfg = cfg_of(f)
    ret = [r for r in stmts_of(f) if isinstance(r, ast.Return) and r.value is not None]
    # the array that is mapped to the unit hypercube: transform_vect(<array>) or apply_along_axis(transform_vect, arr=<array>)
    mapped = None
    if len(ret) == 1:
        for c_ in ast.walk(ret[0].value):
            if not isinstance(c_, ast.Call):
                continue
            if isinstance(c_.func, ast.Attribute) and c_.func.attr == "transform_vect" and dotted(c_.func.value) == ds and c_.args:
                mapped = c_.args[0]
            elif any(isinstance(a_, ast.Attribute) and a_.attr == "transform_vect" and dotted(a_.value) == ds for a_ in c_.args):
                mapped = kwarg(c_, "arr") or (c_.args[2] if len(c_.args) >= 3 else None)
    array_names = {"samples"} | ({mapped.id} if isinstance(mapped, ast.Name) else set())

    def polarity(t, v):
        e = cfg.ast[t].test
        while isinstance(e, ast.UnaryOp) and isinstance(e.op, ast.Not):
            e, v = e.operand, not v
        return e, v

    def is_instance_of(e, what):
        return isinstance(e, ast.Call) and dotted(e.func) == "isinstance" and len(e.args) == 2 and what in norm_stmt(e.args[1])

    for s_ in stmts_of(f):
        if not (isinstance(s_, ast.Assign) and dotted(s_.targets[0]) in array_names):
            continue
        conds = [polarity(t, v) for t, v in branch_conditions(cfg, cfg.node_of(s_)) if cfg.kind[t] == "test"]
        # given by name: a mapping, or neither a mapping nor an array (a sequence of mappings)
        by_name = any(is_instance_of(e, "Mapping") and v for e, v in conds) or any(is_instance_of(e, "ndarray") and not v for e, v in conds)
        if not by_name:
            continue
        values = unfolded(f, s_.value) or [s_.value]
        ok = True
        for val in values:
            conv = [
                c_
                for c_ in ast.walk(val)
                if isinstance(c_, ast.Call)
                and (
                    (isinstance(c_.func, ast.Attribute) and c_.func.attr == "convert_dict_to_array" and dotted(c_.func.value) == ds)
                    or (dotted(c_.func) == "map" and c_.args and isinstance(c_.args[0], ast.Attribute) and c_.args[0].attr == "convert_dict_to_array" and dotted(c_.args[0].value) == ds)
                )
            ]
            raw = [c_ for c_ in ast.walk(val) if isinstance(c_, ast.Call) and last_attr(c_) in ("values", "items")]
            ok = ok and bool(conv) and not raw
        ctx.ob("14.7-variable-order", con, ok, "samples keyed by variable name must be converted with design_space.convert_dict_to_array: stacking the dictionary values follows the key order of each dictionary, not the variable order of the design space (components land in the wrong columns, outside their bounds)", node=s_)
    ctx.floor("14.7-variable-order", 2)
    ok = len(ret) == 1 and mapped is not None
    ctx.ob("14.7-variable-order", con, ok, "the user's physical samples are mapped to the unit hypercube with the design space's own transform_vect", node=(ret or [f])[0], stmt="unit samples = transform_vect(samples)")


def check_current_bounds(ctx: Ctx) -> None:
    """14.8: the physical samples are the image of the unit samples under the CURRENT bounds: the design space's cached
    normalisation data are invalidated by every edit of the bounds (rule groups 2.2/2.3 of C02; algos/design_space.py is
    an anchor of this property too)."""
    from gv.props import c02
    from gv.props.c12 import _Prefixed

    ds = ctx.index.cls("algos/design_space.py", "DesignSpace")
    view = c02.View(ctx, ds)
    c02.check_protocols(_Prefixed(ctx, "14.8-current-bounds/"), view)
    c02.check_norm_cache(_Prefixed(ctx, "14.8-current-bounds/"), view)
    # ... and the image itself: the affine map and the rounding of the integer components (rule group 2.7)
    c02.check_affine_ops(_Prefixed(ctx, "14.9-image-map/"), view)


def check_fullfact_columns(ctx: Ctx) -> None:
    """14.10: the OpenTURNS full factorial design is generated for the variables that have intermediate levels only; its
    columns go back to the positions of THOSE variables (the others sit at the centre): the positions are collected
    with the levels, under the same filter, and the design is stored at them."""
    from gv.props.shared import accumulated_lists, branch_conditions

    rel = "algos/doe/openturns/_algos/ot_full_factorial_doe.py"
    cls = next(iter(c for c in ctx.index.module(rel).classes.values() if "_generate_fullfact_from_levels" in c.methods), None)
    ctx.need(cls is not None, "OT full factorial: _generate_fullfact_from_levels not found")
    f = cls.methods["_generate_fullfact_from_levels"]
    con = cname(rel, cls.name, "_generate_fullfact_from_levels")
    cfg = cfg_of(f)
    gens = [c for c in walk_body(f) if isinstance(c, ast.Call) and last_attr(c) == "generate" and isinstance(c.func, ast.Attribute) and isinstance(c.func.value, ast.Call) and last_attr(c.func.value) == "Box"]
    ctx.need(len(gens) == 1 and gens[0].func.value.args, "OT full factorial: Box(<levels>).generate() not found")
    kept = dotted(gens[0].func.value.args[0])
    lists = accumulated_lists(f)
    lv = [r for r in lists if r["name"] == kept]
    ctx.need(len(lv) == 1, "OT full factorial: the list of the levels handed to Box was not recognised")
    if not lv[0]["conditional"]:
        return  # every variable has its column in the design: nothing to put back

    def filt(r):
        n_ = r["node"]
        if isinstance(n_, ast.Call):
            return sorted(norm_stmt(cfg.ast[t].test) + f"={v}" for t, v in branch_conditions(cfg, cfg.node_of(n_)) if cfg.kind[t] == "test")
        return sorted(norm_stmt(i_) for i_ in n_.value.generators[0].ifs)

    # the positions: the counter of the same enumeration, kept under the same filter
    def is_position(r):
        it, tg = r["iter"], r["target"]
        return isinstance(it, ast.Call) and dotted(it.func) == "enumerate" and isinstance(tg, ast.Tuple) and len(tg.elts) == 2 and all(dotted(e_) == dotted(tg.elts[0]) for e_ in r["elements"]) and norm_stmt(it) == norm_stmt(lv[0]["iter"]) and filt(r) == filt(lv[0])

    pos = [r["name"] for r in lists if r["name"] != kept and is_position(r)]
    stores = [s_ for s_ in stmts_of(f) if isinstance(s_, ast.Assign) and isinstance(s_.targets[0], ast.Subscript) and isinstance(s_.targets[0].slice, ast.Tuple) and len(s_.targets[0].slice.elts) == 2 and isinstance(s_.targets[0].slice.elts[0], ast.Slice) and dotted(s_.targets[0].slice.elts[1]) in pos]
    ok = bool(pos) and len(stores) == 1
    if ok:
        vals = unfolded(f, stores[0], get=lambda s_: s_.value) or [stores[0].value]
        ok = all(any(x is not None and isinstance(x, ast.Call) and last_attr(x) == "generate" for x in ast.walk(v_)) for v_ in vals)
        holder = dotted(stores[0].targets[0].value)
        rets = [r for r in stmts_of(f) if isinstance(r, ast.Return) and cfg.reachable(cfg.node_of(stores[0]), cfg.node_of(r))]
        ok = ok and bool(rets) and all(dotted(r.value) == holder for r in rets)
    ctx.ob("14.10-fullfact-columns", con, bool(ok), "some variables have no column in the OpenTURNS design (levels filtered out): the design must be stored at the positions of the variables that have one (`doe[:, <positions kept with the levels>] = <design>`); appended side by side, the centre columns land on the wrong variables", node=(stores or gens)[0], stmt="design columns put back at the positions of their variables")


def run(ctx: Ctx) -> None:
    check_fullfact_columns(ctx)
    check_sobol_count(ctx)
    check_current_bounds(ctx)
    check_custom_order(ctx)
    check_stratified_levels(ctx)
    check_seeds(ctx)
    check_window(ctx)
    check_image(ctx)
    # a DOE over a ParameterSpace: the physical samples are the image of the unit samples through the space's own
    # untransform_vect, whose blocks must come back in the order of the variables (rule group 19.2 of C19)
    from gv.props import c19
    from gv.props.c12 import _Prefixed

    c19.check_transform_pair(_Prefixed(ctx, "14.11-parameter-space/"))
    f = ctx.index.method(DOE, "BaseDOELibrary", "_pre_run")
    calls = rules.self_calls(f, "_init_iter_observer")
    ok = len(calls) == 1 and len(calls[0].args) >= 2 and norm_stmt(calls[0].args[1]) in ("len(self.unit_samples)", "len(self.samples)")
    ctx.ob("14.4-budget", cname(DOE, "BaseDOELibrary", "_pre_run"), ok, "the evaluation budget of a DOE must be its number of samples", node=(calls or [f])[0])
    if calls:
        cfg = cfg_of(f)
        us = rules.assigns_to_self(f, "unit_samples")
        ok = us and cfg.reachable(cfg.node_of(us[0]), cfg.node_of(calls[0])) and not cfg.reachable(cfg.node_of(calls[0]), cfg.node_of(us[0]))
        ctx.ob("14.4-budget", cname(DOE, "BaseDOELibrary", "_pre_run"), bool(ok), "the budget must be set after the samples are generated", node=calls[0], stmt="budget set after generation")


# ---------------------------------------------------------------------------
_SC = "algos/doe/scipy/scipy_doe.py"
_PY = "algos/doe/pydoe/pydoe.py"
_OT = "algos/doe/openturns/openturns.py"
WITNESSES = [
    {"name": "seeded-C14-12", "file": "algos/doe/openturns/openturns.py", "old": "\n    __DOC: Final[str] = \"http://openturns.github.io/openturns/latest/user_manual/\"\n\n    ALGORITHM_INFOS: ClassVar[dict[str, OpenTURNSAlgorithmDescription]] = {\n        __SOBOL: OpenTURNSAlgorithmDescription(\n            algorithm_name=__SOBOL,\n            description=\"Sobol sequence\",\n            internal_algorithm_name=__SOBOL,\n            website=f\"{__DOC}_generated/openturns.SobolSequence.html\",\n            Settings=OT_SOBOL_Settings,\n        ),\n        __RANDOM: OpenTURNSAlgorithmDescription(\n            algorithm_name=__RANDOM,\n            description=\"Random sampling\",\n            internal_algorithm_name=__RANDOM,\n            website=f\"{__DOC}_generated/openturns.Uniform.html\",\n            Settings=OT_RANDOM_Settings,\n        ),\n        __HASELGROVE: OpenTURNSAlgorithmDescription(\n            algorithm_name=__HASELGROVE,\n            description=\"Haselgrove sequence\",\n            internal_algorithm_name=__HASELGROVE,\n            website=f\"{__DOC}_generated/openturns.HaselgroveSequence.html\",\n            Settings=OT_HASELGROVE_Settings,\n        ),\n        __REVERSE_HALTON: OpenTURNSAlgorithmDescription(\n            algorithm_name=__REVERSE_HALTON,\n            description=\"Reverse Halton\",\n            internal_algorithm_name=__REVERSE_HALTON,\n            website=f\"{__DOC}_generated/openturns.ReverseHaltonSequence.html\",\n            Settings=OT_REVERSE_HALTON_Settings,\n        ),\n        __HALTON: OpenTURNSAlgorithmDescription(\n            algorithm_name=__HALTON,\n            description=\"Halton sequence\",\n            internal_algorithm_name=__HALTON,\n            website=f\"{__DOC}_generated/openturns.HaltonSequence.html\",\n            Settings=OT_HALTON_Settings,\n        ),\n        __FAURE: OpenTURNSAlgorithmDescription(\n            algorithm_name=__FAURE,\n            description=\"Faure sequence\",\n            internal_algorithm_name=__FAURE,\n            website=f\"{__DOC}_generated/openturns.FaureSequence.html\",\n            Settings=OT_FAURE_Settings,\n        ),\n        __MONTE_CARLO: OpenTURNSAlgorithmDescription(\n            algorithm_name=__MONTE_CARLO,\n            description=\"Monte Carlo sequence\",\n            internal_algorithm_name=__MONTE_CARLO,\n            website=f\"{__DOC}_generated/openturns.Uniform.html\",\n            Settings=OT_MONTE_CARLO_Settings,\n        ),\n        __FACTORIAL: OpenTURNSAlgorithmDescription(\n            algorithm_name=__FACTORIAL,\n            description=\"Factorial design\",\n            internal_algorithm_name=__FACTORIAL,\n            website=f\"{__DOC}_generated/openturns.Factorial.html\",\n            Settings=OT_FACTORIAL_Settings,\n        ),\n        __COMPOSITE: OpenTURNSAlgorithmDescription(\n            algorithm_name=__COMPOSITE,\n            description=\"Composite design\",\n            internal_algorithm_name=__COMPOSITE,\n            website=f\"{__DOC}_generated/openturns.Composite.html\",\n            Settings=OT_COMPOSITE_Settings,\n        ),\n        __AXIAL: OpenTURNSAlgorithmDescription(\n            algorithm_name=__AXIAL,\n            description=\"Axial design\",\n            internal_algorithm_name=__AXIAL,\n            website=f\"{__DOC}_generated/openturns.Axial.html\",\n            Settings=OT_AXIAL_Settings,\n        ),\n        __OPT_LHS: OpenTURNSAlgorithmDescription(\n            algorithm_name=__OPT_LHS,\n            description=\"Optimal Latin Hypercube Sampling\",\n            internal_algorithm_name=__OPT_LHS,\n            website=f\"{__DOC}_generated/openturns.SimulatedAnnealingLHS.html\",\n            Settings=OT_OPT_LHS_Settings,\n        ),\n        __LHS: OpenTURNSAlgorithmDescription(\n            algorithm_name=__LHS,\n            description=\"Latin Hypercube Sampling\",\n            internal_algorithm_name=__LHS,\n            website=f\"{__DOC}_generated/openturns.LHS.html\",\n            Settings=OT_LHS_Settings,\n        ),\n        __LHSC: OpenTURNSAlgorithmDescription(\n            algorithm_name=__LHSC,\n            description=\"Centered Latin Hypercube Sampling\",\n            internal_algorithm_name=__LHSC,\n            website=f\"{__DOC}_generated/openturns.LHS.html\",\n            Settings=OT_LHSC_Settings,\n        ),\n        __FULLFACT: OpenTURNSAlgorithmDescription(\n            algorithm_name=__FULLFACT,\n            description=\"Full factorial design\",\n            internal_algorithm_name=__FULLFACT,\n            website=f\"{__DOC}_generated/openturns.Box.html\",\n            Settings=OT_FULLFACT_Settings,\n        ),\n        __SOBOL_INDICES: OpenTURNSAlgorithmDescription(\n            algorithm_name=__SOBOL_INDICES,\n            description=\"DOE for Sobol indices\",\n            internal_algorithm_name=__SOBOL_INDICES,\n            website=f\"{__DOC}_generated/openturns.SobolIndicesAlgorithm.html\",\n            Settings=OT_SOBOL_INDICES_Settings,\n        ),\n    }\n\n    def _generate_unit_samples(\n        self,\n        design_space: DesignSpace,\n        n_samples: int = 0,\n        seed: int | None = None,\n        **settings: OptionType,\n    ) -> NumberArray:\n        \"\"\"\n        Args:\n            n_samples: The number of samples.\n                If 0, set from the options.\n            seed: The seed used for reproducibility reasons.\n                If ``None``, use :attr:`.seed`.\n        \"\"\"  # noqa: D205, D212, D415\n        openturns.RandomGenerator.SetSeed(self._seeder.get_seed(seed))\n        doe_algo = self.__NAMES_TO_CLASSES[self._algo_name]()\n", "new": "\n    __RANDOM_ALGO_NAMES: Final[frozenset[str]] = frozenset({\n        __LHS,\n        __MONTE_CARLO,\n        __OPT_LHS,\n        __RANDOM,\n        __SOBOL_INDICES,\n    })\n    \"\"\"The names of the algorithms using the OpenTURNS random generator.\n\n    The other ones are deterministic (low-discrepancy sequences and stratified DOEs)\n    and do not need to reset the global state of the OpenTURNS random generator.\n    \"\"\"\n\n    __DOC: Final[str] = \"http://openturns.github.io/openturns/latest/user_manual/\"\n\n    ALGORITHM_INFOS: ClassVar[dict[str, OpenTURNSAlgorithmDescription]] = {\n        __SOBOL: OpenTURNSAlgorithmDescription(\n            algorithm_name=__SOBOL,\n            description=\"Sobol sequence\",\n            internal_algorithm_name=__SOBOL,\n            website=f\"{__DOC}_generated/openturns.SobolSequence.html\",\n            Settings=OT_SOBOL_Settings,\n        ),\n        __RANDOM: OpenTURNSAlgorithmDescription(\n            algorithm_name=__RANDOM,\n            description=\"Random sampling\",\n            internal_algorithm_name=__RANDOM,\n            website=f\"{__DOC}_generated/openturns.Uniform.html\",\n            Settings=OT_RANDOM_Settings,\n        ),\n        __HASELGROVE: OpenTURNSAlgorithmDescription(\n            algorithm_name=__HASELGROVE,\n            description=\"Haselgrove sequence\",\n            internal_algorithm_name=__HASELGROVE,\n            website=f\"{__DOC}_generated/openturns.HaselgroveSequence.html\",\n            Settings=OT_HASELGROVE_Settings,\n        ),\n        __REVERSE_HALTON: OpenTURNSAlgorithmDescription(\n            algorithm_name=__REVERSE_HALTON,\n            description=\"Reverse Halton\",\n            internal_algorithm_name=__REVERSE_HALTON,\n            website=f\"{__DOC}_generated/openturns.ReverseHaltonSequence.html\",\n            Settings=OT_REVERSE_HALTON_Settings,\n        ),\n        __HALTON: OpenTURNSAlgorithmDescription(\n            algorithm_name=__HALTON,\n            description=\"Halton sequence\",\n            internal_algorithm_name=__HALTON,\n            website=f\"{__DOC}_generated/openturns.HaltonSequence.html\",\n            Settings=OT_HALTON_Settings,\n        ),\n        __FAURE: OpenTURNSAlgorithmDescription(\n            algorithm_name=__FAURE,\n            description=\"Faure sequence\",\n            internal_algorithm_name=__FAURE,\n            website=f\"{__DOC}_generated/openturns.FaureSequence.html\",\n            Settings=OT_FAURE_Settings,\n        ),\n        __MONTE_CARLO: OpenTURNSAlgorithmDescription(\n            algorithm_name=__MONTE_CARLO,\n            description=\"Monte Carlo sequence\",\n            internal_algorithm_name=__MONTE_CARLO,\n            website=f\"{__DOC}_generated/openturns.Uniform.html\",\n            Settings=OT_MONTE_CARLO_Settings,\n        ),\n        __FACTORIAL: OpenTURNSAlgorithmDescription(\n            algorithm_name=__FACTORIAL,\n            description=\"Factorial design\",\n            internal_algorithm_name=__FACTORIAL,\n            website=f\"{__DOC}_generated/openturns.Factorial.html\",\n            Settings=OT_FACTORIAL_Settings,\n        ),\n        __COMPOSITE: OpenTURNSAlgorithmDescription(\n            algorithm_name=__COMPOSITE,\n            description=\"Composite design\",\n            internal_algorithm_name=__COMPOSITE,\n            website=f\"{__DOC}_generated/openturns.Composite.html\",\n            Settings=OT_COMPOSITE_Settings,\n        ),\n        __AXIAL: OpenTURNSAlgorithmDescription(\n            algorithm_name=__AXIAL,\n            description=\"Axial design\",\n            internal_algorithm_name=__AXIAL,\n            website=f\"{__DOC}_generated/openturns.Axial.html\",\n            Settings=OT_AXIAL_Settings,\n        ),\n        __OPT_LHS: OpenTURNSAlgorithmDescription(\n            algorithm_name=__OPT_LHS,\n            description=\"Optimal Latin Hypercube Sampling\",\n            internal_algorithm_name=__OPT_LHS,\n            website=f\"{__DOC}_generated/openturns.SimulatedAnnealingLHS.html\",\n            Settings=OT_OPT_LHS_Settings,\n        ),\n        __LHS: OpenTURNSAlgorithmDescription(\n            algorithm_name=__LHS,\n            description=\"Latin Hypercube Sampling\",\n            internal_algorithm_name=__LHS,\n            website=f\"{__DOC}_generated/openturns.LHS.html\",\n            Settings=OT_LHS_Settings,\n        ),\n        __LHSC: OpenTURNSAlgorithmDescription(\n            algorithm_name=__LHSC,\n            description=\"Centered Latin Hypercube Sampling\",\n            internal_algorithm_name=__LHSC,\n            website=f\"{__DOC}_generated/openturns.LHS.html\",\n            Settings=OT_LHSC_Settings,\n        ),\n        __FULLFACT: OpenTURNSAlgorithmDescription(\n            algorithm_name=__FULLFACT,\n            description=\"Full factorial design\",\n            internal_algorithm_name=__FULLFACT,\n            website=f\"{__DOC}_generated/openturns.Box.html\",\n            Settings=OT_FULLFACT_Settings,\n        ),\n        __SOBOL_INDICES: OpenTURNSAlgorithmDescription(\n            algorithm_name=__SOBOL_INDICES,\n            description=\"DOE for Sobol indices\",\n            internal_algorithm_name=__SOBOL_INDICES,\n            website=f\"{__DOC}_generated/openturns.SobolIndicesAlgorithm.html\",\n            Settings=OT_SOBOL_INDICES_Settings,\n        ),\n    }\n\n    def _generate_unit_samples(\n        self,\n        design_space: DesignSpace,\n        n_samples: int = 0,\n        seed: int | None = None,\n        **settings: OptionType,\n    ) -> NumberArray:\n        \"\"\"\n        Args:\n            n_samples: The number of samples.\n                If 0, set from the options.\n            seed: The seed used for reproducibility reasons.\n                If ``None``, use :attr:`.seed`.\n        \"\"\"  # noqa: D205, D212, D415\n        seed = self._seeder.get_seed(seed)\n        if self._algo_name in self.__RANDOM_ALGO_NAMES:\n            openturns.RandomGenerator.SetSeed(seed)\n\n        doe_algo = self.__NAMES_TO_CLASSES[self._algo_name]()\n", "expect": "14.1", "note": "OpenTURNS DOE library only reseeds the OT random generator for a list of 'random"},
    {"name": "seeded-C14-11", "file": "algos/parameter_space.py", "old": "        data_sizes = self.variable_sizes\n        x_u_geom = super().unnormalize_vect(\n            x_vect, minus_lb=minus_lb, no_check=no_check\n        )\n        x_u = self.evaluate_cdf(\n            split_array_to_dict_of_arrays(x_vect, data_sizes, data_names), inverse=True\n        )\n        x_u_geom = split_array_to_dict_of_arrays(x_u_geom, data_sizes, data_names)\n        missing_names = [name for name in self if name not in x_u]\n        for name in missing_names:\n            x_u[name] = x_u_geom[name]\n\n        return concatenate_dict_of_arrays_to_array(x_u, data_names)\n\n", "new": "        data_sizes = self.variable_sizes\n        x_u = self.evaluate_cdf(\n            split_array_to_dict_of_arrays(x_vect, data_sizes, data_names), inverse=True\n        )\n        deterministic_names = self.deterministic_variables\n        if deterministic_names:\n            # The geometric unnormalization is only required\n            # for the deterministic variables.\n            x_u_geom = split_array_to_dict_of_arrays(\n                super().unnormalize_vect(x_vect, minus_lb=minus_lb, no_check=no_check),\n                data_sizes,\n                data_names,\n            )\n            x_u.update({name: x_u_geom[name] for name in deterministic_names})\n\n        return concatenate_dict_of_arrays_to_array(x_u, x_u.keys())\n\n", "expect": "14.11", "note": "ParameterSpace.untransform_vect returns the uncertain variables first, then the "},
    {"name": "seeded-C14-10", "file": "algos/doe/openturns/_algos/ot_full_factorial_doe.py", "old": "from numpy import full\nfrom openturns import Box\n\nfrom gemseo.algos.doe.base_full_factorial_doe import BaseFullFactorialDOE\n\nif TYPE_CHECKING:\n    from collections.abc import Iterable\n\n    from gemseo.typing import RealArray\n\n\nclass OTFullFactorialDOE(BaseFullFactorialDOE):\n    \"\"\"The full-factorial DOE.\n\n    .. note:: This class is a singleton.\n    \"\"\"\n\n    def _generate_fullfact_from_levels(self, levels: Iterable[int]) -> RealArray:\n        # This method relies on openturns.Box.\n        # This latter assumes that the levels provided correspond to the intermediate\n        # levels between lower and upper bounds, while GEMSEO includes these bounds\n        # in the definition of the levels, so we subtract 2 in order to get\n        # only intermediate levels.\n        levels = [level - 2 for level in levels]\n\n        # If any level is negative, we take them out, generate the DOE,\n        # then append the DOE with 0.5 for the missing levels.\n        ot_indices = []\n        ot_levels = []\n        for ot_index, ot_level in enumerate(levels):\n            if ot_level >= 0:\n                ot_levels.append(ot_level)\n                ot_indices.append(ot_index)\n\n        if not ot_levels:\n            return full([1, len(levels)], 0.5)\n\n        ot_doe = array(Box(ot_levels).generate())\n\n        if len(ot_levels) == len(levels):\n            return ot_doe\n\n        doe = full([ot_doe.shape[0], len(levels)], 0.5)\n        doe[:, ot_indices] = ot_doe\n        return doe\n", "new": "from numpy import full\nfrom numpy import hstack\nfrom openturns import Box\n\nfrom gemseo.algos.doe.base_full_factorial_doe import BaseFullFactorialDOE\n\nif TYPE_CHECKING:\n    from collections.abc import Iterable\n\n    from gemseo.typing import RealArray\n\n\nclass OTFullFactorialDOE(BaseFullFactorialDOE):\n    \"\"\"The full-factorial DOE.\n\n    .. note:: This class is a singleton.\n    \"\"\"\n\n    def _generate_fullfact_from_levels(self, levels: Iterable[int]) -> RealArray:\n        # This method relies on openturns.Box.\n        # This latter assumes that the levels provided correspond to the intermediate\n        # levels between lower and upper bounds, while GEMSEO includes these bounds\n        # in the definition of the levels, so we subtract 2 in order to get\n        # only intermediate levels.\n        levels = [level - 2 for level in levels]\n\n        # If any level is negative, we take them out, generate the DOE,\n        # then append the DOE with 0.5 for the missing levels.\n        ot_levels = [ot_level for ot_level in levels if ot_level >= 0]\n        if not ot_levels:\n            return full([1, len(levels)], 0.5)\n\n        ot_doe = array(Box(ot_levels).generate())\n        n_missing_levels = len(levels) - len(ot_levels)\n        if not n_missing_levels:\n            return ot_doe\n\n        return hstack((ot_doe, full([ot_doe.shape[0], n_missing_levels], 0.5)))\n", "expect": "14.10", "note": "OT_FULLFACT appends the single-level (0.5) columns at the end instead of putting"},
    {"name": "seeded-C14-9", "file": "algos/design_space.py", "old": "        if minus_lb and not self.__no_integer:\n            self.round_vect(out, copy=False)\n            if recast_to_int:\n                out = out.astype(self.__INT_DTYPE)\n\n", "new": "        if minus_lb and not self.__no_integer:\n            if recast_to_int:\n                out = out.astype(self.__INT_DTYPE)\n            else:\n                self.round_vect(out, copy=False)\n\n", "expect": "14.9", "note": "unnormalize_vect casts to int instead of rounding when the design space has an i"},
    {"name": "sobol-sub-sample-size-rounded", "file": _OTS, "old": "            sub_sample_size = int(n_samples / (dimension + 2))", "new": "            sub_sample_size = round(n_samples / (dimension + 2))", "expect": "14.6"},
    {"name": "composite-centre-point-forgotten", "file": "algos/doe/openturns/_algos/ot_composite_doe.py", "old": "n_levels = int((n_samples - 1) / (2 * dimension + 2**dimension))", "new": "n_levels = int(n_samples / (2 * dimension + 2**dimension))", "expect": "14.5"},
    {"name": "axial-levels-per-direction", "file": "algos/doe/openturns/_algos/ot_axial_doe.py", "old": "n_levels = int((n_samples - 1) / 2 / dimension)", "new": "n_levels = int((n_samples - 1) / dimension)", "expect": "14.5"},
    {"name": "scipy-raw-seed", "file": _SC, "old": "            seed=self._seeder.get_seed(settings[self._SEED]),", "new": "            seed=settings[self._SEED],", "expect": "14.1"},
    {"name": "pydoe-unseeded-randomstate", "file": _PY, "old": "            settings[\"random_state\"] = RandomState(\n                self._seeder.get_seed(settings[\"random_state\"])\n            )", "new": "            settings[\"random_state\"] = RandomState()", "expect": "14.1"},
    {"name": "openturns-fixed-seed", "file": _OT, "old": "openturns.RandomGenerator.SetSeed(self._seeder.get_seed(seed))", "new": "openturns.RandomGenerator.SetSeed(self.seed)", "expect": "14.1"},
    {"name": "seeder-ignores-user-seed", "file": SEED, "old": "        return self.default_seed if seed is None else seed", "new": "        return self.default_seed", "expect": "14.1"},
    {"name": "seeder-polarity", "file": SEED, "old": "        return self.default_seed if seed is None else seed", "new": "        return seed if seed is None else self.default_seed", "expect": "14.1"},
    {"name": "global-numpy-random", "file": "algos/doe/diagonal_doe/diagonal_doe.py", "old": "from numpy import ", "new": "from numpy.random import rand as _rand\n_NOISE = _rand(1)\nfrom numpy import ", "first": True, "expect": "14.1"},
    {"name": "reset-before-mapping", "file": DOE, "old": "        self.samples = self.__convert_unit_samples_to_samples(problem)\n        self.__reset_integer_variables_normalization(\n            design_space, integer_normalization_enabled\n        )\n", "new": "        self.__reset_integer_variables_normalization(\n            design_space, integer_normalization_enabled\n        )\n        self.samples = self.__convert_unit_samples_to_samples(problem)\n", "expect": "14.2"},
    {"name": "reset-with-constant", "file": DOE, "old": "            self.__reset_integer_variables_normalization(\n                design_space, integer_normalization_enabled\n            )\n\n        return samples", "new": "            self.__reset_integer_variables_normalization(design_space, True)\n\n        return samples", "expect": "14.2"},
    {"name": "never-reset", "file": DOE, "old": "        self.__reset_integer_variables_normalization(\n            design_space, integer_normalization_enabled\n        )\n        self._init_iter_observer", "new": "        self._init_iter_observer", "expect": "14.2"},
    {"name": "enable-returns-current-state", "file": DOE, "old": "        enabled = not design_space.enable_integer_variables_normalization", "new": "        enabled = design_space.enable_integer_variables_normalization", "expect": "14.2"},
    {"name": "compute_doe-returns-unit-samples", "file": DOE, "old": "            self.__reset_integer_variables_normalization(\n                design_space, integer_normalization_enabled\n            )\n\n        return samples", "new": "            self.__reset_integer_variables_normalization(\n                design_space, integer_normalization_enabled\n            )\n\n        return unit_samples", "expect": "14.3"},
    {"name": "unit-sampling-inverted", "file": DOE, "old": "        if unit_sampling:\n            return unit_samples", "new": "        if not unit_sampling:\n            return unit_samples", "expect": "14.3"},
    {"name": "check-bounds-after-generation", "file": DOE, "edits": [{"file": DOE, "old": "        self.__check_unnormalization_capability(design_space)\n\n        # Filter settings", "new": "        # Filter settings"}, {"file": DOE, "old": "        self.unit_samples = self._generate_unit_samples(design_space, **settings)\n", "new": "        self.unit_samples = self._generate_unit_samples(design_space, **settings)\n        self.__check_unnormalization_capability(design_space)\n"}], "expect": "14.3"},
    {"name": "convert-other-samples", "file": DOE, "old": "        samples = design_space.untransform_vect(self.unit_samples, no_check=True)", "new": "        samples = design_space.untransform_vect(self.unit_samples[::-1], no_check=True)", "expect": "14.3"},
    {"name": "budget-off-by-one", "file": DOE, "old": "self._init_iter_observer(problem, len(self.unit_samples))", "new": "self._init_iter_observer(problem, len(self.unit_samples) - 1)", "expect": "14.4"},
]
TWINS = [
    {"name": "axial-quotient-rewritten", "file": "algos/doe/openturns/_algos/ot_axial_doe.py", "old": "n_levels = int((n_samples - 1) / 2 / dimension)", "new": "n_levels = (n_samples - 1) // (2 * dimension)"},
    {"name": "seeder-mirrored", "file": SEED, "old": "        return self.default_seed if seed is None else seed", "new": "        return seed if seed is not None else self.default_seed"},
    {"name": "budget-from-samples", "file": DOE, "old": "self._init_iter_observer(problem, len(self.unit_samples))", "new": "self._init_iter_observer(problem, len(self.samples))"},
]
