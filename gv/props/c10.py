"""C10 -- function algebra: operand purity, Jacobian shapes, value/derivative operator agreement."""

from __future__ import annotations

import ast

from gv import rules
from gv.astutil import FUNC_TYPES
from gv.astutil import AnalysisError
from gv.astutil import compare_parts
from gv.astutil import dotted
from gv.astutil import last_attr
from gv.astutil import names_in
from gv.astutil import norm_stmt
from gv.astutil import stmts_of
from gv.astutil import walk_body
from gv.cfg import cfg_of
from gv.props import describe
from gv.props.shared import branch_conditions
from gv.purity import impure_writes
from gv.report import Ctx
from gv.report import cname
from gv.shapes import ShapeAnalysis
from gv.shapes import arr
from gv.shapes import one
from gv.shapes import single

OPS = "core/mdo_functions/_operations.py"
LCF = "core/mdo_functions/linear_composite_function.py"
FRS = "core/mdo_functions/function_restriction.py"
AGG = "algos/aggregation/core.py"

describe(
    "C10",
    explanation=(
        "Exactness 'for every x' of the composed functions is NOT decided (that would need symbolic "
        "differentiation). Decided: no function of core/mdo_functions, algos/aggregation and "
        "disciplines/constraint_aggregation.py writes in place through a name that may still alias an array "
        "parameter (flow-sensitive may-alias analysis); the Jacobian code of the operator makers, of the "
        "linear composition and of the restriction is axis-kind sound with the output dimension m and the "
        "input dimension n both symbolic and different, and returns an m x n array; value code and derivative "
        "code of each maker are keyed by the same operator flag and pair each operand's Jacobian with the other "
        "operand's value."
    ),
    decided=["10.1 operands are not modified", "10.2 Jacobian shapes for every output dimension", "10.3 value/derivative operator agreement"],
    not_decided=["exactness for every x of Taylor / convex-linear / KS / IKS formulas", "side of the KS bounds"],
)

SCOPE_PREFIXES = ("core/mdo_functions/", "algos/aggregation/")
SCOPE_FILES = ("disciplines/constraint_aggregation.py",)


def check_purity(ctx: Ctx) -> None:
    n_funcs = n_sites = 0
    for rel, mod in sorted(ctx.index.modules.items()):
        if not (rel.startswith(SCOPE_PREFIXES) or rel in SCOPE_FILES):
            continue

        def visit(node, owner):
            nonlocal n_funcs, n_sites
            for ch in ast.iter_child_nodes(node):
                if isinstance(ch, ast.ClassDef):
                    visit(ch, ch.name)
                elif isinstance(ch, FUNC_TYPES):
                    res, sites = impure_writes(ch, track_state=True)
                    n_funcs += 1
                    n_sites += sites
                    con = cname(rel, owner, ch.name)
                    bad = {id(n) for n, _, _ in res}
                    for node_, p, what in res:
                        ctx.ob("10.1-purity", con, False, f"{ch.name}: {what}: evaluating the function changes its operand (a second evaluation, or the operand's own value, is then wrong)", node=node_, stmt=f"{norm_stmt(node_, 70)} [{p}]")
                    if sites and not res:
                        ctx.ob("10.1-purity", con, True, "no in-place write reaches a parameter", stmt=f"{sites} in-place site(s) examined", node=ch)
                    visit(ch, owner)

        visit(mod.tree, None)
    ctx.counts["10.1-functions"] = n_funcs
    ctx.counts["10.1-sites"] = n_sites
    ctx.extra["purity_functions_analysed"] = n_funcs
    ctx.extra["purity_inplace_sites_examined"] = n_sites
    ctx.need(n_funcs >= 150 and n_sites >= 20, f"purity scan covered only {n_funcs} functions / {n_sites} in-place sites")
    # positive control: the rule must fire on the known bad shape
    ctl = ast.parse("def f(orig_val: ndarray, indices=None, scale=1.0):\n    if indices is not None:\n        orig_val = orig_val[indices]\n    orig_val *= scale\n    return orig_val.sum()\n").body[0]
    res, _ = impure_writes(ctl)
    ctx.need(len(res) == 1, "purity rule self-check failed (positive control not detected)")
    ctl2 = ast.parse("def f(orig_val: ndarray, indices: Sequence[int], scale=1.0):\n    orig_val = orig_val[indices]\n    orig_val *= scale\n    return orig_val.sum()\n").body[0]
    res, _ = impure_writes(ctl2)
    ctx.need(not res, "purity rule self-check failed (fancy-indexed copy reported)")


def _maker_hooks():
    def extra_call(sa, e, env):
        name = last_attr(e)
        if name in ("_jac", "jac") and isinstance(e.func, ast.Attribute):
            return arr("m", "n")
        if name in ("func", "evaluate") and isinstance(e.func, ast.Attribute):
            return arr("m")
        if name == "_operator" and len(e.args) == 2:
            return sa._binop(e, sa.evaluate(e.args[0], env), sa.evaluate(e.args[1], env), ast.Mult())
        if name == "isinstance":
            return one(("scalar",))
        return None

    def attr_hook(sa, e, env):
        if dotted(e) == "self._second_operand":
            # a plain number on the branch ``not isinstance(self._second_operand, ndarray)``
            cfg = sa.cfg
            if cfg.has(e):
                for t, v in branch_conditions(cfg, cfg.node_of(e)):
                    if cfg.kind[t] != "test":
                        continue
                    txt = norm_stmt(cfg.ast[t].test)
                    if (txt == "not isinstance(self._second_operand, ndarray)" and v) or (txt == "isinstance(self._second_operand, ndarray)" and not v):
                        return one(("scalar",))
            return arr("m")
        return None

    return extra_call, attr_hook


def _report_shapes(ctx: Ctx, rule: str, con: str, f, sa: ShapeAnalysis, want) -> None:
    bad: dict[int, list[str]] = {}
    for node, msg in sa.problems:
        st = node if isinstance(node, ast.stmt) else rules.enclosing_stmt(f, node)
        bad.setdefault(id(st), []).append(msg)
    seen = set()
    for (nid, what), (node, _) in sorted(sa.sites.items(), key=lambda kv: getattr(kv[1][0], "lineno", 0)):
        st = node if isinstance(node, ast.stmt) else rules.enclosing_stmt(f, node)
        if id(st) in seen:
            continue
        seen.add(id(st))
        msgs = bad.get(id(st), [])
        ctx.ob(rule, con, not msgs, "; ".join(msgs) + ": the Jacobian is only right when the number of outputs equals the number of inputs (or is 1)" if msgs else "kind-sound", node=st)
    for sid, msgs in bad.items():
        if sid not in seen:
            st = next(n for n, _ in sa.problems if id(n if isinstance(n, ast.stmt) else rules.enclosing_stmt(f, n)) == sid)
            ctx.ob(rule, con, False, "; ".join(msgs), node=st if isinstance(st, ast.stmt) else rules.enclosing_stmt(f, st))
    for r in [s for s in stmts_of(f) if isinstance(s, ast.Return) and s.value is not None]:
        v = sa.value(r.value)
        ok = v == want or v is None
        # a return whose kinds are unknown does not count as checked
        if v is not None:
            ctx.ob(rule + "-result", con, ok, f"the Jacobian returned has axes {v}; it must be outputs x inputs {want}", node=r, slots={"kinds": str(v)})


def check_shapes(ctx: Ctx) -> None:
    extra_call, attr_hook = _maker_hooks()
    for cls in ("_AdditionFunctionMaker", "_MultiplicationFunctionMaker"):
        f = ctx.index.method(OPS, cls, "_compute_operation_jacobian")
        sa = ShapeAnalysis(f, {}, extra_call=extra_call, attr_hook=attr_hook)
        _report_shapes(ctx, "10.2-kinds", cname(OPS, cls, "_compute_operation_jacobian"), f, sa, ("arr", ("m", "n")))
    # a scalar function (1-D gradient, GEMSEO's convention) combined with a vector function, both ways round
    from gv.cfg import cfg_of as _cfg_of
    from gv.shapes import specialise as _spec

    f = ctx.index.method(OPS, "_MultiplicationFunctionMaker", "_compute_operation_jacobian")
    con = cname(OPS, "_MultiplicationFunctionMaker", "_compute_operation_jacobian")
    for first_scalar in (True, False):

        def mixed_call(sa, e, env, _fs=first_scalar):
            name = last_attr(e)
            if isinstance(e.func, ast.Attribute):
                recv = dotted(e.func.value) or ""
                if "_operand" in recv:
                    sc = ("_first_operand" in recv) == _fs
                    if name in ("_jac", "jac"):
                        return arr("n") if sc else arr("m", "n")
                    if name in ("func", "evaluate"):
                        return one(("scalar",)) if sc else arr("m")
            return extra_call(sa, e, env)

        g = _spec(f, {"self._second_operand_is_number": False})
        # the branch taken when exactly one of the two Jacobians is 1-D
        for n_ in ast.walk(g):
            if isinstance(n_, ast.If) and "ndim" in norm_stmt(n_.test) and isinstance(n_.test, ast.Compare):
                n_.test = ast.copy_location(ast.Constant(value=isinstance(n_.test.ops[0], ast.NotEq)), n_.test)
        sa = ShapeAnalysis(g, {}, extra_call=mixed_call, attr_hook=attr_hook)
        cg = _cfg_of(g)
        label = "scalar x vector" if first_scalar else "vector x scalar"
        msgs = sorted({m_ for _, m_ in sa.problems})
        ctx.ob("10.2-kinds-mixed", con, not msgs, f"{label}: " + "; ".join(msgs) + ": the 1-D gradient of the scalar operand is paired with the output axis of the other operand", node=f, stmt=f"{label}: kind-sound")
        for r in [s_ for s_ in ast.walk(g) if isinstance(s_, ast.Return) and s_.value is not None and cg.has(s_)]:
            v = sa.value(r.value)
            if v is not None:
                ctx.ob("10.2-kinds-mixed", con, v == ("arr", ("m", "n")), f"{label}: the Jacobian returned has axes {v}; it must be outputs x inputs", node=r, stmt=f"{label}: result is outputs x inputs `{norm_stmt(r.value, 50)}`")
    ctx.floor("10.2-kinds-mixed", 4)
    # linear composition f o A: A is p x q, f: R^p -> R^m
    f = ctx.index.method(LCF, "LinearCompositeFunction", "_restricted_jac")

    def lc_call(sa, e, env):
        name = last_attr(e)
        if name in ("jac", "_jac") and isinstance(e.func, ast.Attribute) and "_function" in (dotted(e.func.value) or ""):
            return arr("m", "p")
        return None

    def lc_attr(sa, e, env):
        if dotted(e) == "self._matrix":
            return arr("p", "q")
        return None

    sa = ShapeAnalysis(f, {f.args.args[1].arg: arr("q")}, extra_call=lc_call, attr_hook=lc_attr)
    _report_shapes(ctx, "10.2-kinds", cname(LCF, "LinearCompositeFunction", "_restricted_jac"), f, sa, ("arr", ("m", "q")))
    g = ctx.index.method(LCF, "LinearCompositeFunction", "_restricted_function")
    sa = ShapeAnalysis(g, {g.args.args[1].arg: arr("q")}, extra_call=lambda sa, e, env: arr("m") if last_attr(e) in ("evaluate", "func") else None, attr_hook=lc_attr)
    _report_shapes(ctx, "10.2-kinds", cname(LCF, "LinearCompositeFunction", "_restricted_function"), g, sa, ("arr", ("m",)))
    # the point at which f is differentiated is the point at which it is evaluated
    pts = [norm_stmt(c.args[0]) for fn in (f, g) for c in walk_body(fn) if isinstance(c, ast.Call) and last_attr(c) in ("jac", "_jac", "evaluate", "func") and c.args]
    ctx.ob("10.3-same-point", cname(LCF, "LinearCompositeFunction", "_restricted_jac"), len(pts) == 2 and pts[0] == pts[1], f"value and Jacobian of the composed function must evaluate f at the same point A.x; found {pts}", node=f, stmt="f evaluated and differentiated at A.x")
    # restriction: columns of the active inputs
    h = ctx.index.method(FRS, "FunctionRestriction", "_jac_to_wrap")

    def fr_attr(sa, e, env):
        if dotted(e) == "self._active_indexes":
            return one(("idxarr", ("a",), "n"))
        return None

    sa = ShapeAnalysis(h, {}, extra_call=lambda sa, e, env: arr("m", "n") if last_attr(e) in ("jac", "_jac") else None, attr_hook=fr_attr)
    _report_shapes(ctx, "10.2-kinds", cname(FRS, "FunctionRestriction", "_jac_to_wrap"), h, sa, ("arr", ("m", "a")))
    ctx.floor("10.2-kinds", 6)
    ctx.floor("10.2-kinds-result", 5)


def check_operator_agreement(ctx: Ctx) -> None:
    # addition
    init = ctx.index.method(OPS, "_AdditionFunctionMaker", "__init__")
    con = cname(OPS, "_AdditionFunctionMaker", "__init__")
    sup = rules.super_calls(init, "__init__")
    ctx.need(len(sup) == 1 and len(sup[0].args) >= 5, "_AdditionFunctionMaker.__init__: super().__init__(cls, a, b, operator, repr) not found")
    op, rep = sup[0].args[3], sup[0].args[4]
    ok = isinstance(op, ast.IfExp) and isinstance(rep, ast.IfExp) and norm_stmt(op.test) == norm_stmt(rep.test) == "inverse" and dotted(op.body) == "_subtract" and dotted(op.orelse) == "_add" and rep.body.value == "-" and rep.orelse.value == "+"
    ctx.ob("10.3-flag", con, ok, "the value operator and its representation must be selected by the same flag: inverse -> (_subtract, '-'), otherwise (_add, '+')", node=sup[0])
    mod = ctx.index.module(OPS)
    for name, want in (("_add", ast.Add), ("_subtract", ast.Sub)):
        fn = mod.functions.get(name)
        good = ("operator.add", "numpy.add") if want is ast.Add else ("operator.sub", "numpy.subtract")
        if fn is not None:
            ok = any(isinstance(r, ast.Return) and isinstance(r.value, ast.BinOp) and isinstance(r.value.op, want) and [dotted(r.value.left), dotted(r.value.right)] == [a.arg for a in fn.args.args[:2]] for r in ast.walk(fn))
        else:
            ok = mod.imports.get(name) in good or dotted(mod.assigns.get(name)) in good
        ctx.ob("10.3-flag", cname(OPS, None, name), bool(ok), f"{name} must compute first {'+' if want is ast.Add else '-'} second (found {mod.imports.get(name)})", node=fn or sup[0], stmt=f"{name} definition")
    j = ctx.index.method(OPS, "_AdditionFunctionMaker", "_compute_operation_jacobian")
    conj = cname(OPS, "_AdditionFunctionMaker", "_compute_operation_jacobian")
    cfg = cfg_of(j)
    for r in [s for s in stmts_of(j) if isinstance(s, ast.Return)]:
        v = r.value
        lits = [(norm_stmt(cfg.ast[t].test), val) for t, val in branch_conditions(cfg, cfg.node_of(r)) if cfg.kind[t] == "test"]
        if isinstance(v, ast.BinOp):
            plus = any((txt == "self._operator_repr == '+'" and val) or (txt == "self._operator_repr == '-'" and not val) for txt, val in lits)
            minus = any((txt == "self._operator_repr == '+'" and not val) or (txt == "self._operator_repr == '-'" and val) for txt, val in lits)
            ok = (isinstance(v.op, ast.Add) and plus and not minus) or (isinstance(v.op, ast.Sub) and minus and not plus)
            ok = ok and "_first_operand" in norm_stmt(v.left) and "_second_operand" in norm_stmt(v.right)
            ctx.ob("10.3-derivative", conj, ok, "the derivative of f + g is f' + g' and of f - g is f' - g' (first operand first): the branch must match the operator representation", node=r)
        else:
            ok = any(txt == "self._second_operand_is_number" and val for txt, val in lits) and "_first_operand" in norm_stmt(v)
            ctx.ob("10.3-derivative", conj, ok, "adding a constant leaves the Jacobian of the function unchanged", node=r)
    # multiplication
    init = ctx.index.method(OPS, "_MultiplicationFunctionMaker", "__init__")
    sup = rules.super_calls(init, "__init__")
    ctx.need(len(sup) == 1 and len(sup[0].args) >= 5, "_MultiplicationFunctionMaker.__init__: super().__init__ not found")
    op, rep = sup[0].args[3], sup[0].args[4]
    ok = isinstance(op, ast.IfExp) and isinstance(rep, ast.IfExp) and norm_stmt(op.test) == norm_stmt(rep.test) == "inverse" and dotted(op.body).endswith("divide") and dotted(op.orelse).endswith("multiply") and rep.body.value == "/" and rep.orelse.value == "*"
    ctx.ob("10.3-flag", cname(OPS, "_MultiplicationFunctionMaker", "__init__"), ok, "inverse -> (divide, '/'), otherwise (multiply, '*')", node=sup[0])
    j = ctx.index.method(OPS, "_MultiplicationFunctionMaker", "_compute_operation_jacobian")
    conj = cname(OPS, "_MultiplicationFunctionMaker", "_compute_operation_jacobian")
    cfg = cfg_of(j)
    # local roles
    role = {}
    for s in stmts_of(j):
        if isinstance(s, ast.Assign) and isinstance(s.targets[0], ast.Name):
            txt = norm_stmt(s.value, 200)
            who = "1" if "_first_operand" in txt else ("2" if "_second_operand" in txt else None)
            what = "J" if "._jac(" in txt or ".jac(" in txt else ("F" if ".func(" in txt or ".evaluate(" in txt else None)
            if who and what:
                role[s.targets[0].id] = what + who
            elif isinstance(s.value, ast.Call) and last_attr(s.value) == "transpose" and dotted(s.value.args[0]) in role:
                role[s.targets[0].id] = role[dotted(s.value.args[0])]
            elif isinstance(s.value, ast.Attribute) and s.value.attr == "T" and dotted(s.value.value) in role:
                role[s.targets[0].id] = role[dotted(s.value.value)]

    def terms(e):
        """[(sign, frozenset(roles))] of a sum of products."""
        if isinstance(e, ast.Attribute) and e.attr == "T":
            return terms(e.value)
        if isinstance(e, ast.BinOp) and isinstance(e.op, (ast.Add, ast.Sub)):
            r = terms(e.right)
            return terms(e.left) + [(-s if isinstance(e.op, ast.Sub) else s, t) for s, t in r]
        if isinstance(e, ast.BinOp) and isinstance(e.op, ast.Mult):
            names = frozenset(role.get(n, n) for n in names_in(e))
            return [(1, names)]
        return [(1, frozenset({norm_stmt(e)}))]

    rets = [s for s in stmts_of(j) if isinstance(s, ast.Return)]
    prod = quot = None
    for r in rets:
        lits = [(norm_stmt(cfg.ast[t].test), val) for t, val in branch_conditions(cfg, cfg.node_of(r)) if cfg.kind[t] == "test"]
        is_mul = any(("multiply" in txt and "_operator ==" in txt and val) for txt, val in lits)
        is_div = any(("multiply" in txt and "_operator ==" in txt and not val) for txt, val in lits)
        number = any(txt == "self._second_operand_is_number" and val for txt, val in lits)
        if number:
            ok = isinstance(r.value, ast.Call) and last_attr(r.value) == "_operator" and role.get(dotted(r.value.args[0])) == "J1"
            ctx.ob("10.3-derivative", conj, ok, "multiplying/dividing by a constant applies the same operator to the Jacobian of the function", node=r)
        elif is_mul:
            prod = r
        elif is_div:
            quot = r
    ctx.need(prod is not None and quot is not None, "_MultiplicationFunctionMaker: product/quotient returns not identified")
    from collections import Counter

    t = list(terms(prod.value))
    ok = Counter(t) == Counter([(1, frozenset({"J1", "F2"})), (1, frozenset({"J2", "F1"}))])
    ctx.ob("10.3-derivative", conj, ok, "product rule: (f g)' = f' g + g' f (each operand's Jacobian paired with the other operand's value, both added)", node=prod, slots={"terms": sorted(f"{s:+d}{sorted(x)}" for s, x in t)})
    qv = quot.value
    while isinstance(qv, ast.Attribute) and qv.attr == "T":
        qv = qv.value
    ok = isinstance(qv, ast.BinOp) and isinstance(qv.op, ast.Div)
    if ok:
        num = Counter(terms(qv.left))
        den = qv.right
        ok = num == Counter([(1, frozenset({"J1", "F2"})), (-1, frozenset({"J2", "F1"}))]) and isinstance(den, ast.BinOp) and isinstance(den.op, ast.Pow) and role.get(dotted(den.left)) == "F2" and getattr(den.right, "value", None) == 2
    ctx.ob("10.3-derivative", conj, ok, "quotient rule: (f / g)' = (f' g - g' f) / g**2", node=quot)
    # value code applies the stored operator to (first, second) in this order
    v = ctx.index.method(OPS, "_OperationFunctionMaker", "_compute_operation")
    rets = [s for s in stmts_of(v) if isinstance(s, ast.Return)]
    ok = len(rets) == 1 and isinstance(rets[0].value, ast.Call) and last_attr(rets[0].value) == "_operator" and "_first_operand" in norm_stmt(rets[0].value.args[0]) and "second_operand" in norm_stmt(rets[0].value.args[1])
    ctx.ob("10.3-value", cname(OPS, "_OperationFunctionMaker", "_compute_operation"), ok, "the value is operator(first(x), second(x) or the constant), in this order", node=(rets or [v])[0])


# value function -> its derivative siblings (algos/aggregation/core.py, confirmed by reading)
AGG_PAIRS = {
    "compute_upper_bound_ks_agg": ("compute_total_ks_agg_jac", "compute_partial_ks_agg_jac"),
    "compute_iks_agg": ("compute_total_iks_agg_jac", "compute_partial_iks_agg_jac"),
    "compute_max_agg": ("compute_max_agg_jac",),
    "compute_sum_square_agg": ("compute_total_sum_square_agg_jac", "compute_partial_sum_square_agg_jac"),
    "compute_sum_positive_square_agg": ("compute_total_sum_square_positive_agg_jac", "compute_partial_sum_positive_square_agg_jac"),
}


def check_aggregation(ctx: Ctx) -> None:
    from gv.cfg import cfg_of
    from gv.shapes import specialise

    mod = ctx.index.module(AGG)
    # 10.2: axis kinds with one factor per constraint (``scale: float | ndarray``) and with a number
    n = 0
    for name, f in sorted(mod.functions.items()):
        params = [a.arg for a in f.args.args]
        if "orig_val" not in params or "scale" not in params:
            continue
        con = cname(AGG, None, name)
        for label, sc in (("one factor per constraint", arr("m")), ("a number", one(("scalar",)))):
            g = specialise(f, {"indices is not None": False})
            init = {"orig_val": arr("m"), "scale": sc}
            if "orig_jac" in params:
                init["orig_jac"] = arr("m", "n")
            sa = ShapeAnalysis(g, init)
            n += 1
            msgs = sorted({m for _, m in sa.problems})
            node = sa.problems[0][0] if sa.problems else f
            ctx.ob("10.2-aggregation", con, not msgs, "; ".join(msgs) + f" (scale is {label}): each constraint's row must be multiplied by that constraint's factor", node=f, stmt=f"{name} is kind-sound when scale is {label}" + (f": `{norm_stmt(node, 60)}`" if msgs else ""))
    ctx.floor("10.2-aggregation", 28)
    # 10.4: the derivative is taken of the value actually computed: same pre-scaling of the constraint values
    for vname, jnames in AGG_PAIRS.items():
        v = mod.functions.get(vname)
        if v is None:
            raise AnalysisError(f"aggregation function {vname} not found")

        def prescale(fn):
            out = [s for s in stmts_of(fn) if isinstance(s, ast.Assign) and norm_stmt(s.targets[0]) == "orig_val" and isinstance(s.value, ast.BinOp) and isinstance(s.value.op, ast.Mult) and {norm_stmt(s.value.left), norm_stmt(s.value.right)} == {"orig_val", "scale"}]
            out += [s for s in stmts_of(fn) if isinstance(s, ast.AugAssign) and isinstance(s.op, ast.Mult) and norm_stmt(s.target) == "orig_val" and norm_stmt(s.value) == "scale"]
            return out

        v_pre = prescale(v)
        uses_scale = any(isinstance(x, ast.Name) and x.id == "scale" and isinstance(x.ctx, ast.Load) for x in walk_body(v))
        ctx.ob("10.4-scaling", cname(AGG, None, vname), uses_scale, f"{vname} takes a scale and never uses it", node=v, stmt=f"{vname} uses scale")
        for jn in jnames:
            j = mod.functions.get(jn)
            con = cname(AGG, None, jn)
            if j is None:
                ctx.ob("10.4-scaling", con, False, f"the derivative {jn} of {vname} is missing", node=v, stmt=f"{jn} defined")
                continue
            j_pre = prescale(j)
            ok = bool(v_pre) == bool(j_pre)
            if ok and j_pre:
                # the scaled values are what every later expression reads
                cfg = cfg_of(j)
                pre = cfg.node_of(j_pre[0])
                for st in stmts_of(j):
                    if st is j_pre[0] or not cfg.has(st) or isinstance(st, (ast.If, ast.For, ast.While)):
                        continue
                    loads = [x for x in ast.walk(st) if isinstance(x, ast.Name) and x.id == "orig_val" and isinstance(x.ctx, ast.Load)]
                    rebind = isinstance(st, ast.Assign) and norm_stmt(st.targets[0]) == "orig_val"
                    if loads and not rebind and not cfg.dominates(pre, cfg.node_of(st)):
                        # reading only the size of the unscaled values is harmless
                        size_reads = [a.value for a in ast.walk(st) if isinstance(a, ast.Attribute) and a.attr in ("size", "shape", "ndim")]
                        ok = ok and all(any(x is r for r in size_reads) for x in loads)
            ctx.ob("10.4-scaling", con, ok, f"{vname} {'scales' if v_pre else 'does not scale'} the constraint values before aggregating them, {jn} {'does' if j_pre else 'does not'}: the Jacobian is not the derivative of the value as soon as scale != 1", node=(j_pre or [j])[0], stmt=f"{jn} pre-scales the constraint values like {vname}")
            uses = any(isinstance(x, ast.Name) and x.id == "scale" and isinstance(x.ctx, ast.Load) for st in stmts_of(j) if st not in j_pre for x in ast.walk(st))
            ctx.ob("10.4-scaling", con, uses, f"{jn}: by the chain rule the derivative carries the factor scale once more (d(scale g)/dx = scale dg/dx); it is not applied", node=j, stmt=f"{jn} applies the factor of the chain rule")
    ctx.floor("10.4-scaling", 20)


def check_same_point(ctx: Ctx) -> None:
    """10.3: a function built around another one evaluates the wrapped value and the wrapped Jacobian at the same point.

    For every class of core/mdo_functions and every wrapped function held in an attribute, the (unfolded) argument of
    its .func/.evaluate calls and of its .jac calls are compared, the method's own parameter renamed to one name.
    """
    import re

    from gv.dataflow import SymValues

    n = 0
    for rel, mod in sorted(ctx.index.modules.items()):
        if not rel.startswith("core/mdo_functions/"):
            continue
        for cn, c in sorted(mod.classes.items()):
            pts: dict = {}
            for mn, m in sorted(c.methods.items()):
                if mn == "__init__" or len(m.args.args) < 2:
                    continue
                p = m.args.args[1].arg
                sv = None
                for call in walk_body(m):
                    if isinstance(call, ast.Call) and isinstance(call.func, ast.Attribute) and call.func.attr in ("func", "evaluate", "jac", "_jac", "_func") and call.args:
                        recv = dotted(call.func.value)
                        if not recv or not recv.startswith("self."):
                            continue
                        sv = sv or SymValues(m)
                        kind = "J" if "jac" in call.func.attr else "V"
                        for t in sv.texts(call.args[0]):
                            pts.setdefault(recv, {}).setdefault(kind, {})[re.sub(rf"\b{re.escape(p)}\b", "_x", t)] = call
            for recv, d in sorted(pts.items()):
                if set(d) != {"V", "J"}:
                    continue
                n += 1
                only_j = sorted(set(d["J"]) - set(d["V"]))
                only_v = sorted(set(d["V"]) - set(d["J"]))
                node = d["J"][only_j[0]] if only_j else next(iter(d["J"].values()))
                ctx.ob("10.3-same-point", cname(rel, cn), not only_j and not only_v, f"{recv} is evaluated at {sorted(d['V'])} and differentiated at {sorted(d['J'])}: the Jacobian returned is then not the derivative of the value returned", node=node, stmt=f"{recv}: value and Jacobian at the same point")
    ctx.floor("10.3-same-point", 7)


def run(ctx: Ctx) -> None:
    check_purity(ctx)
    check_same_point(ctx)
    check_shapes(ctx)
    check_operator_agreement(ctx)
    check_aggregation(ctx)
    # the normalised twin of a linear function is a composition (f o unnormalise): its coefficients and offset are
    # those of C01 rule 1.8
    from gv.props import c01
    from gv.props.c12 import _Prefixed

    c01.check_linear_normalize(_Prefixed(ctx, "10.5-normalised-linear/"))


# ---------------------------------------------------------------------------
WITNESSES = [
    {"name": "scalar-gradient-not-promoted", "file": OPS, "old": "        if numpy.ndim(first_jac) != numpy.ndim(second_jac):\n            # A scalar function (1D gradient) combined with a vectorial one.\n            first_jac, second_jac = atleast_2d(first_jac), atleast_2d(second_jac)\n", "new": "", "expect": "10.2"},
    {"name": "ks-scales-in-place", "file": AGG, "old": "    orig_val = orig_val * scale\n", "new": "    orig_val *= scale\n", "nth": 0, "expect": "10.1"},
    {"name": "jac-scaled-in-place", "file": AGG, "old": "    orig_jac = (orig_jac.T * scale).T\n", "new": "    orig_jac *= scale\n", "nth": 0, "expect": "10.1"},
    {"name": "jac-scaled-along-inputs", "file": AGG, "old": "    orig_jac = (orig_jac.T * scale).T\n", "new": "    orig_jac = orig_jac * scale\n", "nth": 1, "expect": "10.2"},
    {"name": "jac-weights-from-unscaled-values", "file": AGG, "old": "    orig_jac = (orig_jac.T * scale).T\n    orig_val = orig_val * scale\n\n    m = max(orig_val)\n    div =", "new": "    orig_jac = (orig_jac.T * scale).T\n\n    m = max(orig_val)\n    div =", "expect": "10.4"},
    {"name": "partial-jac-without-chain-factor", "file": AGG, "old": "    der = atleast_2d(multiply(weights, scale))", "new": "    der = atleast_2d(weights)", "expect": "10.4"},
    {"name": "max-jac-of-unscaled-rows", "file": AGG, "old": "    orig_jac = (orig_jac.T * scale).T\n    orig_val = orig_val * scale\n    i_max", "new": "    orig_val = orig_val * scale\n    i_max", "expect": "10.4"},
    {"name": "linear-normalize-aliases-sparse-coefficients", "file": "core/mdo_functions/mdo_linear_function.py", "old": "            coefficients = deepcopy(self.coefficients)\n", "new": "            coefficients = self.coefficients.tocsr()\n", "expect": "10.1"},
    {"name": "convex-approx-writes-into-operand-jacobian", "file": "core/mdo_functions/convex_linear_approx.py", "old": "        value = atleast_2d(self.__mdo_function.jac(merged_vect)).copy()\n", "new": "        value = atleast_2d(self.__mdo_function.jac(merged_vect))\n", "expect": "10.1"},
    {"name": "item-assignment-into-operand", "file": AGG, "old": "    alpha = len(orig_val)\n", "new": "    alpha = len(orig_val)\n    orig_val[0] = orig_val[0] + 0.0\n", "expect": "10.1"},
    {"name": "in-place-through-view", "file": AGG, "old": "    alpha = len(orig_val)\n", "new": "    alpha = len(orig_val)\n    view = atleast_2d(orig_val)\n    view *= 1.0\n", "expect": "10.1"},
    {"name": "out-argument-is-operand", "file": AGG, "old": "    alpha = len(orig_val)\n", "new": "    alpha = len(orig_val)\n    multiply(orig_val, 1.0, out=orig_val)\n", "expect": "10.1"},
    {"name": "plain-broadcast-product-rule", "file": OPS, "old": "            return (first_jac_t * second_func + second_jac_t * first_func).T", "new": "            return first_jac * second_func + second_jac * first_func", "expect": "10.2"},
    {"name": "tile-without-transpose", "file": OPS, "old": "                tile(self._second_operand, (atleast_2d(first_jac).shape[1], 1)).T,", "new": "                tile(self._second_operand, (atleast_2d(first_jac).shape[1], 1)),", "expect": "10.2"},
    {"name": "linear-composite-transposed", "file": LCF, "old": "return self._function.jac(self._matrix.dot(x_vect)).dot(self._matrix)", "new": "return self._matrix.T.dot(self._function.jac(self._matrix.dot(x_vect)))", "expect": "10.2"},
    {"name": "linear-composite-jac-at-x", "file": LCF, "old": "return self._function.jac(self._matrix.dot(x_vect)).dot(self._matrix)", "new": "return self._function.jac(x_vect).dot(self._matrix)", "expect": "10."},
    {"name": "restriction-selects-rows", "file": FRS, "old": "        return self.__mdo_function.jac(self.__extend_subvect(x_subvect))[\n            ..., self._active_indexes\n        ]", "new": "        return self.__mdo_function.jac(self.__extend_subvect(x_subvect))[\n            self._active_indexes, ...\n        ]", "expect": "10.2"},
    {"name": "subtraction-derivative-added", "file": OPS, "old": "        return self._first_operand._jac(input_value) - self._second_operand._jac(\n            input_value\n        )", "new": "        return self._first_operand._jac(input_value) + self._second_operand._jac(\n            input_value\n        )", "expect": "10.3"},
    {"name": "flags-disagree", "file": OPS, "old": "            _subtract if inverse else _add,\n            \"-\" if inverse else \"+\",", "new": "            _subtract if inverse else _add,\n            \"+\" if inverse else \"-\",", "expect": "10.3"},
    {"name": "product-rule-pairs-own-value", "file": OPS, "old": "            return (first_jac_t * second_func + second_jac_t * first_func).T", "new": "            return (first_jac_t * first_func + second_jac_t * second_func).T", "expect": "10.3"},
    {"name": "quotient-rule-sign", "file": OPS, "old": "            (first_jac_t * second_func - second_jac_t * first_func) / second_func**2", "new": "            (first_jac_t * second_func + second_jac_t * first_func) / second_func**2", "expect": "10.3"},
    {"name": "quotient-rule-denominator", "file": OPS, "old": "            (first_jac_t * second_func - second_jac_t * first_func) / second_func**2", "new": "            (first_jac_t * second_func - second_jac_t * first_func) / second_func", "expect": "10.3"},
    {"name": "number-branch-multiplies-always", "file": OPS, "old": "                return self._operator(first_jac, self._second_operand)", "new": "                return numpy.multiply(first_jac, self._second_operand)", "expect": "10.3"},
    {"name": "value-operands-swapped", "file": OPS, "old": "        return self._operator(self._first_operand.func(input_value), second_operand)", "new": "        return self._operator(second_operand, self._first_operand.func(input_value))", "expect": "10.3"},
]
TWINS = [
    {"name": "jac-scaled-commuted", "file": AGG, "old": "    orig_jac = (orig_jac.T * scale).T\n", "new": "    orig_jac = (scale * orig_jac.T).T\n", "nth": 0},
    {"name": "convex-approx-copies-with-array", "file": "core/mdo_functions/convex_linear_approx.py", "old": "        value = atleast_2d(self.__mdo_function.jac(merged_vect)).copy()\n", "new": "        value = array(self.__mdo_function.jac(merged_vect), ndmin=2)\n"},
    {"name": "fresh-copy-then-in-place", "file": AGG, "old": "    orig_val = orig_val * scale\n", "new": "    orig_val = orig_val.copy()\n    orig_val *= scale\n", "nth": 0},
    {"name": "product-terms-swapped", "file": OPS, "old": "            return (first_jac_t * second_func + second_jac_t * first_func).T", "new": "            return (second_jac_t * first_func + second_func * first_jac_t).T"},
    {"name": "transpose-attribute", "file": OPS, "old": "        first_jac_t = numpy.transpose(first_jac)", "new": "        first_jac_t = first_jac.T"},
]
