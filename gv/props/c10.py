"""C10 -- function algebra: operand purity, Jacobian shapes, value/derivative operator agreement."""

from __future__ import annotations

import ast

from gv import rules
from gv.astutil import FUNC_TYPES
from gv.astutil import AnalysisError
from gv.astutil import compare_parts
from gv.astutil import dotted
from gv.astutil import last_attr
from gv.astutil import names_in
from gv.astutil import norm_stmt
from gv.astutil import stmts_of
from gv.astutil import walk_body
from gv.cfg import cfg_of
from gv.dataflow import SymValues
from gv.props import describe
from gv.props.shared import branch_conditions
from gv.purity import impure_writes
from gv.report import Ctx
from gv.report import cname
from gv.shapes import ShapeAnalysis
from gv.shapes import arr
from gv.shapes import one
from gv.shapes import single

OPS = "core/mdo_functions/_operations.py"
LCF = "core/mdo_functions/linear_composite_function.py"
FRS = "core/mdo_functions/function_restriction.py"
AGG = "algos/aggregation/core.py"

describe(
    "C10",
    explanation=(
        "Exactness 'for every x' of the composed functions is NOT decided (that would need symbolic "
        "differentiation). Decided: no function of core/mdo_functions, algos/aggregation and "
        "disciplines/constraint_aggregation.py writes in place through a name that may still alias an array "
        "parameter (flow-sensitive may-alias analysis); the Jacobian code of the operator makers, of the "
        "linear composition and of the restriction is axis-kind sound with the output dimension m and the "
        "input dimension n both symbolic and different, and returns an m x n array; value code and derivative "
        "code of each maker are keyed by the same operator flag and pair each operand's Jacobian with the other "
        "operand's value."
    ),
    decided=["10.1 operands are not modified", "10.2 Jacobian shapes for every output dimension", "10.3 value/derivative operator agreement", "10.3 value and Jacobian of a wrapped function at the same point (all classes)", "10.5 normalised linear function (rule group of C01)", "10.6 no alias of the evaluation point kept in a function object"],
    not_decided=["exactness for every x of Taylor / convex-linear / KS / IKS formulas", "side of the KS bounds"],
)

SCOPE_PREFIXES = ("core/mdo_functions/", "algos/aggregation/")
SCOPE_FILES = ("disciplines/constraint_aggregation.py",)


def _fresh_result(method: ast.AST, pos: int | None) -> bool:
    """Every ``return`` of ``method`` hands out (as element ``pos`` of the tuple it returns; None: as the value it
    returns) an array that shares its storage with no parameter and no attribute of ``self``: decided by the may-alias
    analysis of rule 10.1 itself, which is asked whether an in-place write on the returned value could reach one."""
    import copy

    m = copy.deepcopy(method)
    probes: list[ast.stmt] = []
    ok = [True]

    class T(ast.NodeTransformer):
        def visit_FunctionDef(self, n):  # noqa: N802
            return n if n is not m else self.generic_visit(n)

        visit_AsyncFunctionDef = visit_FunctionDef  # noqa: N815

        def visit_Lambda(self, n):  # noqa: N802
            return n

        def visit_Return(self, n):  # noqa: N802
            v = n.value
            if pos is not None:
                v = v.elts[pos] if isinstance(v, ast.Tuple) and pos < len(v.elts) and not any(isinstance(x, ast.Starred) for x in v.elts) else None
            if v is None:
                ok[0] = False
                return n
            bind = ast.Assign(targets=[ast.Name(id="_gv_returned", ctx=ast.Store())], value=v)
            probe = ast.AugAssign(target=ast.Name(id="_gv_returned", ctx=ast.Store()), op=ast.Add(), value=ast.Constant(value=0))
            probes.append(probe)
            return [ast.copy_location(x, n) for x in (bind, probe, ast.Return(value=None))]

    T().visit(m)
    ast.fix_missing_locations(m)
    if not ok[0] or not probes or any(isinstance(n, (ast.Yield, ast.YieldFrom)) for n in walk_body(m)):
        return False
    a = m.args
    params = {x.arg for x in [*a.posonlyargs, *a.args, *a.kwonlyargs, *([a.vararg] if a.vararg else []), *([a.kwarg] if a.kwarg else [])] if x.arg not in ("self", "cls")}
    res, _ = impure_writes(m, params, track_state=True)
    ids = {id(p) for p in probes}
    return not any(id(node) in ids for node, _, _ in res)


def _unknown_is_fresh(func: ast.AST, node: ast.AST, methods: dict) -> bool:
    """The written local of the in-place statement ``node``, of which the alias analysis knows nothing because it comes
    out of a call (``a, b = self.m(...)``: unpacked), is in fact a fresh array: EVERY binding of that local in ``func``
    is such a call of a method of the same class whose returned element is fresh (:func:`_fresh_result`), or an
    in-place update of the local itself.  Anything else (a loop target, an inherited method, a function) is not."""
    if isinstance(node, ast.AugAssign) and isinstance(node.target, ast.Name):
        name = node.target.id
    else:
        return False
    bound = 0
    n_stores = sum(1 for x in ast.walk(func) if isinstance(x, ast.Name) and isinstance(x.ctx, (ast.Store, ast.Del)) and x.id == name)
    if name in {a.arg for a in ast.walk(func) if isinstance(a, ast.arg)}:
        return False
    for st in stmts_of(func):
        if isinstance(st, ast.AugAssign) and isinstance(st.target, ast.Name) and st.target.id == name:
            bound += 1
        elif isinstance(st, ast.Assign) and len(st.targets) == 1:
            t, v = st.targets[0], st.value
            if isinstance(t, ast.Name) and t.id == name:
                pos = None
            elif isinstance(t, ast.Tuple) and sum(1 for x in t.elts if isinstance(x, ast.Name) and x.id == name) == 1 and not any(isinstance(x, ast.Starred) for x in t.elts):
                pos = next(i for i, x in enumerate(t.elts) if isinstance(x, ast.Name) and x.id == name)
            else:
                continue
            callee = methods.get(v.func.attr) if isinstance(v, ast.Call) and isinstance(v.func, ast.Attribute) and isinstance(v.func.value, ast.Name) and v.func.value.id == "self" else None
            if callee is None or callee is func or not _fresh_result(callee, pos):
                return False
            bound += 1
    # every store of the name is one of the bindings understood above
    return bound == n_stores


def check_purity(ctx: Ctx) -> None:
    n_funcs = n_sites = 0
    for rel, mod in sorted(ctx.index.modules.items()):
        if not (rel.startswith(SCOPE_PREFIXES) or rel in SCOPE_FILES):
            continue

        def visit(node, owner, methods):
            nonlocal n_funcs, n_sites
            for ch in ast.iter_child_nodes(node):
                if isinstance(ch, ast.ClassDef):
                    visit(ch, ch.name, {m.name: m for m in ch.body if isinstance(m, FUNC_TYPES)})
                elif isinstance(ch, FUNC_TYPES):
                    res, sites = impure_writes(ch, track_state=True)
                    # "?": a value the analysis knows nothing about (unpacked from a call); a method of the same class
                    # that returns a fresh array there is looked into
                    res = [(n_, p, w) for n_, p, w in res if not (p == "?" and methods and _unknown_is_fresh(ch, n_, methods))]
                    n_funcs += 1
                    n_sites += sites
                    con = cname(rel, owner, ch.name)
                    bad = {id(n) for n, _, _ in res}
                    for node_, p, what in res:
                        ctx.ob("10.1-purity", con, False, f"{ch.name}: {what}: evaluating the function changes its operand (a second evaluation, or the operand's own value, is then wrong)", node=node_, stmt=f"{norm_stmt(node_, 70)} [{p}]")
                    if sites and not res:
                        ctx.ob("10.1-purity", con, True, "no in-place write reaches a parameter", stmt=f"{sites} in-place site(s) examined", node=ch)
                    visit(ch, owner, methods)

        visit(mod.tree, None, {})
    ctx.counts["10.1-functions"] = n_funcs
    ctx.counts["10.1-sites"] = n_sites
    ctx.extra["purity_functions_analysed"] = n_funcs
    ctx.extra["purity_inplace_sites_examined"] = n_sites
    ctx.need(n_funcs >= 150 and n_sites >= 20, f"purity scan covered only {n_funcs} functions / {n_sites} in-place sites")
    # positive control: the rule must fire on the known bad shape
    ctl = ast.parse("def f(orig_val: ndarray, indices=None, scale=1.0):\n    if indices is not None:\n        orig_val = orig_val[indices]\n    orig_val *= scale\n    return orig_val.sum()\n").body[0]
    res, _ = impure_writes(ctl)
    ctx.need(len(res) == 1, "purity rule self-check failed (positive control not detected)")
    ctl2 = ast.parse("def f(orig_val: ndarray, indices: Sequence[int], scale=1.0):\n    orig_val = orig_val[indices]\n    orig_val *= scale\n    return orig_val.sum()\n").body[0]
    res, _ = impure_writes(ctl2)
    ctx.need(not res, "purity rule self-check failed (fancy-indexed copy reported)")


def _unqualified(sa, e: ast.Call, env):
    """``numpy.f(...)`` typed as ``f(...)`` is (the shape analysis models some functions under their bare name only)."""
    f = e.func
    if isinstance(f, ast.Attribute) and dotted(f.value) in ("numpy", "np"):
        e.func = ast.copy_location(ast.Name(id=f.attr, ctx=ast.Load()), f)
        try:
            return sa._call(e, env)
        finally:
            e.func = f
    return None


def _rank_value(e: ast.AST, rank_of):
    """The value of an expression over the NUMBERS OF DIMENSIONS of arrays (``ndim(a)``, ``a.ndim``, ``len(a.shape)``,
    ``len(shape(a))``), integer constants, comparisons, boolean connectives, sets / tuples of those and their length,
    min / max / abs and + - *; ``rank_of(a)`` is the number of dimensions of ``a`` or None.  Returns (value, whether a
    number of dimensions was read); value None: not such an expression, or a rank is not known.
    """
    used = [False]

    class Unknown(Exception):
        pass

    def np_name(c, names):
        f = c.func
        return last_attr(c) in names and (isinstance(f, ast.Name) or (isinstance(f, ast.Attribute) and dotted(f.value) in ("numpy", "np")))

    def rank(x):
        r = rank_of(x)
        if r is None:
            raise Unknown
        used[0] = True
        return r

    def go(x):
        if isinstance(x, ast.Constant) and isinstance(x.value, (bool, int)):
            return x.value
        if isinstance(x, ast.Attribute) and x.attr == "ndim":
            return rank(x.value)
        if isinstance(x, ast.Call) and not x.keywords and not any(isinstance(a, ast.Starred) for a in x.args):
            if np_name(x, ("ndim",)) and len(x.args) == 1:
                return rank(x.args[0])
            if dotted(x.func) == "len" and len(x.args) == 1:
                a = x.args[0]
                if isinstance(a, ast.Attribute) and a.attr == "shape":
                    return rank(a.value)
                if isinstance(a, ast.Call) and np_name(a, ("shape",)) and len(a.args) == 1 and not a.keywords:
                    return rank(a.args[0])
                if isinstance(a, (ast.Set, ast.Tuple, ast.List)):
                    return len(go(a))
            if dotted(x.func) in ("min", "max") and x.args:
                vals = go(x.args[0]) if len(x.args) == 1 else [go(a) for a in x.args]
                if not vals or not all(isinstance(v, int) for v in vals):
                    raise Unknown
                return (min if dotted(x.func) == "min" else max)(vals)
            if dotted(x.func) == "abs" and len(x.args) == 1:
                v = go(x.args[0])
                if isinstance(v, int):
                    return abs(v)
            raise Unknown
        if isinstance(x, (ast.Set, ast.Tuple, ast.List)) and not any(isinstance(a, ast.Starred) for a in x.elts):
            vals = [go(a) for a in x.elts]
            return frozenset(vals) if isinstance(x, ast.Set) else tuple(vals)
        if isinstance(x, ast.UnaryOp) and isinstance(x.op, ast.Not):
            return not go(x.operand)
        if isinstance(x, ast.UnaryOp) and isinstance(x.op, ast.USub):
            v = go(x.operand)
            if isinstance(v, int):
                return -v
            raise Unknown
        if isinstance(x, ast.BoolOp):
            vals = [go(v) for v in x.values]
            return all(vals) if isinstance(x.op, ast.And) else any(vals)
        if isinstance(x, ast.BinOp) and isinstance(x.op, (ast.Add, ast.Sub, ast.Mult)):
            a, b = go(x.left), go(x.right)
            if isinstance(a, int) and isinstance(b, int):
                return a + b if isinstance(x.op, ast.Add) else (a - b if isinstance(x.op, ast.Sub) else a * b)
            raise Unknown
        if isinstance(x, ast.Compare):
            vals = [go(x.left), *[go(c) for c in x.comparators]]
            for op, a, b in zip(x.ops, vals, vals[1:]):
                if isinstance(op, (ast.Eq, ast.NotEq)):
                    r = (a == b) == isinstance(op, ast.Eq)
                elif isinstance(op, (ast.In, ast.NotIn)) and isinstance(b, (tuple, frozenset)):
                    r = (a in b) == isinstance(op, ast.In)
                elif isinstance(op, (ast.Lt, ast.LtE, ast.Gt, ast.GtE)) and type(a) in (int, bool) and type(b) in (int, bool):
                    r = {ast.Lt: a < b, ast.LtE: a <= b, ast.Gt: a > b, ast.GtE: a >= b}[type(op)]
                else:
                    raise Unknown
                if not r:
                    return False
            return True
        raise Unknown

    try:
        v = go(e)
    except Unknown:
        return None, used[0]
    return v, used[0]


def _decide_rank_tests(g: ast.AST, analyse):
    """``g`` (a private copy) with every condition that only reads numbers of dimensions known to the shape analysis
    replaced by its outcome, and its shape analysis.  The values are those at the condition (flow-sensitive): a
    condition is decided only where each array it asks about has ONE possible list of axes there; deciding a condition
    makes the values after it definite, so the analysis is repeated until nothing more is decided.
    """
    import copy

    for _ in range(12):
        sa = analyse(g)

        def rank_of(x, _sa=sa):
            if not _sa.cfg.has(x):
                return None
            v = _sa.value(x)
            if v is None:
                return None
            return len(v[1]) if v[0] == "arr" else (0 if v[0] == "scalar" else None)

        changed = False
        for n_ in ast.walk(g):
            if isinstance(n_, (ast.If, ast.IfExp)) and not isinstance(n_.test, ast.Constant):
                v, used = _rank_value(n_.test, rank_of)
                if used and isinstance(v, bool):
                    n_.test = ast.copy_location(ast.Constant(value=v), n_.test)
                    changed = True
        if not changed:
            return g, sa
        # the control-flow graph is cached by function object: a changed function is a new object
        g = copy.deepcopy(g)
    return g, analyse(g)


def _maker_hooks():
    def extra_call(sa, e, env):
        name = last_attr(e)
        if name in ("_jac", "jac") and isinstance(e.func, ast.Attribute):
            return arr("m", "n")
        if name in ("func", "evaluate") and isinstance(e.func, ast.Attribute):
            return arr("m")
        if name == "_operator" and len(e.args) == 2:
            return sa._binop(e, sa.evaluate(e.args[0], env), sa.evaluate(e.args[1], env), ast.Mult())
        if name == "isinstance":
            return one(("scalar",))
        return _unqualified(sa, e, env)

    def attr_hook(sa, e, env):
        if dotted(e) == "self._second_operand":
            # a plain number on the branch ``not isinstance(self._second_operand, ndarray)``
            cfg = sa.cfg
            if cfg.has(e):
                for t, v in branch_conditions(cfg, cfg.node_of(e)):
                    if cfg.kind[t] != "test":
                        continue
                    txt = norm_stmt(cfg.ast[t].test)
                    if (txt == "not isinstance(self._second_operand, ndarray)" and v) or (txt == "isinstance(self._second_operand, ndarray)" and not v):
                        return one(("scalar",))
            return arr("m")
        return None

    return extra_call, attr_hook


def _report_shapes(ctx: Ctx, rule: str, con: str, f, sa: ShapeAnalysis, want) -> None:
    bad: dict[int, list[str]] = {}
    for node, msg in sa.problems:
        st = node if isinstance(node, ast.stmt) else rules.enclosing_stmt(f, node)
        bad.setdefault(id(st), []).append(msg)
    seen = set()
    for (nid, what), (node, _) in sorted(sa.sites.items(), key=lambda kv: getattr(kv[1][0], "lineno", 0)):
        st = node if isinstance(node, ast.stmt) else rules.enclosing_stmt(f, node)
        if id(st) in seen:
            continue
        seen.add(id(st))
        msgs = bad.get(id(st), [])
        ctx.ob(rule, con, not msgs, "; ".join(msgs) + ": the Jacobian is only right when the number of outputs equals the number of inputs (or is 1)" if msgs else "kind-sound", node=st)
    for sid, msgs in bad.items():
        if sid not in seen:
            st = next(n for n, _ in sa.problems if id(n if isinstance(n, ast.stmt) else rules.enclosing_stmt(f, n)) == sid)
            ctx.ob(rule, con, False, "; ".join(msgs), node=st if isinstance(st, ast.stmt) else rules.enclosing_stmt(f, st))
    for r in [s for s in stmts_of(f) if isinstance(s, ast.Return) and s.value is not None]:
        v = sa.value(r.value)
        ok = v == want or v is None
        # a return whose kinds are unknown does not count as checked
        if v is not None:
            ctx.ob(rule + "-result", con, ok, f"the Jacobian returned has axes {v}; it must be outputs x inputs {want}", node=r, slots={"kinds": str(v)})


def check_shapes(ctx: Ctx) -> None:
    extra_call, attr_hook = _maker_hooks()
    for cls in ("_AdditionFunctionMaker", "_MultiplicationFunctionMaker"):
        f = ctx.index.method(OPS, cls, "_compute_operation_jacobian")
        sa = ShapeAnalysis(f, {}, extra_call=extra_call, attr_hook=attr_hook)
        _report_shapes(ctx, "10.2-kinds", cname(OPS, cls, "_compute_operation_jacobian"), f, sa, ("arr", ("m", "n")))
    # a scalar function (1-D gradient, GEMSEO's convention) combined with a vector function, both ways round
    from gv.cfg import cfg_of as _cfg_of
    from gv.shapes import specialise as _spec

    f = ctx.index.method(OPS, "_MultiplicationFunctionMaker", "_compute_operation_jacobian")
    con = cname(OPS, "_MultiplicationFunctionMaker", "_compute_operation_jacobian")
    for first_scalar in (True, False):

        def mixed_call(sa, e, env, _fs=first_scalar):
            name = last_attr(e)
            if isinstance(e.func, ast.Attribute):
                recv = dotted(e.func.value) or ""
                if "_operand" in recv:
                    sc = ("_first_operand" in recv) == _fs
                    if name in ("_jac", "jac"):
                        return arr("n") if sc else arr("m", "n")
                    if name in ("func", "evaluate"):
                        return one(("scalar",)) if sc else arr("m")
            return extra_call(sa, e, env)

        # function x function: the second operand is a function, not a number, whichever flag the code tests
        g = _spec(f, {"self._second_operand_is_number": False, "self._second_operand_is_func": True})
        # the branches taken when exactly one of the two Jacobians is 1-D: the conditions on the numbers of dimensions
        # are evaluated with the numbers of dimensions the arrays have there
        g, sa = _decide_rank_tests(g, lambda g_, _mc=mixed_call: ShapeAnalysis(g_, {}, extra_call=_mc, attr_hook=attr_hook))
        cg = _cfg_of(g)
        label = "scalar x vector" if first_scalar else "vector x scalar"
        msgs = sorted({m_ for _, m_ in sa.problems})
        ctx.ob("10.2-kinds-mixed", con, not msgs, f"{label}: " + "; ".join(msgs) + ": the 1-D gradient of the scalar operand is paired with the output axis of the other operand", node=f, stmt=f"{label}: kind-sound")
        for r in [s_ for s_ in ast.walk(g) if isinstance(s_, ast.Return) and s_.value is not None and cg.has(s_)]:
            v = sa.value(r.value)
            if v is not None:
                ctx.ob("10.2-kinds-mixed", con, v == ("arr", ("m", "n")), f"{label}: the Jacobian returned has axes {v}; it must be outputs x inputs", node=r, stmt=f"{label}: result is outputs x inputs `{norm_stmt(r.value, 50)}`")
    ctx.floor("10.2-kinds-mixed", 4)
    # linear composition f o A: A is p x q, f: R^p -> R^m
    f = ctx.index.method(LCF, "LinearCompositeFunction", "_restricted_jac")

    def lc_call(sa, e, env):
        name = last_attr(e)
        if name in ("jac", "_jac") and isinstance(e.func, ast.Attribute) and "_function" in (dotted(e.func.value) or ""):
            return arr("m", "p")
        return None

    def lc_attr(sa, e, env):
        if dotted(e) == "self._matrix":
            return arr("p", "q")
        return None

    sa = ShapeAnalysis(f, {f.args.args[1].arg: arr("q")}, extra_call=lc_call, attr_hook=lc_attr)
    _report_shapes(ctx, "10.2-kinds", cname(LCF, "LinearCompositeFunction", "_restricted_jac"), f, sa, ("arr", ("m", "q")))
    g = ctx.index.method(LCF, "LinearCompositeFunction", "_restricted_function")
    sa = ShapeAnalysis(g, {g.args.args[1].arg: arr("q")}, extra_call=lambda sa, e, env: arr("m") if last_attr(e) in ("evaluate", "func") else None, attr_hook=lc_attr)
    _report_shapes(ctx, "10.2-kinds", cname(LCF, "LinearCompositeFunction", "_restricted_function"), g, sa, ("arr", ("m",)))
    # the point at which f is differentiated is the point at which it is evaluated
    from gv.dataflow import SymValues

    pts = []
    for fn in (f, g):
        sv = SymValues(fn)
        here = set()
        for c in walk_body(fn):
            if isinstance(c, ast.Call) and last_attr(c) in ("jac", "_jac", "evaluate", "func") and c.args:
                here |= {_canon_point(t, fn.args.args[1].arg) for t in sv.texts(c.args[0])}
        pts.append(sorted(here))
    ctx.ob("10.3-same-point", cname(LCF, "LinearCompositeFunction", "_restricted_jac"), bool(pts[0]) and pts[0] == pts[1], f"value and Jacobian of the composed function must evaluate f at the same point A.x; found {pts}", node=f, stmt="f evaluated and differentiated at A.x")
    # restriction: columns of the active inputs
    h = ctx.index.method(FRS, "FunctionRestriction", "_jac_to_wrap")

    def fr_attr(sa, e, env):
        if dotted(e) == "self._active_indexes":
            return one(("idxarr", ("a",), "n"))
        return None

    sa = ShapeAnalysis(h, {}, extra_call=lambda sa, e, env: arr("m", "n") if last_attr(e) in ("jac", "_jac") else None, attr_hook=fr_attr)
    _report_shapes(ctx, "10.2-kinds", cname(FRS, "FunctionRestriction", "_jac_to_wrap"), h, sa, ("arr", ("m", "a")))
    ctx.floor("10.2-kinds", 6)
    ctx.floor("10.2-kinds-result", 5)


# ---------------------------------------------------------------------------
# 10.3: arithmetic of the derivative formulas, decided up to the laws of elementwise arithmetic

_LAYOUT_CALLS = {"transpose", "atleast_1d", "atleast_2d", "atleast_3d", "asarray", "array", "tile", "reshape"}
_BIN_CALLS = {"multiply": ast.Mult, "mul": ast.Mult, "divide": ast.Div, "true_divide": ast.Div, "truediv": ast.Div, "add": ast.Add, "subtract": ast.Sub, "sub": ast.Sub}


def _pmul(p: dict, q: dict) -> dict:
    out: dict = {}
    for ma, ca in p.items():
        for mb, cb in q.items():
            m = tuple(sorted(ma + mb))
            out[m] = out.get(m, 0) + ca * cb
    return {m: c for m, c in out.items() if c}


def _padd(p: dict, q: dict, sign: int = 1) -> dict:
    out = dict(p)
    for m, c in q.items():
        out[m] = out.get(m, 0) + sign * c
    return {m: c for m, c in out.items() if c}


def _rational(e: ast.AST, atom, operator=None):
    """``e`` as a quotient (polynomial, monomial) of atoms: sums, differences, products, quotients and integer powers,
    written with operators or with the numpy / operator functions; what only changes the layout of an array
    (transposition, added axes, tiling) is looked through -- the layout is the business of rule 10.2.

    ``atom(node)`` names an operand (or None: its text is the name); ``operator`` is the operator node class
    ``self._operator(a, b)`` stands for in the scenario examined (None: the call is an atom).
    """
    from fractions import Fraction

    one = {(): Fraction(1)}

    def strip(x):
        while True:
            if isinstance(x, ast.Attribute) and x.attr == "T":
                x = x.value
            elif isinstance(x, ast.Call) and last_attr(x) in _LAYOUT_CALLS:
                f = x.func
                if isinstance(f, ast.Name) or dotted(f.value) in ("numpy", "np"):
                    if not x.args:
                        return x
                    x = x.args[0]
                elif f.attr in ("transpose", "reshape"):
                    x = f.value
                else:
                    return x
            elif isinstance(x, ast.Subscript) and all(isinstance(d, ast.Slice) and d.lower is d.upper is d.step is None or (isinstance(d, ast.Constant) and d.value in (None, Ellipsis)) or dotted(d) in ("newaxis", "numpy.newaxis", "np.newaxis") for d in (x.slice.elts if isinstance(x.slice, ast.Tuple) else [x.slice])):
                x = x.value
            else:
                return x

    def binop(op, a, b):
        (na, da), (nb, db) = a, b
        if op in (ast.Add, ast.Sub):
            # common denominator: the least common multiple of two monomials
            from collections import Counter

            ca, cb = Counter(da), Counter(db)
            lcm = ca | cb
            ea, eb = tuple(sorted((lcm - ca).elements())), tuple(sorted((lcm - cb).elements()))
            return _padd(_pmul(na, {ea: Fraction(1)}), _pmul(nb, {eb: Fraction(1)}), 1 if op is ast.Add else -1), tuple(sorted(lcm.elements()))
        if op is ast.Mult:
            return _pmul(na, nb), tuple(sorted(da + db))
        if op is ast.Div:
            if len(nb) == 1:
                ((m, c),) = nb.items()
                return _pmul(na, {db: 1 / c}), tuple(sorted(da + m))
            name = "(" + " + ".join(f"{c}*{'*'.join(m) or '1'}" for m, c in sorted(nb.items())) + ")"
            return _pmul(na, {db: Fraction(1)}), tuple(sorted(da + (name,)))
        raise AssertionError(op)

    def power(base, n: int):
        out = (dict(one), ())
        for _ in range(abs(n)):
            out = binop(ast.Mult, out, base)
        return binop(ast.Div, (dict(one), ()), out) if n < 0 else out

    def exponent(x):
        if isinstance(x, ast.UnaryOp) and isinstance(x.op, ast.USub):
            v = exponent(x.operand)
            return None if v is None else -v
        if isinstance(x, ast.Constant) and isinstance(x.value, (int, float)) and not isinstance(x.value, bool) and float(x.value).is_integer() and abs(x.value) <= 6:
            return int(x.value)
        return None

    def go(x):
        x = strip(x)
        if isinstance(x, ast.Constant) and isinstance(x.value, (int, float)) and not isinstance(x.value, bool):
            return ({(): Fraction(x.value)} if x.value else {}), ()
        if isinstance(x, ast.UnaryOp) and isinstance(x.op, (ast.USub, ast.UAdd)):
            n, d = go(x.operand)
            return ({m: -c for m, c in n.items()} if isinstance(x.op, ast.USub) else n), d
        if isinstance(x, ast.BinOp) and type(x.op) in (ast.Add, ast.Sub, ast.Mult, ast.Div):
            return binop(type(x.op), go(x.left), go(x.right))
        if isinstance(x, ast.BinOp) and isinstance(x.op, ast.Pow) and exponent(x.right) is not None:
            return power(go(x.left), exponent(x.right))
        if isinstance(x, ast.Call) and not x.keywords:
            name = last_attr(x)
            if operator is not None and dotted(x.func) == "self._operator" and len(x.args) == 2:
                return binop(operator, go(x.args[0]), go(x.args[1]))
            if name in _BIN_CALLS and len(x.args) == 2 and (dotted(x.func) or "").split(".")[0] in (name, "numpy", "np", "operator"):
                return binop(_BIN_CALLS[name], go(x.args[0]), go(x.args[1]))
            if name in ("power", "pow") and len(x.args) == 2 and exponent(x.args[1]) is not None:
                return power(go(x.args[0]), exponent(x.args[1]))
            if name == "square" and len(x.args) == 1:
                return power(go(x.args[0]), 2)
            if name in ("negative", "neg") and len(x.args) == 1:
                n, d = go(x.args[0])
                return {m: -c for m, c in n.items()}, d
        a = atom(x) or ast.unparse(x)
        return {(a,): Fraction(1)}, ()

    return go(e)


def _same_rational(a, b) -> bool:
    """a == b as quotients (cross-multiplication)."""
    from fractions import Fraction

    return _pmul(a[0], {b[1]: Fraction(1)}) == _pmul(b[0], {a[1]: Fraction(1)})


def _show_rational(r) -> str:
    def poly(p):
        return " ".join(f"{'+' if c > 0 else '-'}{'' if abs(c) == 1 and m else abs(c)}{'*'.join(m)}" for m, c in sorted(p.items())) or "0"

    return f"({poly(r[0])})" + (f" / ({'*'.join(r[1])})" if r[1] else "")


def _operand_atom(e: ast.AST) -> str | None:
    """J1/J2: the Jacobian of the first/second operand, F1/F2: its value, C: the second operand itself (a constant)."""
    if isinstance(e, ast.Call) and isinstance(e.func, ast.Attribute) and e.args:
        recv = dotted(e.func.value)
        who = {"self._first_operand": "1", "self._second_operand": "2"}.get(recv)
        what = "J" if e.func.attr in ("_jac", "jac") else ("F" if e.func.attr in ("func", "evaluate", "_func") else None)
        if who and what:
            return what + who
    if dotted(e) == "self._second_operand":
        return "C"
    return None


def _maker_scenarios(ctx: Ctx, cls: str, names: tuple, reprs: tuple):
    """The operator and its representation a maker passes to its base class when ``inverse`` is false / true.

    Returns {False: (operator text, repr), True: (...)}; the obligation 10.3-flag states that they are ``names`` and
    ``reprs`` (direct, inverse).  Whatever the spelling: conditional expressions, ``not inverse``, locals, statements.
    """
    from gv.astutil import arg_or_kw
    from gv.props.shared import unfolded

    init = ctx.index.method(OPS, cls, "__init__")
    sup = rules.super_calls(init, "__init__")
    ctx.need(len(sup) == 1, f"{cls}.__init__: one call super().__init__(cls, a, b, operator, repr) expected")
    found = {}
    for inv in (False, True):
        ops = unfolded(init, sup[0], facts={"inverse": inv}, get=lambda c: arg_or_kw(c, 3, "operator")) or []
        reps = unfolded(init, sup[0], facts={"inverse": inv}, get=lambda c: arg_or_kw(c, 4, "operator_repr")) or []
        found[inv] = (dotted(ops[0]) if len(ops) == 1 else None, reps[0].value if len(reps) == 1 and isinstance(reps[0], ast.Constant) else None)
    return init, sup[0], found


def _flag_meaning(e: ast.AST, table: dict, number_attr_ok: bool):
    """What the truth of the condition ``e`` says: (the second operand is a number, the operator is the inverse one),
    each True / False / None (says nothing).  ``table`` maps the operator's last name and the representation to
    inverse; the comparison may be ``==``, ``is``, ``!=``, ``is not``, either way round.
    """
    txt = norm_stmt(e)
    if txt == "self._second_operand_is_number":
        return True, None
    if txt == "self._second_operand_is_func" and number_attr_ok:
        return False, None
    parts = compare_parts(e) if isinstance(e, ast.Compare) and len(e.ops) == 1 else None
    if parts is None or parts[1] not in (ast.Eq, ast.Is, ast.NotEq, ast.IsNot):
        return None, None
    left, op, right = parts
    for a, b in ((left, right), (right, left)):
        key = None
        if dotted(a) == "self._operator_repr" and isinstance(b, ast.Constant) and isinstance(b.value, str):
            key = ("repr", b.value)
        elif dotted(a) == "self._operator" and dotted(b):
            key = ("op", dotted(b).split(".")[-1])
        if key in table:
            return None, (table[key] if op in (ast.Eq, ast.Is) else not table[key])
    return None, None


def check_operator_agreement(ctx: Ctx) -> None:
    from fractions import Fraction

    from gv.props.shared import unfolded

    base_init = ctx.index.method(OPS, "_OperationFunctionMaker", "__init__")
    # exactly one of the two flags holds once the maker is built: ``not number and not func`` raises
    number_attr_ok = any(isinstance(s_, ast.If) and norm_stmt(s_.test) in ("not self._second_operand_is_number and (not self._second_operand_is_func)", "not self._second_operand_is_number and not self._second_operand_is_func") and any(isinstance(b, ast.Raise) for b in s_.body) for s_ in stmts_of(base_init))
    mod = ctx.index.module(OPS)

    def mono(*atoms, c=1):
        return {tuple(sorted(atoms)): Fraction(c)}

    def check_maker(cls, names, reprs, operators, expected, messages):
        init, sup, found = _maker_scenarios(ctx, cls, names, reprs)
        ok = found[False] == (names[0], reprs[0]) and found[True] == (names[1], reprs[1])
        ctx.ob("10.3-flag", cname(OPS, cls, "__init__"), ok, f"the value operator and its representation must be selected by the same flag: inverse -> ({names[1]}, {reprs[1]!r}), otherwise ({names[0]}, {reprs[0]!r}); found {found}", node=sup)
        table = {("op", names[0].split(".")[-1]): False, ("op", names[1].split(".")[-1]): True, ("repr", reprs[0]): False, ("repr", reprs[1]): True}
        j = ctx.index.method(OPS, cls, "_compute_operation_jacobian")
        conj = cname(OPS, cls, "_compute_operation_jacobian")
        rets = [s_ for s_ in stmts_of(j) if isinstance(s_, ast.Return)]
        ctx.need(rets, f"{cls}._compute_operation_jacobian: no return")
        # every condition on the operator or on the kind of the second operand, with what its truth says
        flags = {}
        for n_ in ast.walk(j):
            if isinstance(n_, (ast.Compare, ast.Attribute)):
                number, inverse = _flag_meaning(n_, table, number_attr_ok)
                if number is not None or inverse is not None:
                    flags[norm_stmt(n_)] = (number, inverse)
        bad: dict[int, list[str]] = {}
        reached: dict[int, int] = {}
        covered = set()
        for num in (True, False):
            for inv in (False, True):
                # the function as it runs in this scenario: the conditions above are decided, the locals unfolded
                facts = {txt: (num == number if number is not None else inv == inverse) for txt, (number, inverse) in flags.items()}
                want = expected[(num, inv)]
                for r in rets:
                    alts = unfolded(j, r, facts=facts, get=lambda s_: s_.value)
                    if not alts:
                        continue
                    covered.add((num, inv))
                    reached[id(r)] = reached.get(id(r), 0) + 1
                    for a in alts:
                        got = _rational(a, _operand_atom, operators[inv])
                        if not _same_rational(got, want):
                            bad.setdefault(id(r), []).append(f"with {'a constant' if num else 'a function'} as second operand and the operator {reprs[inv]!r} it returns {_show_rational(got)[:200]} instead of {_show_rational(want)}")
        for r in rets:
            if id(r) in reached:
                msgs = list(dict.fromkeys(bad.get(id(r), [])))
                ctx.ob("10.3-derivative", conj, not msgs, messages + ": " + "; ".join(msgs) + " (J1, J2: the Jacobians of the operands, F1, F2: their values, C: the constant)", node=r)
        ctx.ob("10.3-derivative", conj, covered == {(n_, i_) for n_ in (True, False) for i_ in (True, False)}, f"some combination of (second operand is a constant, inverse operator) reaches no return: {sorted(covered)}", node=j, stmt="every operator and operand kind has its derivative")

    # addition
    for name, want in (("_add", ast.Add), ("_subtract", ast.Sub)):
        fn = mod.functions.get(name)
        good = ("operator.add", "numpy.add") if want is ast.Add else ("operator.sub", "numpy.subtract")
        if fn is not None:
            a_, b_ = (fn.args.args[0].arg, fn.args.args[1].arg) if len(fn.args.args) >= 2 else ("?", "?")
            target = ({(a_,): Fraction(1), (b_,): Fraction(1 if want is ast.Add else -1)}, ())
            rets = [r for r in stmts_of(fn) if isinstance(r, ast.Return) and r.value is not None]
            ok = bool(rets) and all(_same_rational(_rational(alt, lambda e: None), target) for r in rets for alt in (unfolded(fn, r.value) or [ast.Name(id="?")]))
        else:
            ok = mod.imports.get(name) in good or dotted(mod.assigns.get(name)) in good
        ctx.ob("10.3-flag", cname(OPS, None, name), bool(ok), f"{name} must compute first {'+' if want is ast.Add else '-'} second (found {mod.imports.get(name)})", node=fn or base_init, stmt=f"{name} definition")
    j1, j2 = mono("J1"), mono("J2")
    check_maker(
        "_AdditionFunctionMaker",
        ("_add", "_subtract"),
        ("+", "-"),
        {False: ast.Add, True: ast.Sub},
        {(True, False): (j1, ()), (True, True): (j1, ()), (False, False): (_padd(j1, j2), ()), (False, True): (_padd(j1, j2, -1), ())},
        "the derivative of f + g is f' + g', of f - g it is f' - g', and adding a constant leaves the Jacobian unchanged",
    )
    # multiplication
    cross = _padd(mono("J1", "F2"), mono("J2", "F1"))
    cross_m = _padd(mono("J1", "F2"), mono("J2", "F1"), -1)
    check_maker(
        "_MultiplicationFunctionMaker",
        ("numpy.multiply", "numpy.divide"),
        ("*", "/"),
        {False: ast.Mult, True: ast.Div},
        {(True, False): (mono("J1", "C"), ()), (True, True): (j1, ("C",)), (False, False): (cross, ()), (False, True): (cross_m, ("F2", "F2"))},
        "product rule (f g)' = f' g + g' f, quotient rule (f / g)' = (f' g - g' f) / g**2, and a constant factor applies to the Jacobian the operator it applies to the value",
    )
    # value code applies the stored operator to (first, second) in this order
    v = ctx.index.method(OPS, "_OperationFunctionMaker", "_compute_operation")
    rets = [s_ for s_ in stmts_of(v) if isinstance(s_, ast.Return)]
    ok = bool(rets)
    seen = []
    for is_func in (True, False):
        facts = {"self._second_operand_is_func": is_func}
        if number_attr_ok:
            facts["self._second_operand_is_number"] = not is_func
        n_alts = 0
        for r in rets:
            alts = unfolded(v, r, facts=facts, get=lambda s_: s_.value)
            for a in alts or []:
                n_alts += 1
                seen.append(norm_stmt(a, 80))
                ok = ok and isinstance(a, ast.Call) and dotted(a.func) == "self._operator" and len(a.args) == 2 and not a.keywords and _operand_atom(a.args[0]) == "F1" and _operand_atom(a.args[1]) == ("F2" if is_func else "C")
        ok = ok and n_alts > 0
    ctx.ob("10.3-value", cname(OPS, "_OperationFunctionMaker", "_compute_operation"), ok, f"the value is operator(first(x), second(x) or the constant), in this order; found {sorted(set(seen))}", node=(rets or [v])[0])


# value function -> its derivative siblings (algos/aggregation/core.py, confirmed by reading)
AGG_PAIRS = {
    "compute_upper_bound_ks_agg": ("compute_total_ks_agg_jac", "compute_partial_ks_agg_jac"),
    "compute_iks_agg": ("compute_total_iks_agg_jac", "compute_partial_iks_agg_jac"),
    "compute_max_agg": ("compute_max_agg_jac",),
    "compute_sum_square_agg": ("compute_total_sum_square_agg_jac", "compute_partial_sum_square_agg_jac"),
    "compute_sum_positive_square_agg": ("compute_total_sum_square_positive_agg_jac", "compute_partial_sum_positive_square_agg_jac"),
}


_RAW, _SCALED, _SCALE, _OTHER = "raw", "scaled", "scale", "other"
_SAME_VALUES = {"asarray", "array", "atleast_1d", "copy", "ravel", "flatten"}
_SIZE_ATTRS = ("size", "shape", "ndim")


def _scaling_of(func: ast.AST, values: str = "orig_val", factor: str = "scale") -> dict:
    """Where ``func`` reads the constraint values ``values`` as they come and where multiplied by ``factor``.

    A forward analysis tags every local with what it may hold: the constraint values (restricted by an index, copied:
    ``raw``), their product by the factor whatever its spelling (``v * s``, ``s * v``, ``multiply(v, s)``, ``v *= s``:
    ``scaled``), the factor itself, or anything else.  The expressions are then walked from the top: a maximal
    expression that IS the (scaled) constraint values is a read of them, unless it is only given a name
    (``x = v[indices]``, ``x = v * s``), in which case the reads of that name count.  Reading the size only is no read.

    state: "all" (every read is of the scaled values), "none" (the scaled values are never named and no read mixes
    both), "partial" otherwise.  scale_loads: every load of the factor; chain_loads: those that do not scale the
    constraint values.
    """
    from gv.dataflow import Forward

    other = frozenset({_OTHER})
    val = {_RAW, _SCALED}

    def two_operands(e):
        if isinstance(e, ast.BinOp) and isinstance(e.op, ast.Mult):
            return e.left, e.right
        if isinstance(e, ast.Call) and last_attr(e) in ("multiply", "mul") and len(e.args) == 2 and not e.keywords:
            return e.args[0], e.args[1]
        return None

    def ev(e, env):
        if isinstance(e, ast.Name):
            t = env.get(e.id, other)
            return other if "?" in t else t
        if isinstance(e, ast.Subscript):
            t = ev(e.value, env)
            return t if t & val else other
        if isinstance(e, ast.Call) and last_attr(e) in _SAME_VALUES and not e.keywords:
            # ``v.copy()`` and ``asarray(v)`` hold the same numbers as ``v``
            inner = e.func.value if isinstance(e.func, ast.Attribute) and not e.args else (e.args[0] if len(e.args) == 1 else None)
            t = ev(inner, env) if inner is not None else other
            return t if t & (val | {_SCALE}) else other
        if isinstance(e, ast.IfExp):
            # ``v if c else v[indices]``: what either branch may hold (a constant test selects its branch)
            if isinstance(e.test, ast.Constant):
                return ev(e.body if e.test.value else e.orelse, env)
            t = ev(e.body, env) | ev(e.orelse, env)
            return t if t & (val | {_SCALE}) else other
        if isinstance(e, ast.NamedExpr):
            return ev(e.value, env)
        ops = two_operands(e)
        if ops:
            a, b = ev(ops[0], env), ev(ops[1], env)
            for x, y in ((a, b), (b, a)):
                if x == {_SCALE} and y & val:
                    return frozenset(_SCALED if k == _RAW else _OTHER for k in y)
        return other

    def aug(node, env):
        if not isinstance(node.target, ast.Name):
            return other
        return ev(ast.BinOp(left=ast.Name(id=node.target.id, ctx=ast.Load()), op=node.op, right=node.value), env)

    cfg = cfg_of(func)
    fw = Forward(cfg, ev, init={values: frozenset({_RAW}), factor: frozenset({_SCALE})}, aug=aug)
    reads, defs, scale_loads, chain_loads = [], [], [], []

    def visit(e, env):
        if isinstance(e, ast.Attribute) and e.attr in _SIZE_ATTRS and ev(e.value, env) & val:
            return
        if isinstance(e, ast.Call) and dotted(e.func) == "len" and len(e.args) == 1 and ev(e.args[0], env) & val:
            return
        if isinstance(e, ast.expr):
            t = ev(e, env)
            if t & val:
                reads.append((e, t))
                return
            if isinstance(e, ast.Name) and isinstance(e.ctx, ast.Load) and t == {_SCALE}:
                chain_loads.append(e)
        for ch in ast.iter_child_nodes(e):
            visit(ch, env)

    for st in stmts_of(func):
        if not cfg.has(st):
            continue
        if isinstance(st, (ast.If, ast.While)):
            roots = [st.test]
        elif isinstance(st, ast.For):
            roots = [st.iter]
        elif isinstance(st, ast.With):
            roots = [it.context_expr for it in st.items]
        elif isinstance(st, (ast.Try, ast.FunctionDef, ast.ClassDef)):
            roots = []
        else:
            roots = [st]
        for root in roots:
            env = fw.at(root)
            scale_loads += [n for n in ast.walk(root) if isinstance(n, ast.Name) and isinstance(n.ctx, ast.Load) and ev(n, env) == {_SCALE}]
            if isinstance(root, ast.Assign) and len(root.targets) == 1 and isinstance(root.targets[0], ast.Name):
                t = ev(root.value, env)
                if t & val:
                    defs.append((root, t))
                else:
                    visit(root.value, env)
            elif isinstance(root, ast.AugAssign) and isinstance(root.target, ast.Name):
                t = aug(root, env)
                if t & val:
                    defs.append((root, t))
                else:
                    pre = ev(ast.Name(id=root.target.id, ctx=ast.Load()), env)
                    if pre & val:
                        reads.append((root.target, pre))
                    visit(root.value, env)
            else:
                visit(root, env)
    if reads and all(t == {_SCALED} for _, t in reads):
        state = "all"
    elif any(_SCALED in t for _, t in defs) or any(_SCALED in t and t != {_SCALED} for _, t in reads):
        state = "partial"
    else:
        state = "none"
    return {"state": state, "reads": reads, "defs": [d for d, t in defs if _SCALED in t], "scale_loads": scale_loads, "chain_loads": chain_loads}


def check_aggregation(ctx: Ctx) -> None:
    from gv.cfg import cfg_of
    from gv.shapes import specialise

    mod = ctx.index.module(AGG)
    # 10.2: axis kinds with one factor per constraint (``scale: float | ndarray``) and with a number
    n = 0
    for name, f in sorted(mod.functions.items()):
        params = [a.arg for a in f.args.args]
        if "orig_val" not in params or "scale" not in params:
            continue
        con = cname(AGG, None, name)
        for label, sc in (("one factor per constraint", arr("m")), ("a number", one(("scalar",)))):
            g = specialise(f, {"indices is not None": False})
            init = {"orig_val": arr("m"), "scale": sc}
            if "orig_jac" in params:
                init["orig_jac"] = arr("m", "n")
            sa = ShapeAnalysis(g, init)
            n += 1
            msgs = sorted({m for _, m in sa.problems})
            node = sa.problems[0][0] if sa.problems else f
            ctx.ob("10.2-aggregation", con, not msgs, "; ".join(msgs) + f" (scale is {label}): each constraint's row must be multiplied by that constraint's factor", node=f, stmt=f"{name} is kind-sound when scale is {label}" + (f": `{norm_stmt(node, 60)}`" if msgs else ""))
    ctx.floor("10.2-aggregation", 28)
    # 10.4: the derivative is taken of the value actually computed: same pre-scaling of the constraint values
    for vname, jnames in AGG_PAIRS.items():
        v = mod.functions.get(vname)
        if v is None:
            raise AnalysisError(f"aggregation function {vname} not found")
        vs = _scaling_of(v)
        v_pre = vs["state"] == "all"
        ctx.ob("10.4-scaling", cname(AGG, None, vname), bool(vs["scale_loads"]), f"{vname} takes a scale and never uses it", node=v, stmt=f"{vname} uses scale")
        for jn in jnames:
            j = mod.functions.get(jn)
            con = cname(AGG, None, jn)
            if j is None:
                ctx.ob("10.4-scaling", con, False, f"the derivative {jn} of {vname} is missing", node=v, stmt=f"{jn} defined")
                continue
            js = _scaling_of(j)
            j_pre = js["state"] == "all"
            # the scaled values are what every expression of the derivative reads (their size apart), exactly when they
            # are what every expression of the value reads; a function that scales them on some paths or for some of
            # its reads only is neither
            ok = vs["state"] == js["state"] and js["state"] in ("all", "none")
            how = {"all": "does", "none": "does not", "partial": "does so for some of its reads only"}
            ctx.ob("10.4-scaling", con, ok, f"{vname} {'scales' if v_pre else 'does not scale'} the constraint values before aggregating them, {jn} {how[js['state']]}: the Jacobian is not the derivative of the value as soon as scale != 1", node=(js["defs"] or [j])[0], stmt=f"{jn} pre-scales the constraint values like {vname}")
            # the factor of the chain rule is a use of scale that is not the pre-scaling of the constraint values
            uses = bool(js["chain_loads"] if j_pre else js["scale_loads"])
            ctx.ob("10.4-scaling", con, uses, f"{jn}: by the chain rule the derivative carries the factor scale once more (d(scale g)/dx = scale dg/dx); it is not applied", node=j, stmt=f"{jn} applies the factor of the chain rule")
    ctx.floor("10.4-scaling", 20)


# parameters of the numpy functions that build a point from another one, in positional order
_NUMPY_PARAMS = {
    "insert": ("arr", "obj", "values", "axis"),
    "delete": ("arr", "obj", "axis"),
    "append": ("arr", "values", "axis"),
    "where": ("condition", "x", "y"),
    "take": ("a", "indices", "axis"),
    "compress": ("condition", "a", "axis"),
    "dot": ("a", "b"),
    "matmul": ("x1", "x2"),
    "multiply": ("x1", "x2"),
    "add": ("x1", "x2"),
    "subtract": ("x1", "x2"),
    "divide": ("x1", "x2"),
    "concatenate": ("arrays", "axis"),
    "hstack": ("tup",),
    "vstack": ("tup",),
    "asarray": ("a", "dtype"),
    "array": ("object", "dtype"),
    "atleast_1d": ("arys",),
    "atleast_2d": ("arys",),
    "full": ("shape", "fill_value", "dtype"),
    "clip": ("a", "a_min", "a_max"),
}


def _canon_point(text: str, param: str) -> str:
    """One spelling for the point at which a wrapped function is evaluated: the method's own parameter is ``_x``, a
    matrix product is ``a @ b`` however it is written (``a.dot(b)``, ``dot(a, b)``, ``matmul(a, b)``), a numpy function
    is called by its bare name with its arguments in positional order (``numpy.insert(a, i, values=v)`` is
    ``insert(a, i, v)``), ``(name := e)`` is ``e``, ``a[i,]`` is ``a[i]`` and a selection on a negated mask is the
    selection on the mask with its branches exchanged (``where(~c, a, b)`` is ``where(c, b, a)``)."""
    import re

    def numpy_call(n):
        return isinstance(n.func, ast.Name) or (isinstance(n.func, ast.Attribute) and dotted(n.func.value) in ("numpy", "np"))

    class T(ast.NodeTransformer):
        def visit_NamedExpr(self, n):  # noqa: N802
            return self.visit(n.value)

        def visit_Subscript(self, n):  # noqa: N802
            self.generic_visit(n)
            if isinstance(n.slice, ast.Tuple) and len(n.slice.elts) == 1 and not isinstance(n.slice.elts[0], ast.Starred):
                n.slice = n.slice.elts[0]
            return n

        def visit_Call(self, n):  # noqa: N802
            self.generic_visit(n)
            name = last_attr(n)
            if name in _NUMPY_PARAMS and numpy_call(n) and not any(isinstance(a, ast.Starred) for a in n.args) and all(k.arg for k in n.keywords):
                n.func = ast.Name(id=name, ctx=ast.Load())
                params = _NUMPY_PARAMS[name]
                by_name = {k.arg: k for k in n.keywords}
                while len(n.args) < len(params) and params[len(n.args)] in by_name:
                    n.args.append(by_name.pop(params[len(n.args)]).value)
                n.keywords = sorted(by_name.values(), key=lambda k: k.arg)
            if name == "where" and numpy_call(n) and len(n.args) == 3 and not n.keywords:
                c = n.args[0]
                neg = c.operand if isinstance(c, ast.UnaryOp) and isinstance(c.op, ast.Invert) else (c.args[0] if isinstance(c, ast.Call) and last_attr(c) in ("logical_not", "invert", "bitwise_not") and len(c.args) == 1 and not c.keywords and numpy_call(c) else None)
                if neg is not None:
                    n.args = [neg, n.args[2], n.args[1]]
            if n.keywords:
                return n
            if name == "dot" and len(n.args) == 1 and isinstance(n.func, ast.Attribute) and dotted(n.func.value) not in ("numpy", "np"):
                return ast.BinOp(left=n.func.value, op=ast.MatMult(), right=n.args[0])
            if name in ("dot", "matmul") and len(n.args) == 2 and (isinstance(n.func, ast.Name) or dotted(n.func.value) in ("numpy", "np")):
                return ast.BinOp(left=n.args[0], op=ast.MatMult(), right=n.args[1])
            return n

    try:
        text = ast.unparse(ast.fix_missing_locations(T().visit(ast.parse(text, mode="eval"))))
    except SyntaxError:
        pass
    return re.sub(rf"\b{re.escape(param)}\b", "_x", text)


def check_same_point(ctx: Ctx) -> None:
    """10.3: a function built around another one evaluates the wrapped value and the wrapped Jacobian at the same point.

    For every class of core/mdo_functions and every wrapped function held in an attribute, the (unfolded) argument of
    its .func/.evaluate calls and of its .jac calls are compared, the method's own parameter renamed to one name.
    """
    import re

    from gv.dataflow import SymValues

    n = 0
    for rel, mod in sorted(ctx.index.modules.items()):
        if not rel.startswith("core/mdo_functions/"):
            continue
        for cn, c in sorted(mod.classes.items()):
            pts: dict = {}
            for mn, m in sorted(c.methods.items()):
                if mn == "__init__" or len(m.args.args) < 2:
                    continue
                p = m.args.args[1].arg
                sv = None
                for call in walk_body(m):
                    if isinstance(call, ast.Call) and isinstance(call.func, ast.Attribute) and call.func.attr in ("func", "evaluate", "jac", "_jac", "_func") and call.args:
                        recv = dotted(call.func.value)
                        if not recv or not recv.startswith("self."):
                            continue
                        sv = sv or SymValues(m)
                        kind = "J" if "jac" in call.func.attr else "V"
                        for t in sv.texts(call.args[0]):
                            pts.setdefault(recv, {}).setdefault(kind, {})[_canon_point(t, p)] = call
            for recv, d in sorted(pts.items()):
                if set(d) != {"V", "J"}:
                    continue
                n += 1
                only_j = sorted(set(d["J"]) - set(d["V"]))
                only_v = sorted(set(d["V"]) - set(d["J"]))
                node = d["J"][only_j[0]] if only_j else next(iter(d["J"].values()))
                ctx.ob("10.3-same-point", cname(rel, cn), not only_j and not only_v, f"{recv} is evaluated at {sorted(d['V'])} and differentiated at {sorted(d['J'])}: the Jacobian returned is then not the derivative of the value returned", node=node, stmt=f"{recv}: value and Jacobian at the same point")
    ctx.floor("10.3-same-point", 7)


def check_point_not_retained(ctx: Ctx) -> None:
    """10.6 an evaluation keeps no reference to the caller's input array: a value remembered "for the point x" through an
    alias of x is silently attached to whatever x becomes when the caller updates it in place (the drivers do)."""
    POINTS = {"input_value", "x_vect", "x_new", "x_in", "input_data", "x"}
    n = 0
    for rel, mod in sorted(ctx.index.modules.items()):
        if not (rel.startswith("core/mdo_functions/") or rel == "algos/problem_function.py"):
            continue
        for cn, c in sorted(mod.classes.items()):
            for mname, m in sorted(c.methods.items()):
                if mname == "__init__" or any(isinstance(d, ast.Attribute) and d.attr == "setter" for d in m.decorator_list):
                    continue
                params = [a.arg for a in m.args.args if a.arg != "self"]
                pts = [p_ for p_ in params[:1] if p_ in POINTS]
                if not pts:
                    continue
                n += 1
                sv = None
                bad = []
                for st in stmts_of(m):
                    if not (isinstance(st, ast.Assign) and any(isinstance(t, ast.Attribute) and dotted(t.value) == "self" for t in st.targets)):
                        continue
                    sv = sv or SymValues(m)
                    vals = st.value.elts if isinstance(st.value, ast.Tuple) else [st.value]
                    for v in vals:
                        if any(t == pts[0] for t in sv.texts(v)):
                            bad.append(st)
                ctx.ob("10.6-point-not-retained", cname(rel, cn, mname), not bad, f"the evaluation stores its input array `{pts[0]}` itself (no copy) in the function object: what is remembered for that point changes when the caller modifies the array in place, so a later value or Jacobian 'at the same point' is computed from the data of another point", node=(bad or [m])[0], stmt=f"no alias of {pts[0]} kept in self")
    ctx.floor("10.6-point-not-retained", 20)


def run(ctx: Ctx) -> None:
    check_purity(ctx)
    check_same_point(ctx)
    check_shapes(ctx)
    check_operator_agreement(ctx)
    check_aggregation(ctx)
    check_point_not_retained(ctx)
    # the normalised twin of a linear function is a composition (f o unnormalise): its coefficients and offset are
    # those of C01 rule 1.8
    from gv.props import c01
    from gv.props.c12 import _Prefixed

    c01.check_linear_normalize(_Prefixed(ctx, "10.5-normalised-linear/"))


# ---------------------------------------------------------------------------
WITNESSES = [
    {"name": "seeded-C10-11", "file": "core/mdo_functions/_operations.py", "old": "from numpy import add as _add\nfrom numpy import atleast_2d\nfrom numpy import ndarray\nfrom numpy import subtract as _subtract\nfrom numpy import tile\n\nif TYPE_CHECKING:\n    from gemseo.core.mdo_functions.mdo_function import MDOFunction\n    from gemseo.core.mdo_functions.mdo_function import OperatorType\n    from gemseo.core.mdo_functions.mdo_function import OutputType\n    from gemseo.typing import NumberArray\n\n\nclass _OperationFunctionMaker(metaclass=GoogleDocstringInheritanceMeta):\n    \"\"\"A helper to create a function applying an operation to another function.\"\"\"\n\n    __SUM_SUBTRACTION_PATTERN: Final[Pattern[str]] = re_compile(\n        r\"\"\"^([^\\(].*[+-].*[^\\)])$| # Sum/subtraction with one or many parentheses\n            ^(.+[+-].*[^\\)])$| # Sum/subtraction with one or many end parentheses\n            ^([^\\(].*[+-].+)$ # Sum/subtraction with one or many starting parentheses\"\"\"\n    )\n    \"\"\"The pattern used to search for a sum or subtraction in a function expression.\"\"\"\n\n    def __init__(\n        self,\n        cls: type[MDOFunction],\n        first_operand: MDOFunction,\n        second_operand: MDOFunction | ndarray | Number,\n        operator: OperatorType,\n        operator_repr: str,\n    ) -> None:\n        \"\"\"\n        Args:\n            cls: The type of :class:`.MDOFunction`.\n            first_operand: The other function or number.\n            second_operand: The operator as a function pointer.\n            operator: The operator.\n            operator_repr: The representation of the operator.\n\n        Raises:\n            TypeError: When the second operand is\n                neither an :class:`.MDOFunction` nor a ``Number``.\n            RuntimeError: When one operand expects normalized inputs\n                while the other does not.\n        \"\"\"  # noqa: D205, D212, D415\n        f_type = \"\"\n        expr = \"\"\n        input_names = []\n        jac = None\n        self._first_operand = first_operand\n        self._second_operand = second_operand\n        self._second_operand_is_number = isinstance(second_operand, (Number, ndarray))\n        self._second_operand_is_func = isinstance(second_operand, cls)\n        self._operator = operator\n        self._operator_repr = operator_repr\n        if not self._second_operand_is_number and not self._second_operand_is_func:\n            msg = (\n                f\"Unsupported {operator_repr} operator \"\n                f\"for MDOFunction and {type(self._second_operand)}.\"\n            )\n            raise TypeError(msg)\n\n        if (\n            self._second_operand_is_func\n            and self._first_operand.expects_normalized_inputs\n            != self._second_operand.expects_normalized_inputs\n        ):\n            msg = (\n                \"The operation cannot be performed because \"\n                \"one function expects normalized inputs \"\n                \"while the other does not.\"\n            )\n            raise RuntimeError(msg)\n\n        if self._second_operand_is_func:\n            self._second_operand_expr = self._second_operand.expr\n            self._second_operand_name = self._second_operand.name\n        else:\n            self._second_operand_expr = str(self._second_operand)\n            self._second_operand_name = self._second_operand_expr\n\n        if self._second_operand_is_func:\n            if self._first_operand.has_jac and self._second_operand.has_jac:\n                jac = self._compute_operation_jacobian\n\n            if self._first_operand.expr and self._second_operand.expr:\n                expr = self._compute_expr()\n\n            if self._first_operand.input_names and self._second_operand.input_names:\n                input_names = sorted(\n                    set(\n                        self._first_operand.input_names\n                        + self._second_operand.input_names\n                    )\n                )\n\n            if self._first_operand.f_type:\n                f_type = self._first_operand.f_type\n            elif self._second_operand.f_type:\n                f_type = self._second_operand.f_type\n\n        else:\n            input_names = self._first_operand.input_names\n            f_type = self._first_operand.f_type\n            if self._first_operand.expr:\n                expr = self._compute_expr()\n\n            if self._first_operand.has_jac:\n                jac = self._compute_operation_jacobian\n\n        self.function = cls(\n            self._compute_operation,\n            self._compute_name(),\n            f_type=f_type,\n            jac=jac,\n            expr=expr,\n            input_names=input_names,\n            dim=self._first_operand.dim,\n            output_names=self._first_operand.output_names,\n            original_name=first_operand.original_name\n            if self._second_operand_is_number\n            else \"\",\n            with_normalized_inputs=self._first_operand.expects_normalized_inputs,\n        )\n\n    @classmethod\n    def __rewrite_expression(cls, expression: str) -> str:\n        \"\"\"Add grouping parentheses to an expression.\n\n        The expression is modified only if it includes a sum or subtraction.\n\n        Args:\n            expression: The expression to be checked and potentially rewritten.\n\n        Returns:\n            The rewritten expression, if the original one included a sum or subtraction,\n            otherwise return the unchanged expression.\n        \"\"\"\n        is_sum_subtraction = bool(\n            search(\n                cls.__SUM_SUBTRACTION_PATTERN,\n                expression,\n            )\n        )\n        return f\"({expression})\" if is_sum_subtraction else expression\n\n    def _compute_expr(self) -> str:\n        \"\"\"Compute the string expression of the function.\n\n        Returns:\n            The string expression of the function.\n        \"\"\"\n        expr_1 = self._first_operand.expr\n        expr_2 = self._second_operand_expr\n        if self._operator_repr in {\"*\", \"/\"}:\n            expr_1 = self.__rewrite_expression(expr_1)\n            expr_2 = self.__rewrite_expression(expr_2)\n        elif self._operator_repr == \"-\":\n            expr_2 = self.__rewrite_expression(expr_2)\n        return self.get_string_representation(expr_1, self._operator_repr, expr_2)\n\n    def _compute_name(self) -> str:\n        \"\"\"Compute the name of the function.\n\n        Given two functions named ``\"f\"`` and ``\"g\"``,\n        the name of the function summing them will be ``\"[f+g]\"``.\n\n        Returns:\n            The name of the function.\n        \"\"\"\n        return self.get_string_representation(\n            self._first_operand.name,\n            self._operator_repr,\n            self._second_operand_name,\n            True,\n        )\n\n    def _compute_operation(self, input_value: NumberArray) -> OutputType:\n        \"\"\"Compute the result of the operation..\n\n        Args:\n            input_value: The input value.\n\n        Returns:\n            The result of the operation.\n        \"\"\"\n        second_operand = self._second_operand\n        if self._second_operand_is_func:\n            second_operand = second_operand.func(input_value)\n\n        return self._operator(self._first_operand.func(input_value), second_operand)\n\n    @abstractmethod\n    def _compute_operation_jacobian(self, input_value: NumberArray) -> OutputType:\n        \"\"\"Compute the Jacobian of the operation..\n\n        Args:\n            input_value: The input value.\n\n        Returns:\n            The Jacobian of the operation.\n        \"\"\"\n\n    @staticmethod\n    def get_string_representation(\n        operand_1: str,\n        operator: str,\n        operand_2: str | float,\n        use_brackets: bool = False,\n    ) -> str:\n        \"\"\"Return the string representation of an operation between two operands.\n\n        Args:\n            operand_1: The first operand.\n            operator: The operator applying to both operands.\n            operand_2: The second operand.\n            use_brackets: Whether to add brackets to the expression.\n\n        Returns:\n            The string expression of the sum of the operands.\n        \"\"\"\n        return (\n            f\"[{operand_1}{operator}{operand_2}]\"\n            if use_brackets\n            else f\"{operand_1}{operator}{operand_2}\"\n        )\n\n\nclass _AdditionFunctionMaker(_OperationFunctionMaker):\n    \"\"\"A helper to create a function summing a function with a constant or a function.\n\n    If the function operands have a Jacobian, the function will support automatic\n    differentiation.\n    \"\"\"\n\n    def __init__(\n        self,\n        cls: type[MDOFunction],\n        first_operand: MDOFunction,\n        second_operand: MDOFunction | Number,\n        inverse: bool = False,\n    ) -> None:\n        \"\"\"\n        Args:\n            inverse: Whether to apply the inverse operation, i.e. subtraction.\n        \"\"\"  # noqa: D205, D212, D415\n        super().__init__(\n            cls,\n            first_operand,\n            second_operand,\n            _subtract if inverse else _add,\n            \"-\" if inverse else \"+\",\n        )\n\n    def _compute_operation_jacobian(self, input_value: NumberArray) -> NumberArray:\n        if self._second_operand_is_number:\n            return self._first_operand._jac(input_value)\n\n        if self._operator_repr == \"+\":\n            return self._first_operand._jac(input_value) + self._second_operand._jac(\n                input_value\n            )\n        return self._first_operand._jac(input_value) - self._second_operand._jac(\n            input_value\n        )\n\n\nclass _MultiplicationFunctionMaker(_OperationFunctionMaker):\n    \"\"\"A helper to create a function multiplying a function by a number or a function.\n\n    If the function operands have a Jacobian, the function will support automatic\n    differentiation.\n    \"\"\"\n\n    def __init__(\n        self,\n        cls: type[MDOFunction],\n        first_operand: MDOFunction,\n        second_operand: MDOFunction | OutputType,\n        inverse: bool = False,\n    ) -> None:\n        \"\"\"\n        Args:\n            inverse: Whether to apply the inverse operation, i.e. subtraction.\n        \"\"\"  # noqa: D205, D212, D415\n        super().__init__(\n            cls,\n            first_operand,\n            second_operand,\n            numpy.divide if inverse else numpy.multiply,\n            \"/\" if inverse else \"*\",\n        )\n\n    def _compute_expr(self) -> str:\n        if self._second_operand_is_number and self._operator == numpy.multiply:\n            return (\n                self._second_operand_expr\n                + self._operator_repr\n                + self._first_operand.expr\n            )\n\n        return super()._compute_expr()\n\n    def _compute_name(self) -> str:\n        if self._second_operand_is_number and self._operator == numpy.multiply:\n            return (\n                self._second_operand_name\n                + self._operator_repr\n                + self._first_operand.name\n            )\n\n        return super()._compute_name()\n\n    def _compute_operation_jacobian(self, input_value: NumberArray) -> NumberArray:\n        first_jac = self._first_operand._jac(input_value)\n        if self._second_operand_is_number:\n            if not isinstance(self._second_operand, ndarray):\n                return self._operator(first_jac, self._second_operand)\n\n            return self._operator(\n                first_jac,\n                tile(self._second_operand, (atleast_2d(first_jac).shape[1], 1)).T,\n            )\n\n        first_func = self._first_operand.func(input_value)\n        second_func = self._second_operand.func(input_value)\n        second_jac = self._second_operand._jac(input_value)\n", "new": "from numpy import add as _add\nfrom numpy import array_equal\nfrom numpy import atleast_2d\nfrom numpy import ndarray\nfrom numpy import subtract as _subtract\nfrom numpy import tile\n\nif TYPE_CHECKING:\n    from gemseo.core.mdo_functions.mdo_function import MDOFunction\n    from gemseo.core.mdo_functions.mdo_function import OperatorType\n    from gemseo.core.mdo_functions.mdo_function import OutputType\n    from gemseo.typing import NumberArray\n\n\nclass _OperationFunctionMaker(metaclass=GoogleDocstringInheritanceMeta):\n    \"\"\"A helper to create a function applying an operation to another function.\"\"\"\n\n    __SUM_SUBTRACTION_PATTERN: Final[Pattern[str]] = re_compile(\n        r\"\"\"^([^\\(].*[+-].*[^\\)])$| # Sum/subtraction with one or many parentheses\n            ^(.+[+-].*[^\\)])$| # Sum/subtraction with one or many end parentheses\n            ^([^\\(].*[+-].+)$ # Sum/subtraction with one or many starting parentheses\"\"\"\n    )\n    \"\"\"The pattern used to search for a sum or subtraction in a function expression.\"\"\"\n\n    def __init__(\n        self,\n        cls: type[MDOFunction],\n        first_operand: MDOFunction,\n        second_operand: MDOFunction | ndarray | Number,\n        operator: OperatorType,\n        operator_repr: str,\n    ) -> None:\n        \"\"\"\n        Args:\n            cls: The type of :class:`.MDOFunction`.\n            first_operand: The other function or number.\n            second_operand: The operator as a function pointer.\n            operator: The operator.\n            operator_repr: The representation of the operator.\n\n        Raises:\n            TypeError: When the second operand is\n                neither an :class:`.MDOFunction` nor a ``Number``.\n            RuntimeError: When one operand expects normalized inputs\n                while the other does not.\n        \"\"\"  # noqa: D205, D212, D415\n        f_type = \"\"\n        expr = \"\"\n        input_names = []\n        jac = None\n        self._first_operand = first_operand\n        self._second_operand = second_operand\n        self._second_operand_is_number = isinstance(second_operand, (Number, ndarray))\n        self._second_operand_is_func = isinstance(second_operand, cls)\n        self._operator = operator\n        self._operator_repr = operator_repr\n        self._last_input_value = None\n        self._last_operand_values = None\n        if not self._second_operand_is_number and not self._second_operand_is_func:\n            msg = (\n                f\"Unsupported {operator_repr} operator \"\n                f\"for MDOFunction and {type(self._second_operand)}.\"\n            )\n            raise TypeError(msg)\n\n        if (\n            self._second_operand_is_func\n            and self._first_operand.expects_normalized_inputs\n            != self._second_operand.expects_normalized_inputs\n        ):\n            msg = (\n                \"The operation cannot be performed because \"\n                \"one function expects normalized inputs \"\n                \"while the other does not.\"\n            )\n            raise RuntimeError(msg)\n\n        if self._second_operand_is_func:\n            self._second_operand_expr = self._second_operand.expr\n            self._second_operand_name = self._second_operand.name\n        else:\n            self._second_operand_expr = str(self._second_operand)\n            self._second_operand_name = self._second_operand_expr\n\n        if self._second_operand_is_func:\n            if self._first_operand.has_jac and self._second_operand.has_jac:\n                jac = self._compute_operation_jacobian\n\n            if self._first_operand.expr and self._second_operand.expr:\n                expr = self._compute_expr()\n\n            if self._first_operand.input_names and self._second_operand.input_names:\n                input_names = sorted(\n                    set(\n                        self._first_operand.input_names\n                        + self._second_operand.input_names\n                    )\n                )\n\n            if self._first_operand.f_type:\n                f_type = self._first_operand.f_type\n            elif self._second_operand.f_type:\n                f_type = self._second_operand.f_type\n\n        else:\n            input_names = self._first_operand.input_names\n            f_type = self._first_operand.f_type\n            if self._first_operand.expr:\n                expr = self._compute_expr()\n\n            if self._first_operand.has_jac:\n                jac = self._compute_operation_jacobian\n\n        self.function = cls(\n            self._compute_operation,\n            self._compute_name(),\n            f_type=f_type,\n            jac=jac,\n            expr=expr,\n            input_names=input_names,\n            dim=self._first_operand.dim,\n            output_names=self._first_operand.output_names,\n            original_name=first_operand.original_name\n            if self._second_operand_is_number\n            else \"\",\n            with_normalized_inputs=self._first_operand.expects_normalized_inputs,\n        )\n\n    @classmethod\n    def __rewrite_expression(cls, expression: str) -> str:\n        \"\"\"Add grouping parentheses to an expression.\n\n        The expression is modified only if it includes a sum or subtraction.\n\n        Args:\n            expression: The expression to be checked and potentially rewritten.\n\n        Returns:\n            The rewritten expression, if the original one included a sum or subtraction,\n            otherwise return the unchanged expression.\n        \"\"\"\n        is_sum_subtraction = bool(\n            search(\n                cls.__SUM_SUBTRACTION_PATTERN,\n                expression,\n            )\n        )\n        return f\"({expression})\" if is_sum_subtraction else expression\n\n    def _compute_expr(self) -> str:\n        \"\"\"Compute the string expression of the function.\n\n        Returns:\n            The string expression of the function.\n        \"\"\"\n        expr_1 = self._first_operand.expr\n        expr_2 = self._second_operand_expr\n        if self._operator_repr in {\"*\", \"/\"}:\n            expr_1 = self.__rewrite_expression(expr_1)\n            expr_2 = self.__rewrite_expression(expr_2)\n        elif self._operator_repr == \"-\":\n            expr_2 = self.__rewrite_expression(expr_2)\n        return self.get_string_representation(expr_1, self._operator_repr, expr_2)\n\n    def _compute_name(self) -> str:\n        \"\"\"Compute the name of the function.\n\n        Given two functions named ``\"f\"`` and ``\"g\"``,\n        the name of the function summing them will be ``\"[f+g]\"``.\n\n        Returns:\n            The name of the function.\n        \"\"\"\n        return self.get_string_representation(\n            self._first_operand.name,\n            self._operator_repr,\n            self._second_operand_name,\n            True,\n        )\n\n    def _compute_operation(self, input_value: NumberArray) -> OutputType:\n        \"\"\"Compute the result of the operation..\n\n        Args:\n            input_value: The input value.\n\n        Returns:\n            The result of the operation.\n        \"\"\"\n        second_operand = self._second_operand\n        if self._second_operand_is_func:\n            second_operand = second_operand.func(input_value)\n\n        first_operand = self._first_operand.func(input_value)\n        # Keep the values of the operands to avoid evaluating them again\n        # when the Jacobian is requested at the same point.\n        self._last_input_value = input_value\n        self._last_operand_values = (first_operand, second_operand)\n        return self._operator(first_operand, second_operand)\n\n    def _get_operand_values(\n        self, input_value: NumberArray\n    ) -> tuple[OutputType, OutputType]:\n        \"\"\"Return the values of the operands when both are functions.\n\n        The values computed at the last evaluation are reused\n        if the input value has not changed.\n\n        Args:\n            input_value: The input value.\n\n        Returns:\n            The value of the first operand and the value of the second one.\n        \"\"\"\n        if self._last_operand_values is not None and array_equal(\n            self._last_input_value, input_value\n        ):\n            return self._last_operand_values\n\n        return (\n            self._first_operand.func(input_value),\n            self._second_operand.func(input_value),\n        )\n\n    @abstractmethod\n    def _compute_operation_jacobian(self, input_value: NumberArray) -> OutputType:\n        \"\"\"Compute the Jacobian of the operation..\n\n        Args:\n            input_value: The input value.\n\n        Returns:\n            The Jacobian of the operation.\n        \"\"\"\n\n    @staticmethod\n    def get_string_representation(\n        operand_1: str,\n        operator: str,\n        operand_2: str | float,\n        use_brackets: bool = False,\n    ) -> str:\n        \"\"\"Return the string representation of an operation between two operands.\n\n        Args:\n            operand_1: The first operand.\n            operator: The operator applying to both operands.\n            operand_2: The second operand.\n            use_brackets: Whether to add brackets to the expression.\n\n        Returns:\n            The string expression of the sum of the operands.\n        \"\"\"\n        return (\n            f\"[{operand_1}{operator}{operand_2}]\"\n            if use_brackets\n            else f\"{operand_1}{operator}{operand_2}\"\n        )\n\n\nclass _AdditionFunctionMaker(_OperationFunctionMaker):\n    \"\"\"A helper to create a function summing a function with a constant or a function.\n\n    If the function operands have a Jacobian, the function will support automatic\n    differentiation.\n    \"\"\"\n\n    def __init__(\n        self,\n        cls: type[MDOFunction],\n        first_operand: MDOFunction,\n        second_operand: MDOFunction | Number,\n        inverse: bool = False,\n    ) -> None:\n        \"\"\"\n        Args:\n            inverse: Whether to apply the inverse operation, i.e. subtraction.\n        \"\"\"  # noqa: D205, D212, D415\n        super().__init__(\n            cls,\n            first_operand,\n            second_operand,\n            _subtract if inverse else _add,\n            \"-\" if inverse else \"+\",\n        )\n\n    def _compute_operation_jacobian(self, input_value: NumberArray) -> NumberArray:\n        if self._second_operand_is_number:\n            return self._first_operand._jac(input_value)\n\n        if self._operator_repr == \"+\":\n            return self._first_operand._jac(input_value) + self._second_operand._jac(\n                input_value\n            )\n        return self._first_operand._jac(input_value) - self._second_operand._jac(\n            input_value\n        )\n\n\nclass _MultiplicationFunctionMaker(_OperationFunctionMaker):\n    \"\"\"A helper to create a function multiplying a function by a number or a function.\n\n    If the function operands have a Jacobian, the function will support automatic\n    differentiation.\n    \"\"\"\n\n    def __init__(\n        self,\n        cls: type[MDOFunction],\n        first_operand: MDOFunction,\n        second_operand: MDOFunction | OutputType,\n        inverse: bool = False,\n    ) -> None:\n        \"\"\"\n        Args:\n            inverse: Whether to apply the inverse operation, i.e. subtraction.\n        \"\"\"  # noqa: D205, D212, D415\n        super().__init__(\n            cls,\n            first_operand,\n            second_operand,\n            numpy.divide if inverse else numpy.multiply,\n            \"/\" if inverse else \"*\",\n        )\n\n    def _compute_expr(self) -> str:\n        if self._second_operand_is_number and self._operator == numpy.multiply:\n            return (\n                self._second_operand_expr\n                + self._operator_repr\n                + self._first_operand.expr\n            )\n\n        return super()._compute_expr()\n\n    def _compute_name(self) -> str:\n        if self._second_operand_is_number and self._operator == numpy.multiply:\n            return (\n                self._second_operand_name\n                + self._operator_repr\n                + self._first_operand.name\n            )\n\n        return super()._compute_name()\n\n    def _compute_operation_jacobian(self, input_value: NumberArray) -> NumberArray:\n        first_jac = self._first_operand._jac(input_value)\n        if self._second_operand_is_number:\n            if not isinstance(self._second_operand, ndarray):\n                return self._operator(first_jac, self._second_operand)\n\n            return self._operator(\n                first_jac,\n                tile(self._second_operand, (atleast_2d(first_jac).shape[1], 1)).T,\n            )\n\n        first_func, second_func = self._get_operand_values(input_value)\n        second_jac = self._second_operand._jac(input_value)\n", "expect": "10.", "note": "Product/quotient Jacobian reuses operand values cached with a reference to the i"},
    {"name": "scalar-gradient-not-promoted", "file": OPS, "old": "        if numpy.ndim(first_jac) != numpy.ndim(second_jac):\n            # A scalar function (1D gradient) combined with a vectorial one.\n            first_jac, second_jac = atleast_2d(first_jac), atleast_2d(second_jac)\n", "new": "", "expect": "10.2"},
    {"name": "ks-scales-in-place", "file": AGG, "old": "    orig_val = orig_val * scale\n", "new": "    orig_val *= scale\n", "nth": 0, "expect": "10.1"},
    {"name": "jac-scaled-in-place", "file": AGG, "old": "    orig_jac = (orig_jac.T * scale).T\n", "new": "    orig_jac *= scale\n", "nth": 0, "expect": "10.1"},
    {"name": "jac-scaled-along-inputs", "file": AGG, "old": "    orig_jac = (orig_jac.T * scale).T\n", "new": "    orig_jac = orig_jac * scale\n", "nth": 1, "expect": "10.2"},
    {"name": "jac-weights-from-unscaled-values", "file": AGG, "old": "    orig_jac = (orig_jac.T * scale).T\n    orig_val = orig_val * scale\n\n    m = max(orig_val)\n    div =", "new": "    orig_jac = (orig_jac.T * scale).T\n\n    m = max(orig_val)\n    div =", "expect": "10.4"},
    {"name": "partial-jac-without-chain-factor", "file": AGG, "old": "    der = atleast_2d(multiply(weights, scale))", "new": "    der = atleast_2d(weights)", "expect": "10.4"},
    {"name": "max-jac-of-unscaled-rows", "file": AGG, "old": "    orig_jac = (orig_jac.T * scale).T\n    orig_val = orig_val * scale\n    i_max", "new": "    orig_val = orig_val * scale\n    i_max", "expect": "10.4"},
    {"name": "linear-normalize-aliases-sparse-coefficients", "file": "core/mdo_functions/mdo_linear_function.py", "old": "            coefficients = deepcopy(self.coefficients)\n", "new": "            coefficients = self.coefficients.tocsr()\n", "expect": "10.1"},
    {"name": "convex-approx-writes-into-operand-jacobian", "file": "core/mdo_functions/convex_linear_approx.py", "old": "        value = atleast_2d(self.__mdo_function.jac(merged_vect)).copy()\n", "new": "        value = atleast_2d(self.__mdo_function.jac(merged_vect))\n", "expect": "10.1"},
    {"name": "item-assignment-into-operand", "file": AGG, "old": "    alpha = len(orig_val)\n", "new": "    alpha = len(orig_val)\n    orig_val[0] = orig_val[0] + 0.0\n", "expect": "10.1"},
    {"name": "in-place-through-view", "file": AGG, "old": "    alpha = len(orig_val)\n", "new": "    alpha = len(orig_val)\n    view = atleast_2d(orig_val)\n    view *= 1.0\n", "expect": "10.1"},
    {"name": "out-argument-is-operand", "file": AGG, "old": "    alpha = len(orig_val)\n", "new": "    alpha = len(orig_val)\n    multiply(orig_val, 1.0, out=orig_val)\n", "expect": "10.1"},
    {"name": "plain-broadcast-product-rule", "file": OPS, "old": "            return (first_jac_t * second_func + second_jac_t * first_func).T", "new": "            return first_jac * second_func + second_jac * first_func", "expect": "10.2"},
    {"name": "tile-without-transpose", "file": OPS, "old": "                tile(self._second_operand, (atleast_2d(first_jac).shape[1], 1)).T,", "new": "                tile(self._second_operand, (atleast_2d(first_jac).shape[1], 1)),", "expect": "10.2"},
    {"name": "linear-composite-transposed", "file": LCF, "old": "return self._function.jac(self._matrix.dot(x_vect)).dot(self._matrix)", "new": "return self._matrix.T.dot(self._function.jac(self._matrix.dot(x_vect)))", "expect": "10.2"},
    {"name": "linear-composite-jac-at-x", "file": LCF, "old": "return self._function.jac(self._matrix.dot(x_vect)).dot(self._matrix)", "new": "return self._function.jac(x_vect).dot(self._matrix)", "expect": "10."},
    {"name": "restriction-selects-rows", "file": FRS, "old": "        return self.__mdo_function.jac(self.__extend_subvect(x_subvect))[\n            ..., self._active_indexes\n        ]", "new": "        return self.__mdo_function.jac(self.__extend_subvect(x_subvect))[\n            self._active_indexes, ...\n        ]", "expect": "10.2"},
    {"name": "subtraction-derivative-added", "file": OPS, "old": "        return self._first_operand._jac(input_value) - self._second_operand._jac(\n            input_value\n        )", "new": "        return self._first_operand._jac(input_value) + self._second_operand._jac(\n            input_value\n        )", "expect": "10.3"},
    {"name": "flags-disagree", "file": OPS, "old": "            _subtract if inverse else _add,\n            \"-\" if inverse else \"+\",", "new": "            _subtract if inverse else _add,\n            \"+\" if inverse else \"-\",", "expect": "10.3"},
    {"name": "product-rule-pairs-own-value", "file": OPS, "old": "            return (first_jac_t * second_func + second_jac_t * first_func).T", "new": "            return (first_jac_t * first_func + second_jac_t * second_func).T", "expect": "10.3"},
    {"name": "quotient-rule-sign", "file": OPS, "old": "            (first_jac_t * second_func - second_jac_t * first_func) / second_func**2", "new": "            (first_jac_t * second_func + second_jac_t * first_func) / second_func**2", "expect": "10.3"},
    {"name": "quotient-rule-denominator", "file": OPS, "old": "            (first_jac_t * second_func - second_jac_t * first_func) / second_func**2", "new": "            (first_jac_t * second_func - second_jac_t * first_func) / second_func", "expect": "10.3"},
    {"name": "number-branch-multiplies-always", "file": OPS, "old": "                return self._operator(first_jac, self._second_operand)", "new": "                return numpy.multiply(first_jac, self._second_operand)", "expect": "10.3"},
    {"name": "value-operands-swapped", "file": OPS, "old": "        return self._operator(self._first_operand.func(input_value), second_operand)", "new": "        return self._operator(second_operand, self._first_operand.func(input_value))", "expect": "10.3"},
]
TWINS = [
    {"name": "jac-scaled-commuted", "file": AGG, "old": "    orig_jac = (orig_jac.T * scale).T\n", "new": "    orig_jac = (scale * orig_jac.T).T\n", "nth": 0},
    {"name": "convex-approx-copies-with-array", "file": "core/mdo_functions/convex_linear_approx.py", "old": "        value = atleast_2d(self.__mdo_function.jac(merged_vect)).copy()\n", "new": "        value = array(self.__mdo_function.jac(merged_vect), ndmin=2)\n"},
    {"name": "fresh-copy-then-in-place", "file": AGG, "old": "    orig_val = orig_val * scale\n", "new": "    orig_val = orig_val.copy()\n    orig_val *= scale\n", "nth": 0},
    {"name": "product-terms-swapped", "file": OPS, "old": "            return (first_jac_t * second_func + second_jac_t * first_func).T", "new": "            return (second_jac_t * first_func + second_func * first_jac_t).T"},
    {"name": "transpose-attribute", "file": OPS, "old": "        first_jac_t = numpy.transpose(first_jac)", "new": "        first_jac_t = first_jac.T"},
]
