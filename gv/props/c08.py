"""C08 -- execution sequences respect data dependencies (orientation and delegation)."""

from __future__ import annotations

import ast

from gv import rules
from gv.astutil import compare_parts
from gv.astutil import const_value
from gv.astutil import dotted
from gv.astutil import flip_cmp
from gv.astutil import kwarg
from gv.astutil import last_attr
from gv.astutil import names_in
from gv.astutil import mangle
from gv.astutil import norm_stmt
from gv.astutil import stmts_of
from gv.astutil import unparse
from gv.astutil import walk_body
from gv.cfg import cfg_of
from gv.props import describe
from gv.props.shared import accumulated_lists
from gv.props.shared import branch_conditions
from gv.props.shared import unfolded
from gv.report import Ctx
from gv.report import cname

DG = "core/dependency_graph.py"
CS = "core/coupling_structure.py"
CH = "core/chains/chain.py"
MC = "mda/mda_chain.py"
MD = "core/derivatives/mda_derivatives.py"

describe(
    "C08",
    explanation=(
        "Equality of the composed execution with the monolithic evaluation is NOT decided. Decided: the "
        "orientation parity of the three sites that together make producers run before consumers (edge "
        "direction x peeled degree x final reversal); the delegation of grouping to networkx strongly connected "
        "components (trusted); every group scheduled once (stages built from, and only from, the peeled "
        "nodes); chains propagate data in sequence order; the three definitions of 'needs an MDA' agree."
    ),
    decided=["8.1 orientation parity", "8.2 SCC delegation (trusted)", "8.3 every discipline once", "8.4 chains follow the sequence", "8.5 one definition of 'needs an MDA'", "8.6 initialisation order credits a discipline with its own defaults only", "8.9 data forwarded by a chain after a cache hit (rule 5.14 of C05)"],
    not_decided=["equality with the monolithic evaluation of the whole system"],
    trusted=["networkx.strongly_connected_components and networkx.condensation"],
)


def _member_kind(func: ast.AST, loop: ast.For, e: ast.AST, all_nodes: set[str], _depth: int = 0) -> tuple | None:
    """How the expression ``e`` (inside ``for C in ...``) holds the members of the component ``C``:

    ``("perm",)`` an iterable holding each member exactly once, in some order (``C``, ``sorted(C, key=...)``, ``[m for m in C]``,
    the values of a map, ``[D[k] for k in sorted(D)]``, the graph's node list filtered by membership in ``C``);
    ``("pairs", k)`` tuples whose k-th items are such a permutation (``(key(m), m) for m in C``, ``D.items()``);
    ``("map", D)`` / ``("keys", D)`` a dict ``D`` whose values are such a permutation (one entry per member, keys distinct for
    distinct members: ``{key(m): m for m in C}`` or the loop ``for m in C: D[key(m)] = m``), resp. its keys.  None: unknown.
    """
    if _depth > 8:
        return None
    comp = dotted(loop.target)
    rec = lambda x: _member_kind(func, loop, x, all_nodes, _depth + 1)  # noqa: E731
    # order / container changes keep the elements
    while isinstance(e, ast.Call) and dotted(e.func) in ("sorted", "list", "tuple", "reversed", "iter") and len(e.args) == 1:
        e = e.args[0]
    if isinstance(e, ast.Name):
        if e.id == comp:
            return ("perm",)
        top = [s_ for s_ in loop.body if any(isinstance(n_, ast.Name) and n_.id == e.id and isinstance(n_.ctx, ast.Store) for n_ in ast.walk(s_))]
        stores = [s_ for s_ in ast.walk(loop) if isinstance(s_, ast.stmt) and not isinstance(s_, (ast.For, ast.While, ast.If, ast.With, ast.Try)) and any(dotted(t_) == e.id or (isinstance(t_, ast.Subscript) and dotted(t_.value) == e.id) for t_ in (s_.targets if isinstance(s_, ast.Assign) else [getattr(s_, "target", None)]) if t_ is not None)]
        mut = [c for c in ast.walk(loop) if isinstance(c, ast.Call) and isinstance(c.func, ast.Attribute) and dotted(c.func.value) == e.id and c.func.attr in ("pop", "popitem", "clear", "update", "setdefault", "remove", "append", "extend", "insert")] + [d_ for d_ in ast.walk(loop) if isinstance(d_, ast.Delete) and any(e.id in names_in(t_) for t_ in d_.targets)]
        if mut or len(top) != 1 or not isinstance(top[0], ast.Assign) or len(top[0].targets) != 1:
            return None
        val = top[0].value
        if isinstance(val, ast.DictComp) and len(stores) == 1:
            g_ = val.generators[0]
            if len(val.generators) == 1 and not g_.ifs and isinstance(g_.target, ast.Name) and rec(g_.iter) == ("perm",) and dotted(val.value) == g_.target.id and g_.target.id in names_in(val.key):
                return ("map", e.id)
            return None
        empty = (isinstance(val, ast.Dict) and not val.keys) or (isinstance(val, ast.Call) and dotted(val.func) == "dict" and not val.args and not val.keywords)
        if empty and len(stores) == 2:
            # D = {}; for m in C: [k = key(m);] D[k] = m   -- every iteration stores its member under its own key
            fill = [s_ for s_ in stores if s_ is not top[0]][0]
            fl = [s_ for s_ in loop.body if isinstance(s_, ast.For) and any(sub is fill for sub in s_.body)]
            if len(fl) == 1 and isinstance(fill, ast.Assign) and isinstance(fill.targets[0], ast.Subscript) and isinstance(fl[0].target, ast.Name) and not fl[0].orelse and rec(fl[0].iter) == ("perm",) and not any(isinstance(x, (ast.If, ast.Continue, ast.Break, ast.Try, ast.While)) for x in ast.walk(fl[0])):
                m_ = fl[0].target.id
                keys = unfolded(func, fill.targets[0].slice) or [fill.targets[0].slice]
                if dotted(fill.value) == m_ and all(m_ in names_in(k_) for k_ in keys) and loop.body.index(top[0]) < loop.body.index(fl[0]):
                    return ("map", e.id)
            return None
        return rec(val) if len(stores) == 1 else None
    if isinstance(e, ast.Call) and isinstance(e.func, ast.Attribute) and e.func.attr in ("values", "keys", "items") and not e.args:
        k_ = rec(e.func.value)
        if k_ and k_[0] == "map":
            return {"values": ("perm",), "keys": ("keys", k_[1]), "items": ("pairs", 1)}[e.func.attr]
        return None
    if isinstance(e, (ast.ListComp, ast.GeneratorExp)) and len(e.generators) == 1:
        g_ = e.generators[0]
        if g_.ifs:
            # the nodes of the graph that are in the component, in graph order (the components partition those nodes)
            its = unfolded(func, g_.iter) or [g_.iter]
            cp = compare_parts(g_.ifs[0]) if len(g_.ifs) == 1 else None
            if cp and cp[1] is ast.In and isinstance(g_.target, ast.Name) and dotted(cp[0]) == g_.target.id and dotted(cp[2]) == comp and dotted(e.elt) == g_.target.id and all(norm_stmt(i_) in all_nodes for i_ in its):
                return ("perm",)
            return None
        src = rec(g_.iter)
        if src is None:
            return None
        if src[0] == "map":
            src = ("keys", src[1])
        if src == ("perm",) and isinstance(g_.target, ast.Name):
            if dotted(e.elt) == g_.target.id:
                return ("perm",)
            if isinstance(e.elt, ast.Tuple):
                at = [i for i, x in enumerate(e.elt.elts) if dotted(x) == g_.target.id]
                return ("pairs", at[0]) if len(at) >= 1 else None
            return None
        if src[0] == "keys" and isinstance(g_.target, ast.Name):
            if dotted(e.elt) == g_.target.id:
                return src
            if isinstance(e.elt, ast.Subscript) and dotted(e.elt.value) == src[1] and dotted(e.elt.slice) == g_.target.id:
                return ("perm",)
            return None
        if src[0] == "pairs" and isinstance(g_.target, ast.Tuple) and len(g_.target.elts) > src[1] and isinstance(g_.target.elts[src[1]], ast.Name):
            w = g_.target.elts[src[1]].id
            if dotted(e.elt) == w and w != "_":
                return ("perm",)
            return None
    return None


def check_orientation(ctx: Ctx) -> None:
    # site 1: edge direction
    f = ctx.index.method(DG, "DependencyGraph", "__create_graph")
    con1 = cname(DG, "DependencyGraph", "__create_graph")
    # loops: for disc_i, (_, outputs_i) ...: for disc_j, (inputs_j, _) ...
    # (the pair is unpacked in the loop header, or bound to a name and indexed: `for d, ios in ...: ios[1]`)
    loops = [s for s in stmts_of(f) if isinstance(s, ast.For) and isinstance(s.target, ast.Tuple) and len(s.target.elts) == 2 and isinstance(s.target.elts[0], ast.Name) and isinstance(s.target.elts[1], (ast.Tuple, ast.Name)) and isinstance(s.iter, ast.Call) and last_attr(s.iter) == "items"]
    ctx.need(len(loops) == 2, "__create_graph: the two loops over (discipline, (inputs, outputs)) were not found")
    # nodes_to_ios[disc] = (inputs, outputs): find the order of the tuple
    # (the map is built by a loop `nodes_to_ios[disc] = (...)` or by a dict comprehension `{disc: (...) for disc in ...}`)
    pairs = [(s.value, next((dotted(s_.target) for s_ in stmts_of(f) if isinstance(s_, ast.For) and s in list(ast.walk(s_))), None), s) for s in stmts_of(f) if isinstance(s, ast.Assign) and isinstance(s.targets[0], ast.Subscript) and isinstance(s.value, ast.Tuple) and len(s.value.elts) == 2]
    pairs += [(s.value.value, dotted(s.value.generators[0].target), s) for s in stmts_of(f) if isinstance(s, ast.Assign) and isinstance(s.value, ast.DictComp) and isinstance(s.value.value, ast.Tuple) and len(s.value.value.elts) == 2 and len(s.value.generators) == 1]
    ctx.need(len(pairs) == 1, "__create_graph: nodes_to_ios[disc] = (inputs, outputs) not found")
    tup, dv, st0 = pairs[0]
    dv = dv or "disc"
    st = [st0]
    order = ["in" if "input_grammar" in unparse(e) else ("out" if "output_grammar" in unparse(e) else "?") for e in tup.elts]
    ctx.need(sorted(order) == ["in", "out"], "__create_graph: the (inputs, outputs) tuple is not built from the grammars")
    # all the names of each grammar take part: an optional input with a default is a dependency as well
    for e, side in zip(tup.elts, order):
        g = f"{dv}.io.{'input' if side == 'in' else 'output'}_grammar"
        accepted = {f"set({g})", f"set({g}.names)", f"set({g}.keys())", f"{g}.names", f"{g}.keys()", f"frozenset({g})", f"set({g}.names_without_namespace)"}
        ctx.ob("8.1-edge", con1, norm_stmt(e) in accepted, f"the {side}put side of the dependency graph must be every name of the {side}put grammar; `{norm_stmt(e)}` leaves names out (e.g. optional inputs), so a consumer can be scheduled before or beside its producer", node=e, stmt=f"all {side}put names of the grammar")
    role = {}  # variable name -> (discipline var, 'in'|'out')
    for lp in loops:
        d = lp.target.elts[0].id
        if isinstance(lp.target.elts[1], ast.Name):
            pair = lp.target.elts[1].id
            for pos in (0, 1):
                role[f"{pair}[{pos}]"] = (d, order[pos])
            for s_ in ast.walk(lp):
                if isinstance(s_, ast.Assign) and len(s_.targets) == 1 and isinstance(s_.targets[0], ast.Name) and isinstance(s_.value, ast.Subscript) and dotted(s_.value.value) == pair and const_value(s_.value.slice) in (0, 1, -1, -2):
                    role[s_.targets[0].id] = (d, order[const_value(s_.value.slice) % 2])
            continue
        for pos, e in enumerate(lp.target.elts[1].elts):
            if isinstance(e, ast.Name) and e.id != "_":
                role[e.id] = (d, order[pos])
    inter = [s for s in stmts_of(f) if isinstance(s, ast.Assign) and isinstance(s.value, ast.BinOp) and isinstance(s.value.op, ast.BitAnd)]
    ctx.need(len(inter) == 1, "__create_graph: coupled_io = outputs & inputs not found")
    opnd = lambda e_: f"{dotted(e_.value)}[{const_value(e_.slice) % 2}]" if isinstance(e_, ast.Subscript) and isinstance(const_value(e_.slice), int) else dotted(e_)  # noqa: E731
    a, b = opnd(inter[0].value.left), opnd(inter[0].value.right)
    ctx.need(a in role and b in role, "__create_graph: operands of the intersection are not the unpacked grammars")
    producer = role[a][0] if role[a][1] == "out" else (role[b][0] if role[b][1] == "out" else None)
    consumer = role[a][0] if role[a][1] == "in" else (role[b][0] if role[b][1] == "in" else None)
    ok_pair = producer is not None and consumer is not None and producer != consumer
    ctx.ob("8.1-edge", con1, ok_pair, "an edge is labelled with the outputs of one discipline that are inputs of another: the intersection must pair outputs of one loop discipline with inputs of the other", node=inter[0])
    # the add_edge call
    alias = {dotted(s.targets[0]): dotted(s.value) for s in stmts_of(f) if isinstance(s, ast.Assign) and (dotted(s.value) or "").endswith(".add_edge")}
    edges = [c for c in walk_body(f) if isinstance(c, ast.Call) and (last_attr(c) == "add_edge" or dotted(c.func) in alias)]
    ctx.need(len(edges) == 1 and len(edges[0].args) >= 2, "__create_graph: add_edge call not found")
    src, dst = dotted(edges[0].args[0]), dotted(edges[0].args[1])
    s1 = 1 if (src, dst) == (producer, consumer) else (-1 if (src, dst) == (consumer, producer) else 0)
    ctx.ob("8.1-edge", con1, s1 != 0, "the edge must join the producing and the consuming discipline of the shared variables", node=edges[0], stmt="edge joins producer and consumer")
    io_kw = [k for k in edges[0].keywords if k.arg == "io"]
    if not io_kw:
        # **{DependencyGraph.IO: names} / **{"io": names}
        for k in edges[0].keywords:
            if k.arg is None and isinstance(k.value, ast.Dict) and len(k.value.keys) == 1 and (const_value(k.value.keys[0]) == "io" or (dotted(k.value.keys[0]) or "").endswith(".IO")):
                io_kw = [ast.keyword(arg="io", value=k.value.values[0])]
    ctx.ob("8.1-edge", con1, len(io_kw) == 1 and dotted(io_kw[0].value) == dotted(inter[0].targets[0]), "the edge must carry the shared variable names", node=edges[0], stmt="edge labelled with the shared names")
    cfg = cfg_of(f)
    conds = branch_conditions(cfg, cfg.node_of(edges[0]))
    tests = [norm_stmt(cfg.ast[t].test) for t, v in conds if v and cfg.kind[t] == "test"]
    ok = dotted(inter[0].targets[0]) in tests
    ctx.ob("8.1-edge", con1, ok, "an edge is created iff the two disciplines share at least one variable", node=edges[0], stmt="edge iff shared names non-empty")
    # site 2: peeled degree
    g = ctx.index.method(DG, "DependencyGraph", "__get_leaves")
    con2 = cname(DG, "DependencyGraph", "__get_leaves")
    # the degree of a node, however it is read: `G.out_degree(n)`, `G.out_degree[n]`, the pairs of the degree view
    # (`for n, d in G.out_degree()` / `in G.out_degree`), or the adjacency itself (`G.succ[n]`, `G.pred[n]`: empty iff degree 0)
    direction = {"out_degree": -1, "in_degree": 1, "succ": -1, "adj": -1, "pred": 1}
    is_view = lambda e_: (isinstance(e_, ast.Attribute) and e_.attr in direction) or (isinstance(e_, ast.Call) and not e_.args and not e_.keywords and isinstance(e_.func, ast.Attribute) and e_.func.attr in ("out_degree", "in_degree"))  # noqa: E731
    view_attr = lambda e_: e_.attr if isinstance(e_, ast.Attribute) else e_.func.attr  # noqa: E731
    degs = []  # (sign, kind 'number'|'mapping', matches(expr), selected node variable or None, anchor)
    for c in walk_body(g):
        if isinstance(c, ast.Call) and last_attr(c) in ("out_degree", "in_degree") and len(c.args) == 1:
            degs.append((direction[last_attr(c)], "number", (lambda x, c=c: x is c), None, c))
        elif isinstance(c, ast.Subscript) and is_view(c.value):
            a_ = view_attr(c.value)
            degs.append((direction[a_], "number" if a_.endswith("degree") else "mapping", (lambda x, c=c: x is c), None, c))
        elif isinstance(c, (ast.ListComp, ast.GeneratorExp, ast.SetComp)) or isinstance(c, ast.For):
            for it, tg in [(g_.iter, g_.target) for g_ in c.generators] if not isinstance(c, ast.For) else [(c.iter, c.target)]:
                if is_view(it) and view_attr(it).endswith("degree") and isinstance(tg, ast.Tuple) and len(tg.elts) == 2 and isinstance(tg.elts[1], ast.Name):
                    degs.append((direction[view_attr(it)], "number", (lambda x, d_=tg.elts[1].id: dotted(x) == d_), dotted(tg.elts[0]), it))
    ctx.need(len(degs) == 1, "__get_leaves: degree test not found")
    s2, kind, is_deg, picked, anchor = degs[0]  # out_degree == 0: consumers of nobody = last to run

    def zero_tested(cond: ast.AST) -> ast.AST | None:
        """The expression that ``cond`` requires to be 0 (or empty)."""
        if isinstance(cond, ast.UnaryOp) and isinstance(cond.op, ast.Not):
            x = cond.operand
            return x.args[0] if kind == "mapping" and isinstance(x, ast.Call) and dotted(x.func) == "len" and len(x.args) == 1 else x
        cp = compare_parts(cond)
        if cp is None:
            return None
        l_, op, r_ = cp
        if const_value(l_) is not None and const_value(r_) is None:
            l_, op, r_ = r_, flip_cmp(op()), l_
        k_ = const_value(r_)
        if isinstance(k_, bool) or (op, k_) not in ((ast.Eq, 0), (ast.Lt, 1), (ast.LtE, 0)):
            return None
        if isinstance(l_, ast.Call) and dotted(l_.func) == "len" and len(l_.args) == 1 and kind == "mapping":
            return l_.args[0]
        return l_ if kind == "number" else None

    # the conditions that select the peeled nodes: filters of the comprehension, or tests of an explicit loop
    conds = [i_ for c in walk_body(g) if isinstance(c, (ast.ListComp, ast.GeneratorExp, ast.SetComp)) for g_ in c.generators for i_ in g_.ifs] + [s_.test for s_ in stmts_of(g) if isinstance(s_, ast.If)]
    ok = len(conds) == 1 and zero_tested(conds[0]) is not None and is_deg(zero_tested(conds[0]))
    if ok and picked is not None:
        comps = [c for c in walk_body(g) if isinstance(c, (ast.ListComp, ast.GeneratorExp, ast.SetComp)) and any(g_.iter is anchor for g_ in c.generators)]
        ok = not comps or dotted(comps[0].elt) == picked
    ctx.ob("8.1-peel", con2, ok, "peeled nodes are those of degree 0", node=(conds[0] if conds else anchor))
    # site 3: final reversal
    h = ctx.index.method(DG, "DependencyGraph", "get_execution_sequence")
    con3 = cname(DG, "DependencyGraph", "get_execution_sequence")
    rets = [s for s in stmts_of(h) if isinstance(s, ast.Return)]
    ctx.need(len(rets) == 1, "get_execution_sequence: return not found")
    rev = [c for c in ast.walk(rets[0].value) if isinstance(c, ast.Call) and dotted(c.func) == "reversed"]
    sl = [n for n in ast.walk(rets[0].value) if isinstance(n, ast.Subscript) and isinstance(n.slice, ast.Slice) and isinstance(n.slice.step, ast.UnaryOp)]
    s3 = -1 if (len(rev) + len(sl)) % 2 == 1 else 1
    # stages accumulate by append (+=): order of peeling
    acc = [s for s in stmts_of(h) if isinstance(s, ast.AugAssign) and dotted(s.target) == "execution_sequence"] + [c for c in walk_body(h) if isinstance(c, ast.Call) and norm_stmt(c.func) == "execution_sequence.append"]
    ins = [c for c in walk_body(h) if isinstance(c, ast.Call) and norm_stmt(c.func) == "execution_sequence.insert"]
    if ins and not acc:
        s3 = -s3  # inserting at the front is a reversal
    parity = s1 * s2 * s3
    ctx.ob("8.1-parity", con3, parity == 1, f"producers must be scheduled before consumers: edge direction ({'producer->consumer' if s1 == 1 else 'consumer->producer'}) x peeled degree ({'out' if s2 == -1 else 'in'}) x final order ({'reversed' if s3 == -1 else 'kept'}) has the wrong parity; a single flip among the three sites reverses the whole schedule", node=rets[0], slots={"edge": s1, "peel": s2, "reverse": s3})
    # 8.3 every discipline once
    cfgh = cfg_of(h)
    leaves = [s for s in stmts_of(h) if isinstance(s, ast.Assign) and isinstance(s.value, ast.Call) and last_attr(s.value).endswith("__get_leaves")]
    ctx.need(len(leaves) == 1, "get_execution_sequence: leaves = __get_leaves(graph) not found")
    lv = dotted(leaves[0].targets[0])
    gname = dotted(leaves[0].value.args[0]) if leaves[0].value.args else None
    rm = [c for c in walk_body(h) if isinstance(c, ast.Call) and last_attr(c) in ("remove_nodes_from", "remove_node")]
    ok = len(rm) == 1 and dotted(rm[0].func.value) == gname and len(rm[0].args) == 1
    if ok and last_attr(rm[0]) == "remove_nodes_from":
        a_ = rm[0].args[0]
        while isinstance(a_, ast.Call) and dotted(a_.func) in ("list", "tuple", "set") and len(a_.args) == 1:
            a_ = a_.args[0]
        ok = dotted(a_) == lv
    elif ok:
        # node by node: `for n in leaves: graph.remove_node(n)`, every iteration removing its node
        over = [s_ for s_ in stmts_of(h) if isinstance(s_, ast.For) and dotted(s_.iter) == lv and any(sub is rm[0] for sub in ast.walk(s_))]
        ok = len(over) == 1 and dotted(rm[0].args[0]) == dotted(over[0].target) and not over[0].orelse and not any(isinstance(x, (ast.If, ast.IfExp, ast.Break, ast.Continue, ast.Try, ast.Return, ast.While)) for x in ast.walk(over[0]))
    ctx.ob("8.3-once", con3, ok, "exactly the peeled nodes must be removed from the condensed graph: removing others drops disciplines from the schedule, removing fewer never terminates", node=(rm or [h])[0])
    # the stage: one element per peeled node, by a comprehension or by a loop with append
    stages = [{"iter": n.generators[0].iter, "target": n.generators[0].target, "elements": [n.elt], "conditional": bool(n.generators[0].ifs), "node": n} for n in walk_body(h) if isinstance(n, ast.ListComp) and len(n.generators) == 1]
    stages += [a_ for a_ in accumulated_lists(h) if isinstance(a_["node"], ast.Call) and a_["name"] != "execution_sequence"]
    comp = [n for n in walk_body(h) if isinstance(n, ast.ListComp) and len(n.generators) != 1]
    ok = len(stages) == 1 and not comp and dotted(stages[0]["iter"]) == lv and not stages[0]["conditional"] and all("members" in unparse(e_) and dotted(stages[0]["target"]) in names_in(e_) for e_ in stages[0]["elements"])
    ctx.ob("8.3-once", con3, ok, "each stage must hold the members of every peeled node (and of them only)", node=(stages[0]["node"] if stages else h))
    brk = [s for s in stmts_of(h) if isinstance(s, ast.Break)]
    from gv.props.shared import literal_facts as _lf

    fb = _lf(cfgh, cfgh.node_of(brk[0])) if len(brk) == 1 else {}
    ok = len(brk) == 1 and (fb.get(lv) is False or fb.get(f"len({lv})") is False or fb.get(f"len({lv}) == 0") is True)
    if not brk and gname:
        # no break: the loop runs while the graph still has nodes, so it cannot stop with a leaf left over
        wl = [s_ for s_ in stmts_of(h) if isinstance(s_, ast.While) and any(sub is leaves[0] for sub in ast.walk(s_))]
        nonempty = {gname, f"len({gname})", f"len({gname}) > 0", f"len({gname}) != 0", f"len({gname}) >= 1", f"{gname}.nodes", f"len({gname}.nodes)", f"len({gname}.nodes) > 0", f"{gname}.number_of_nodes()", f"{gname}.number_of_nodes() > 0", f"{gname}.order()", f"{gname}.order() > 0"}
        ok = len(wl) == 1 and norm_stmt(wl[0].test) in nonempty and not any(isinstance(x, ast.Return) for x in ast.walk(wl[0]))
    ctx.ob("8.3-once", con3, ok, "peeling stops only when no leaf is left", node=(brk or [h])[0])
    if rm and acc:
        ok = cfgh.reachable(cfgh.node_of(acc[0]), cfgh.node_of(rm[0])) or cfgh.reachable(cfgh.node_of(rm[0]), cfgh.node_of(acc[0]))
    # 8.2 SCC delegation
    k = ctx.index.method(DG, "DependencyGraph", "__create_condensed_graph")
    con4 = cname(DG, "DependencyGraph", "__create_condensed_graph")
    mod = ctx.index.module(DG)
    cond = [c for c in walk_body(k) if isinstance(c, ast.Call) and dotted(c.func) == "condensation"]
    scc = [c for c in walk_body(k) if isinstance(c, ast.Call) and dotted(c.func) == "strongly_connected_components"]
    ok = len(cond) == 1 and len(scc) == 1 and "networkx" in mod.imports.get("condensation", "") and "networkx" in mod.imports.get("strongly_connected_components", "") and dotted(cond[0].args[0]) == dotted(scc[0].args[0])
    ctx.ob("8.2-scc", con4, ok, "groups of mutually dependent disciplines must be the strongly connected components computed by networkx on the same graph", node=(cond or [k])[0])
    o = ctx.index.method(DG, "DependencyGraph", "__get_ordered_scc")
    ys = [n for n in walk_body(o) if isinstance(n, ast.Yield)]
    lp = [s for s in stmts_of(o) if isinstance(s, ast.For) and dotted(s.iter) == o.args.args[1].arg]
    # one yield per component, made at every iteration, of a sequence that holds each member of the component exactly once
    ok = len(ys) == 1 and len(lp) == 1 and not lp[0].orelse and any(isinstance(s_, ast.Expr) and s_.value is ys[0] for s_ in lp[0].body) and not any(isinstance(x, (ast.Continue, ast.Break, ast.Return)) for x in ast.walk(lp[0]))
    if ok:
        all_nodes = {"self.__graph", "self.__graph.nodes", "self.__graph.nodes()", "list(self.__graph)", "list(self.__graph.nodes)", "list(self.__graph.nodes())", "tuple(self.__graph.nodes)", "tuple(self.__graph)"}
        ok = ys[0].value is not None and _member_kind(o, lp[0], ys[0].value, all_nodes) == ("perm",)
    ctx.ob("8.2-scc", cname(DG, "DependencyGraph", "__get_ordered_scc"), ok, "__get_ordered_scc may only reorder the members of each component (one yield per component, every member kept)", node=(ys or [o])[0])
    # the sequence used everywhere is this one
    init = ctx.index.method(CS, "CouplingStructure", "__init__")
    seq = rules.assigns_to_self(init, "sequence")
    # `self.sequence = <graph>.get_execution_sequence()` where <graph> is what self.graph holds: DependencyGraph(disciplines)
    gr = rules.assigns_to_self(init, "graph")
    ok = len(seq) == 1 and len(gr) == 1 and isinstance(seq[0].value, ast.Call) and last_attr(seq[0].value) == "get_execution_sequence"
    if ok:
        recv = seq[0].value.func.value
        g_alts = unfolded(init, gr[0], get=lambda st: st.value) or [gr[0].value]
        r_alts = [gr[0].value] if dotted(recv) == "self.graph" else (unfolded(init, recv) or [recv])
        cfgi = cfg_of(init)
        par = init.args.args[1].arg if len(init.args.args) > 1 else "disciplines"

        def own_disciplines(a_: ast.AST) -> bool:
            """The constructor's argument, by its name or through the attribute that was just bound to it."""
            if dotted(a_) == par:
                return True
            if isinstance(a_, ast.Attribute) and dotted(a_.value) == "self":
                st = rules.assigns_to_self(init, a_.attr)
                return len(st) == 1 and isinstance(st[0], ast.Assign) and dotted(st[0].value) == par and cfgi.dominates(cfgi.node_of(st[0]), cfgi.node_of(gr[0])) and cfgi.node_of(st[0]) != cfgi.node_of(gr[0])
            return False

        is_graph = lambda a_: isinstance(a_, ast.Call) and dotted(a_.func) == "DependencyGraph" and a_.args and own_disciplines(a_.args[0])  # noqa: E731
        # the receiver is the object held by self.graph: `self.graph` itself, the local it was assigned from, or a local bound by
        # the same (chained) assignment
        same_obj = dotted(recv) == "self.graph" or (isinstance(recv, ast.Name) and (dotted(recv) == dotted(gr[0].value) or (isinstance(gr[0], ast.Assign) and any(dotted(t_) == recv.id for t_ in gr[0].targets))))
        ok = all(is_graph(a_) for a_ in g_alts) and same_obj and (dotted(recv) == "self.graph" or all(is_graph(a_) for a_ in r_alts)) and cfgi.dominates(cfgi.node_of(gr[0]), cfgi.node_of(seq[0]))
    ctx.ob("8.2-scc", cname(CS, "CouplingStructure", "__init__"), ok, "the coupling structure's sequence must be the execution sequence of the dependency graph of its own disciplines", node=(seq or [init])[0])


def _ordered_builds(func: ast.AST, inline: ast.AST | None = None) -> list[dict]:
    """``accumulated_lists`` plus the other spellings of "one element per item, in iteration order": ``xs = list(map(f, it))``,
    ``xs = []; xs.extend(e for t in it)`` and a comprehension written in place in the expression ``inline`` (name None)."""
    out = list(accumulated_lists(func))

    def of_expr(e: ast.AST, name, node) -> dict | None:
        while isinstance(e, ast.Call) and dotted(e.func) in ("list", "tuple") and len(e.args) == 1 and not e.keywords:
            e = e.args[0]
        if isinstance(e, (ast.ListComp, ast.GeneratorExp)) and len(e.generators) == 1:
            g_ = e.generators[0]
            return {"name": name, "iter": g_.iter, "target": g_.target, "elements": [e.elt], "node": node, "conditional": bool(g_.ifs)}
        if isinstance(e, ast.Call) and dotted(e.func) == "map" and len(e.args) == 2 and not e.keywords:
            t_ = ast.Name(id="_item", ctx=ast.Load())
            fn = e.args[0]
            elt = ast.Call(func=fn, args=[t_], keywords=[])
            if isinstance(fn, ast.Lambda) and len(fn.args.args) == 1:
                t_, elt = ast.Name(id=fn.args.args[0].arg, ctx=ast.Load()), fn.body
            return {"name": name, "iter": e.args[1], "target": t_, "elements": [elt], "node": node, "conditional": False}
        return None

    known = {id(a["node"]) for a in out}
    for s_ in stmts_of(func):
        if isinstance(s_, ast.Assign) and len(s_.targets) == 1 and isinstance(s_.targets[0], ast.Name) and id(s_) not in known:
            r = of_expr(s_.value, s_.targets[0].id, s_)
            if r is not None:
                out.append(r)
    empty = {s_.targets[0].id for s_ in stmts_of(func) if isinstance(s_, ast.Assign) and len(s_.targets) == 1 and isinstance(s_.targets[0], ast.Name) and ((isinstance(s_.value, ast.List) and not s_.value.elts) or (isinstance(s_.value, ast.Call) and dotted(s_.value.func) == "list" and not s_.value.args))}
    for c in walk_body(func):
        if isinstance(c, ast.Call) and isinstance(c.func, ast.Attribute) and c.func.attr == "extend" and isinstance(c.func.value, ast.Name) and c.func.value.id in empty and len(c.args) == 1:
            if not any(isinstance(l_, (ast.For, ast.While)) and any(sub is c for sub in ast.walk(l_)) for l_ in stmts_of(func)):
                r = of_expr(c.args[0], c.func.value.id, c)
                if r is not None:
                    out.append(r)
    if inline is not None and not isinstance(inline, ast.Name):
        r = of_expr(inline, None, inline)
        if r is not None:
            out.append(r)
    return out


def check_chains(ctx: Ctx) -> None:
    f = ctx.index.method(CH, "MDOChain", "_execute")
    con = cname(CH, "MDOChain", "_execute")
    loops = [s for s in stmts_of(f) if isinstance(s, ast.For)]
    ok = len(loops) == 1 and dotted(loops[0].iter) == "self.disciplines"
    ctx.ob("8.4-chain", con, ok, "a chain must execute its disciplines in their listed order", node=(loops or [f])[0])
    if ok:
        d = dotted(loops[0].target)
        ex = [c for c in ast.walk(loops[0]) if isinstance(c, ast.Call) and last_attr(c) == "execute" and dotted(c.func.value) == d]
        ok = len(ex) == 1 and dotted(ex[0].args[0]) == "self.io.data"
        ctx.ob("8.4-chain", con, ok, "each discipline must run on the chain's current data", node=(ex or loops)[0])
        up = [c for c in ast.walk(loops[0]) if isinstance(c, ast.Call) and norm_stmt(c.func) == "self.io.data.update"]
        ok = len(up) == 1 and (ex and (ex[0] in list(ast.walk(up[0])) or d in names_in(up[0])))
        ctx.ob("8.4-chain", con, bool(ok), "the outputs of each discipline must be merged into the chain's data before the next one runs", node=(up or loops)[0])
    g = ctx.index.method(MC, "MDAChain", "_create_mdo_chain")
    con2 = cname(MC, "MDAChain", "_create_mdo_chain")
    rets = [s for s in stmts_of(g) if isinstance(s, ast.Return)]
    chain = rets[0].value if len(rets) == 1 and isinstance(rets[0].value, ast.Call) and dotted(rets[0].value.func) == "MDOChain" else None
    chained = None if chain is None else (kwarg(chain, "disciplines") or (chain.args[0] if chain.args else None))
    accs = [a for a in _ordered_builds(g, chained) if norm_stmt(a["iter"]) == "self.coupling_structure.sequence"]
    ok = len(accs) == 1
    ctx.ob("8.4-mda-chain", con2, ok, "the MDA chain must follow the execution sequence, stage by stage, in order", node=(accs[0]["node"] if accs else g), stmt="one pass over self.coupling_structure.sequence")
    if ok:
        acc = accs[0]
        tv = dotted(acc["target"])
        ok = not acc["conditional"] and all(isinstance(e_, ast.Call) and (last_attr(e_) or "").endswith("__create_process_from_disciplines") and e_.args and dotted(e_.args[0]) == tv for e_ in acc["elements"])
        ctx.ob("8.4-mda-chain", con2, ok, "one process per stage, appended in stage order", node=acc["node"], stmt="one process per stage, in stage order")
        lst = acc["name"]
        # the list handed to MDOChain is that one (by name, or built in place), and nothing else re-orders or trims it
        other = [c for c in walk_body(g) if lst is not None and isinstance(c, ast.Call) and isinstance(c.func, ast.Attribute) and dotted(c.func.value) == lst and c.func.attr in ("insert", "reverse", "sort", "pop", "remove", "clear") ]
        ok = chained is not None and ((lst is not None and dotted(chained) == lst) or any(sub is acc["node"] for sub in ast.walk(chained))) and not other
        ctx.ob("8.4-mda-chain", con2, ok, "the stages must be chained sequentially (MDOChain) in that order", node=(rets or [g])[0])
    p = ctx.index.method(MC, "MDAChain", "__compute_parallel_disciplines")
    con3 = cname(MC, "MDAChain", "__compute_parallel_disciplines")
    cfg = cfg_of(p)
    loops = [s for s in stmts_of(p) if isinstance(s, ast.For) and dotted(s.iter) == p.args.args[1].arg]
    ctx.need(len(loops) == 1, "__compute_parallel_disciplines: loop over the groups not found")
    grp = dotted(loops[0].target)
    # the result list: what the method returns
    res = {dotted(s_.value) for s_ in stmts_of(p) if isinstance(s_, ast.Return) and s_.value is not None}
    ctx.need(len(res) == 1 and None not in res, "__compute_parallel_disciplines: the returned list was not found")
    out = res.pop()
    ap = [c for c in ast.walk(loops[0]) if isinstance(c, ast.Call) and norm_stmt(c.func) == f"{out}.append"]
    # every way through one iteration (the outcome of each test fixed), with what it appends to the result
    paths = _iteration_paths(loops[0].body, out)
    live = [q for q in paths if q["end"] != "raise"]
    ok = bool(live) and all(q["end"] in (None, "continue") and len(q["appended"]) == 1 for q in live) and not loops[0].orelse
    ctx.ob("8.3-once", con3, ok, "every group of a stage yields exactly one process (MDA or single discipline)", node=(ap or loops)[0])

    def only_requires(q: dict, outcome: bool) -> bool:
        """The path is taken exactly under `__requires_mda(group)` having the given outcome (no other test on the way)."""
        cs = {(norm_stmt(t_), v_): t_ for t_, v_ in q["conds"]}
        return len(cs) == 1 and all(isinstance(t_, ast.Call) and (last_attr(t_) or "").endswith("__requires_mda") and t_.args and dotted(t_.args[0]) == grp and v_ is outcome for (_, v_), t_ in cs.items())

    is_single = lambda e_: isinstance(e_, ast.Subscript) and dotted(e_.value) == grp  # noqa: E731
    single = [q for q in live if any(is_single(e_) for e_ in q["appended"])]
    ok = bool(single) and all(const_value(e_.slice, 1) == 0 for q in single for e_ in q["appended"] if is_single(e_)) and all(only_requires(q, False) for q in single)
    ctx.ob("8.3-once", con3, ok, "a group is replaced by its single discipline only when it does not require an MDA", node=(single[0]["nodes"][0] if single and single[0]["nodes"] else loops[0]))
    is_mda = lambda e_: isinstance(e_, ast.Call) and "__inner_mda_class" in (dotted(e_.func) or "")  # noqa: E731
    mda = [q for q in live if any(is_mda(e_) for e_ in q["appended"])]
    ok = bool(mda) and all(only_requires(q, True) for q in mda) and len(mda) + len(single) == len(live)
    for q in mda:
        for c in [e_ for e_ in q["appended"] if is_mda(e_)]:
            # the constructor of every MDA takes the disciplines first
            dd = kwarg(c, "disciplines") or (c.args[0] if c.args else None)
            ok = ok and isinstance(dd, ast.ListComp) and len(dd.generators) == 1 and len(dd.generators[0].ifs) == 1 and isinstance(dd.generators[0].ifs[0], ast.Compare) and len(dd.generators[0].ifs[0].ops) == 1 and isinstance(dd.generators[0].ifs[0].ops[0], ast.In)
            if ok:
                # membership of the discipline OBJECT in the group: two disciplines may have the same name, and a test on the
                # name (or any attribute) pulls a namesake that is not coupled into the inner MDA
                g_ = dd.generators[0]
                t_ = g_.ifs[0]
                ok = dotted(t_.left) == dotted(g_.target) and dotted(t_.comparators[0]) == grp and dotted(dd.elt) == dotted(g_.target)
    calls = [c for c in ast.walk(loops[0]) if isinstance(c, ast.Call) and "__inner_mda_class" in (dotted(c.func) or "")]
    ctx.ob("8.3-once", con3, ok, "the inner MDA of a group must contain exactly the disciplines of that group", node=(calls or loops)[0])


def _iteration_paths(body: list[ast.stmt], out: str) -> list[dict]:
    """The ways through a loop body, one per combination of test outcomes: ``{"conds": [(test, outcome)], "appended": [expr],
    "nodes": [call], "end": None | "continue" | "break" | "return" | "raise" | "opaque"}``.  ``appended`` are the arguments of
    ``<out>.append(...)`` met on the way, with the locals assigned on that path replaced by their values, so that
    ``d = g[0]; out.append(d)`` and ``out.append(g[0])`` read the same, in one branch or after the join."""
    import copy

    def subst(e: ast.AST, env: dict) -> ast.AST:
        class R(ast.NodeTransformer):
            def visit_Name(self, n):  # noqa: N802
                if isinstance(n.ctx, ast.Load) and n.id in env:
                    return copy.deepcopy(env[n.id])
                return n

            def visit_ListComp(self, n):  # noqa: N802
                bound = {t.id for g_ in n.generators for t in ast.walk(g_.target) if isinstance(t, ast.Name)}
                saved = {k: env.pop(k) for k in list(env) if k in bound}
                try:
                    return self.generic_visit(n)
                finally:
                    env.update(saved)

            visit_GeneratorExp = visit_SetComp = visit_DictComp = visit_ListComp  # noqa: N815

        return R().visit(copy.deepcopy(e))

    def run(stmts: list[ast.stmt], states: list[dict]) -> list[dict]:
        for st in stmts:
            nxt = []
            for q in states:
                if q["end"] is not None:
                    nxt.append(q)
                    continue
                if isinstance(st, ast.If):
                    t_, pol = subst(st.test, q["env"]), True
                    while isinstance(t_, ast.UnaryOp) and isinstance(t_.op, ast.Not):
                        t_, pol = t_.operand, not pol
                    for branch, v_ in ((st.body, pol), (st.orelse, not pol)):
                        fork = {"conds": [*q["conds"], (t_, v_)], "env": dict(q["env"]), "appended": list(q["appended"]), "nodes": list(q["nodes"]), "end": None}
                        nxt.extend(run(branch, [fork]))
                    continue
                if isinstance(st, (ast.Assign, ast.AnnAssign)) and st.value is not None:
                    tgts = st.targets if isinstance(st, ast.Assign) else [st.target]
                    val = subst(st.value, q["env"])
                    for t_ in tgts:
                        if isinstance(t_, ast.Name):
                            q["env"][t_.id] = val
                        else:
                            for n_ in ast.walk(t_):
                                if isinstance(n_, ast.Name) and isinstance(n_.ctx, ast.Store):
                                    q["env"].pop(n_.id, None)
                elif isinstance(st, (ast.Continue, ast.Break, ast.Return, ast.Raise)):
                    q["end"] = type(st).__name__.lower()
                elif isinstance(st, (ast.For, ast.While, ast.With, ast.Try, ast.Match)):
                    if any(isinstance(c, ast.Call) and norm_stmt(c.func).startswith(out + ".") for c in ast.walk(st)) or any(isinstance(x, (ast.Continue, ast.Break, ast.Return)) for x in ast.walk(st)):
                        q["end"] = "opaque"
                    else:
                        for n_ in ast.walk(st):
                            if isinstance(n_, ast.Name) and isinstance(n_.ctx, ast.Store):
                                q["env"].pop(n_.id, None)
                else:
                    for c in ast.walk(st):
                        if isinstance(c, ast.Call) and isinstance(c.func, ast.Attribute) and dotted(c.func.value) == out:
                            if c.func.attr == "append" and len(c.args) == 1:
                                q["appended"].append(subst(c.args[0], q["env"]))
                                q["nodes"].append(c)
                            else:
                                q["end"] = "opaque"
                nxt.append(q)
            states = nxt
        return states

    return run(body, [{"conds": [], "env": {}, "appended": [], "nodes": [], "end": None}])


def _needs_mda_shape(e: ast.AST, group: str, need_self_coupled: bool) -> tuple[bool, str]:
    """``len(g) > 1 or (... is_self_coupled(g[0]) ...)``"""
    txt = norm_stmt(e, 200)
    parts = e.values if isinstance(e, ast.BoolOp) and isinstance(e.op, ast.Or) else [e]
    big = False
    for p in parts:
        cp = compare_parts(p)
        if cp and isinstance(cp[0], ast.Call) and dotted(cp[0].func) == "len" and dotted(cp[0].args[0]) == group and cp[1] is ast.Gt and const_value(cp[2]) == 1:
            big = True
        if cp and isinstance(cp[2], ast.Call) and dotted(cp[2].func) == "len" and cp[1] is ast.Lt and const_value(cp[0]) == 1:
            big = True
    selfc = any(isinstance(c, ast.Call) and last_attr(c) == "is_self_coupled" for c in ast.walk(e))
    return big and (selfc or not need_self_coupled), txt


def check_needs_mda(ctx: Ctx) -> None:
    f = ctx.index.method(MC, "MDAChain", "__requires_mda")
    rets = [s for s in stmts_of(f) if isinstance(s, ast.Return)]
    ok, txt = _needs_mda_shape(rets[0].value, f.args.args[1].arg, True) if len(rets) == 1 else (False, "")
    # the predicate only compares len(group) with constants and combines two boolean facts: it is decided over all their
    # orderings / truth values, whatever its spelling
    from gv.ordering import Unsupported
    from gv.ordering import same_predicate

    grp = f.args.args[1].arg
    iso = [c for c in walk_body(f) if isinstance(c, ast.Call) and dotted(c.func) == "isinstance"]
    scs = [c for c in walk_body(f) if isinstance(c, ast.Call) and last_attr(c) == "is_self_coupled"]
    if len(iso) == 1 and len(scs) == 1:
        import copy as _copy

        atoms = {f"len({grp})": "n"}
        # the two boolean facts, with the group's single member spelled `group[0]`
        g2 = _copy.deepcopy(f)
        try:
            ok, cex = same_predicate(
                g2,
                {f"len({grp})": "n", f"self.coupling_structure.is_self_coupled({grp}[0])": "sc", norm_stmt(iso[0]).replace(norm_stmt(iso[0].args[0]), f"{grp}[0]"): "mda"},
                lambda n, sc, mda: n > 1 or (n == 1 and sc != 0 and mda == 0),
                constants=(0, 1),
                where=lambda n, sc, mda: sc in (0, 1) and mda in (0, 1) and n >= 0,
            )
            txt = f"counter-example: {cex}" if cex else txt
        except Unsupported:
            pass  # keep the verdict of the syntactic rule
    ctx.ob("8.5-needs-mda", cname(MC, "MDAChain", "__requires_mda"), ok, "a group needs an MDA iff it has more than one discipline or its single discipline is self-coupled (and is not already an MDA)" + (f" ({txt})" if not ok else ""), node=(rets or [f])[0], stmt="needs an MDA iff several disciplines, or one self-coupled that is not an MDA")
    # the only single self-coupled disciplines that need no inner MDA are those that solve their own coupling: MDAs
    mod = ctx.index.module(MC)
    base_mda = ctx.index.resolve_qualified("gemseo.mda.base_mda.BaseMDA")
    ctx.need(base_mda is not None, "BaseMDA not found")
    for r in rets:
        for c in ast.walk(r.value):
            if isinstance(c, ast.Call) and dotted(c.func) == "isinstance" and len(c.args) == 2:
                names = [dotted(e_) for e_ in (c.args[1].elts if isinstance(c.args[1], ast.Tuple) else [c.args[1]])]
                bad = []
                for nm in names:
                    q = mod.imports.get((nm or "").split(".")[0])
                    ci = ctx.index.resolve_qualified(q + ("." + nm.split(".", 1)[1] if nm and "." in nm else "")) if q else (mod.classes.get(nm) if nm else None)
                    if ci is None or not ctx.index.is_subclass(ci, base_mda):
                        bad.append(nm)
                ctx.ob("8.5-needs-mda", cname(MC, "MDAChain", "__requires_mda"), not bad, f"a self-coupled discipline is exempted from the inner MDA because it is a {bad}: only an MDA converges its own coupling; any other self-coupled discipline (a chain, a scenario adapter) executed once returns non-converged data", node=c, stmt=f"exempted classes are MDAs: {names}")
    g = ctx.index.func(MD, "_replace_strongly_coupled")
    cfg = cfg_of(g)
    merged = [s for s in stmts_of(g) if isinstance(s, ast.Assign) and isinstance(s.value, ast.Call) and dotted(s.value.func) == "DummyDiscipline"]
    ctx.need(len(merged) == 1, "_replace_strongly_coupled: merged discipline creation not found")
    conds = [(t, v) for t, v in branch_conditions(cfg, cfg.node_of(merged[0])) if cfg.kind[t] == "test"]
    ok = len(conds) == 1 and conds[0][1]
    if ok:
        lp = [s for s in stmts_of(g) if isinstance(s, ast.For) and any(sub is cfg.ast[conds[0][0]] for sub in ast.walk(s))][-1]
        ok, _ = _needs_mda_shape(cfg.ast[conds[0][0]].test, dotted(lp.target), True)
    ctx.ob("8.5-needs-mda", cname(MD, None, "_replace_strongly_coupled"), ok, "the derivative traversal must merge exactly the groups that need an MDA (more than one discipline, or a self-coupled one)", node=merged[0])
    h = ctx.index.method(CS, "CouplingStructure", "get_strongly_coupled_disciplines")
    cfgh = cfg_of(h)
    # the sites that add to the returned list: `<result>.append/extend(x)` written directly or through a local bound to that
    # bound method (`update = result.append if by_group else result.extend`)
    res = {dotted(s_.value) for s_ in stmts_of(h) if isinstance(s_, ast.Return) and s_.value is not None}
    adders = {f"{r_}.{m_}" for r_ in res if r_ for m_ in ("append", "extend")}
    alias = {}
    for s_ in stmts_of(h):
        if isinstance(s_, ast.Assign) and len(s_.targets) == 1 and isinstance(s_.targets[0], ast.Name):
            vals = [s_.value.body, s_.value.orelse] if isinstance(s_.value, ast.IfExp) else [s_.value]
            alias.setdefault(s_.targets[0].id, []).extend(dotted(v_) for v_ in vals)
    alias = {k_ for k_, v_ in alias.items() if v_ and all(x in adders for x in v_)}
    calls = [c for c in walk_body(h) if isinstance(c, ast.Call) and len(c.args) == 1 and (dotted(c.func) in alias or dotted(c.func) in adders)]
    ctx.need(len(calls) >= 2, "get_strongly_coupled_disciplines: the two update sites were not found")
    # the choice between a flat list and a list of groups (by_group) says nothing about WHICH disciplines are strongly coupled
    fmt = {a_.arg for a_ in h.args.args if a_.arg == "by_group"}

    def site_conds(c: ast.Call) -> list[tuple[int, bool]]:
        return [(t, v) for t, v in branch_conditions(cfgh, cfgh.node_of(c)) if cfgh.kind[t] == "test" and not (names_in(cfgh.ast[t].test) and names_in(cfgh.ast[t].test) <= fmt)]

    big = [c for c in calls if dotted(c.args[0]) == "component"]
    ok = len(big) >= 1
    for c in big:
        conds = site_conds(c)
        ok = ok and len(conds) == 1 and conds[0][1] and _needs_mda_shape(cfgh.ast[conds[0][0]].test, "component", False)[0]
    ctx.ob("8.5-needs-mda", cname(CS, "CouplingStructure", "get_strongly_coupled_disciplines"), ok, "groups of more than one discipline are strongly coupled", node=(big or calls)[0])
    small = [c for c in calls if c not in big]
    ok = len(small) >= 1
    for c in small:
        txts = [norm_stmt(cfgh.ast[t].test) for t, v in site_conds(c) if v]
        # a selection made by the loop itself: `for d in filter(pred, xs)` / `for d in (d for d in xs if pred(d))`
        for lp_ in [s_ for s_ in stmts_of(h) if isinstance(s_, ast.For) and any(sub is c for sub in ast.walk(s_))]:
            it = lp_.iter
            if isinstance(it, ast.Call) and dotted(it.func) == "filter" and len(it.args) == 2 and dotted(lp_.target) in names_in(c.args[0]):
                txts.append(f"{norm_stmt(it.args[0])}({dotted(lp_.target)})")
            if isinstance(it, (ast.GeneratorExp, ast.ListComp)) and len(it.generators) == 1 and dotted(it.elt) == dotted(it.generators[0].target):
                txts.extend(norm_stmt(i_) for i_ in it.generators[0].ifs)
        ok = ok and "add_self_coupled" in txts and any("is_self_coupled" in t for t in txts)
    ctx.ob("8.5-needs-mda", cname(CS, "CouplingStructure", "get_strongly_coupled_disciplines"), ok, "a single discipline is strongly coupled iff it is self-coupled (when add_self_coupled)", node=(small or calls)[0])
    # same iteration order in the two routines zipped together
    for fn, con in ((g, cname(MD, None, "_replace_strongly_coupled")), (h, cname(CS, "CouplingStructure", "get_strongly_coupled_disciplines"))):
        loops = [s for s in stmts_of(fn) if isinstance(s, ast.For)]
        outer = [s for s in loops if (dotted(s.iter) or "").endswith("sequence")]
        ok = len(outer) == 1 and any(dotted(s.iter) == dotted(outer[0].target) for s in loops)
        ctx.ob("8.5-order", con, ok, "groups must be visited in sequence order (stage by stage, group by group): the traversal zips the merged disciplines with the strongly coupled groups", node=(outer or [fn])[0])
    z = ctx.index.func(MD, "traverse_add_diff_io_mda")
    zips = [c for c in walk_body(z) if isinstance(c, ast.Call) and dotted(c.func) == "zip"]
    ctx.ob("8.5-order", cname(MD, None, "traverse_add_diff_io_mda"), len(zips) >= 1, "traverse_add_diff_io_mda pairs strong groups and merged disciplines positionally", node=(zips or [z])[0])
    # strong couplings definition
    s = ctx.index.method(CS, "CouplingStructure", "_compute_strong_couplings")
    calls = [c for c in walk_body(s) if isinstance(c, ast.Call) and last_attr(c) == "get_strongly_coupled_disciplines"]
    ok = len(calls) == 1 and any(k.arg == "by_group" and const_value(k.value) is True for k in calls[0].keywords)
    inter = [n for n in walk_body(s) if isinstance(n, ast.BinOp) and isinstance(n.op, ast.BitAnd)]
    ok = ok and len(inter) == 1 and sorted(names_in(inter[0]) - {"set"}) == ["inputs", "outputs"]
    ctx.ob("8.5-strong-couplings", cname(CS, "CouplingStructure", "_compute_strong_couplings"), ok, "strong couplings are, group by group, the variables that are both inputs and outputs of the disciplines of the group", node=(inter or [s])[0])


IC = "core/chains/initialization_chain.py"


_WRAPPERS = ("set", "frozenset", "list", "tuple", "sorted")


def _unwrap(e: ast.AST) -> ast.AST:
    """``set(x)`` / ``list(x)`` / ``x.keys()`` / ``(x)``: the collection whose elements are meant."""
    while True:
        if isinstance(e, ast.Call) and dotted(e.func) in _WRAPPERS and len(e.args) == 1 and not e.keywords:
            e = e.args[0]
        elif isinstance(e, ast.Call) and isinstance(e.func, ast.Attribute) and e.func.attr in ("keys", "copy") and not e.args:
            e = e.func.value
        else:
            return e


def _union_leaves(e: ast.AST) -> list[ast.AST]:
    """The operands of a union, however it is spelled (``a | b``, ``a.union(b, c)``, ``{*a, *b}``, ``[*a, *b]``, ``a + b`` of lists)."""
    e = _unwrap(e)
    if isinstance(e, ast.BinOp) and isinstance(e.op, (ast.BitOr, ast.Add)):
        return _union_leaves(e.left) + _union_leaves(e.right)
    if isinstance(e, ast.Call) and isinstance(e.func, ast.Attribute) and e.func.attr == "union":
        return _union_leaves(e.func.value) + [l_ for a_ in e.args for l_ in _union_leaves(a_)]
    if isinstance(e, (ast.Set, ast.List, ast.Tuple)) and e.elts and all(isinstance(x, ast.Starred) for x in e.elts):
        return [l_ for x in e.elts for l_ in _union_leaves(x.value)]
    return [e]


def _difference(e: ast.AST) -> tuple[ast.AST, list[ast.AST]]:
    """(base, removed operands) of ``base - a - b`` / ``base.difference(a).difference(b)`` / ``base.difference(a, b)``."""
    u = _unwrap(e)
    if isinstance(u, ast.BinOp) and isinstance(u.op, ast.Sub):
        base, rem = _difference(u.left)
        return base, rem + _union_leaves(u.right)
    if isinstance(u, ast.Call) and isinstance(u.func, ast.Attribute) and u.func.attr == "difference":
        base, rem = _difference(u.func.value)
        return base, rem + [l_ for a_ in u.args for l_ in _union_leaves(a_)]
    return u, []


def _readiness(e: ast.AST) -> tuple[bool, ast.AST, list[ast.AST]] | None:
    """``(polarity, required, sources)``: the test ``e`` has the truth value ``polarity`` iff every element of ``required``
    is in one of ``sources``.  Recognised: emptiness of a difference (``not (r - a - b)``, ``len(...) == 0``, ``... == set()``),
    inclusion (``r <= a | b``, ``r.issubset(...)``, ``(a | b).issuperset(r)``) and the element-wise forms
    ``all(n in a or n in b for n in r)`` / ``any(n not in a and n not in b for n in r)``."""
    if isinstance(e, ast.UnaryOp) and isinstance(e.op, ast.Not):
        r = _readiness(e.operand)
        return None if r is None else (not r[0], r[1], r[2])
    if isinstance(e, ast.Call) and dotted(e.func) == "bool" and len(e.args) == 1:
        return _readiness(e.args[0])
    if isinstance(e, ast.Call) and dotted(e.func) in ("all", "any") and len(e.args) == 1 and isinstance(e.args[0], (ast.GeneratorExp, ast.ListComp)) and len(e.args[0].generators) == 1:
        is_all = dotted(e.func) == "all"
        gen = e.args[0].generators[0]
        v = dotted(gen.target)
        if not isinstance(gen.target, ast.Name):
            return None
        srcs: list[ast.AST] = []

        def member(c: ast.AST, positive: bool) -> bool:
            cp = compare_parts(c)
            if cp is None or dotted(cp[0]) != v or cp[1] is not (ast.In if positive else ast.NotIn):
                return False
            srcs.extend(_union_leaves(cp[2]))
            return True

        # elements filtered out of the iteration are elements that need no source: `for n in r if n not in a`
        if not all(member(c, False) for c in gen.ifs):
            return None
        elt = e.args[0].elt
        parts = elt.values if isinstance(elt, ast.BoolOp) and isinstance(elt.op, ast.Or if is_all else ast.And) else [elt]
        if not all(member(c, is_all) for c in parts):
            return None
        return is_all, gen.iter, srcs
    cp = compare_parts(e)
    if cp is not None:
        l_, op, r_ = cp
        if op in (ast.LtE, ast.GtE):
            small, big = (l_, r_) if op is ast.LtE else (r_, l_)
            base, rem = _difference(small)
            return True, base, rem + _union_leaves(big)
        is_len = lambda x: isinstance(x, ast.Call) and dotted(x.func) == "len" and len(x.args) == 1  # noqa: E731
        is_empty = lambda x: (isinstance(x, ast.Call) and dotted(x.func) in ("set", "frozenset") and not x.args) or (isinstance(x, (ast.List, ast.Tuple)) and not x.elts)  # noqa: E731
        if is_len(r_) and not is_len(l_):
            l_, r_, op = r_, l_, flip_cmp(op())
        if is_empty(l_) and not is_empty(r_):
            l_, r_ = r_, l_
        if is_len(l_):
            k = const_value(r_)
            pol = {(ast.Eq, 0): True, (ast.LtE, 0): True, (ast.Lt, 1): True, (ast.NotEq, 0): False, (ast.Gt, 0): False, (ast.GtE, 1): False}.get((op, k))
            if pol is None or isinstance(k, bool):
                return None
            base, rem = _difference(l_.args[0])
            return pol, base, rem
        if is_empty(r_) and op in (ast.Eq, ast.NotEq):
            base, rem = _difference(l_)
            return op is ast.Eq, base, rem
        return None
    if isinstance(e, ast.Call) and isinstance(e.func, ast.Attribute) and e.func.attr in ("issubset", "issuperset") and len(e.args) == 1:
        small, big = (e.func.value, e.args[0]) if e.func.attr == "issubset" else (e.args[0], e.func.value)
        base, rem = _difference(small)
        return True, base, rem + _union_leaves(big)
    if isinstance(e, ast.Call) and dotted(e.func) == "len" and len(e.args) == 1:
        e = e.args[0]
    base, rem = _difference(e)
    return (False, base, rem) if rem or isinstance(base, ast.Name) else None


def check_initialization_order(ctx: Ctx) -> None:
    """8.6: the greedy initialisation order schedules a discipline only when each of its inputs is one of ITS OWN
    defaults, externally available, or an output of a discipline scheduled before."""
    from gv.astutil import as_update
    from gv.dataflow import SymValues

    f = ctx.index.func(IC, "order_disciplines_from_default_inputs")
    con = cname(IC, None, "order_disciplines_from_default_inputs")
    sv = SymValues(f)
    # (node, name of the collection that grows, what is added): `a.extend(x)`, `a += x`, `a = a + list(x)`, `a |= x`
    grow = [(c, c.func.value.id, c.args[0]) for c in walk_body(f) if isinstance(c, ast.Call) and isinstance(c.func, ast.Attribute) and c.func.attr in ("extend", "update", "append", "add") and isinstance(c.func.value, ast.Name) and c.args and "output_grammar" in norm_stmt(c.args[0])]
    for s_ in stmts_of(f):
        up = as_update(s_)
        if up and isinstance(up[0], ast.Name) and isinstance(up[1], (ast.Add, ast.BitOr)) and "output_grammar" in norm_stmt(up[2]):
            grow.append((s_, up[0].id, up[2]))
    if not grow:
        ctx.ob("8.6-init-order", con, False, "the names made available by a scheduled discipline must be its OUTPUTS (available += discipline.io.output_grammar): nothing of that form is found", node=f, stmt="available += outputs of the scheduled discipline")
        return
    avail = grow[0][1]
    cfg = sv.cfg
    for g, gname, added in grow:
        gn = cfg.node_of(g)
        loops = [s_ for s_ in stmts_of(f) if isinstance(s_, ast.For) and any(sub is g for sub in ast.walk(s_))]
        ctx.need(loops, "the extension of the available names is not in a loop over the remaining disciplines")
        lv = dotted(loops[-1].target)
        tests = [(t, v) for t, v in branch_conditions(cfg, gn) if cfg.kind[t] == "test" and any(sub is cfg.ast[t] for sub in ast.walk(loops[-1]))]
        ctx.need(len(tests) == 1, "the readiness test of the candidate discipline was not found")
        tnode, tpol = tests[0]
        tst = cfg.ast[tnode].test
        ok = (names_in(added) & {lv}) == {lv} and gname == avail
        ctx.ob("8.6-init-order", con, ok, "the names made available must be the outputs of the discipline being scheduled", node=g, stmt="available += outputs of the scheduled discipline")
        for alt in sv.exprs(tst):
            shape = _readiness(alt)
            pol, base, removed = shape if shape is not None else (None, alt, [])
            bad = []
            if isinstance(base, ast.Name):
                # the required names are held by a local that is narrowed in place before the test:
                # `r = set(inputs); r.difference_update(defaults)` / `r -= defaults`
                defs = [s_ for s_ in ast.walk(loops[-1]) if isinstance(s_, ast.Assign) and len(s_.targets) == 1 and dotted(s_.targets[0]) == base.id and as_update(s_) is None]
                if len(defs) == 1 and cfg.dominates(cfg.node_of(defs[0]), tnode):
                    for s_ in ast.walk(loops[-1]):
                        up = as_update(s_) if isinstance(s_, ast.stmt) else None
                        if up and dotted(up[0]) == base.id:
                            if isinstance(up[1], ast.Sub) and cfg.dominates(cfg.node_of(s_), tnode):
                                removed = removed + _union_leaves(up[2])
                            else:
                                bad.append(norm_stmt(s_, 60))
                        elif isinstance(s_, ast.Call) and isinstance(s_.func, ast.Attribute) and dotted(s_.func.value) == base.id and s_.func.attr in ("difference_update", "intersection_update", "symmetric_difference_update", "discard", "remove", "pop", "clear", "update", "add"):
                            if s_.func.attr == "difference_update" and cfg.dominates(cfg.node_of(s_), tnode):
                                removed = removed + [l_ for a_ in s_.args for l_ in _union_leaves(a_)]
                            else:
                                bad.append(norm_stmt(s_, 60))
                    b_alts = sv.exprs(defs[0].value)
                    base, more = _difference(b_alts[0]) if len(b_alts) == 1 else (base, [])
                    removed = removed + more
            removed = [_unwrap(r_) for r_ in removed]
            base = _unwrap(base)
            # its own defaults: `disc.io.input_grammar.defaults` (or the discipline's alias of it, `disc.default_input_data`)
            own = lambda r_: lv in names_in(r_) and (("input_grammar" in norm_stmt(r_) and "defaults" in norm_stmt(r_)) or "default_input_data" in norm_stmt(r_))  # noqa: E731
            bad += [norm_stmt(r_, 60) for r_ in removed if not (dotted(r_) == avail or own(r_))]
            has_own = any(own(r_) for r_ in removed)
            has_avail = any(dotted(r_) == avail for r_ in removed)
            req = any(isinstance(n_, ast.Attribute) and n_.attr == "input_grammar" and lv in names_in(n_) for n_ in ast.walk(base)) and "defaults" not in norm_stmt(base)
            ctx.ob("8.6-init-order", con, pol == tpol and bool(removed) and not bad and has_own and has_avail and req, f"a discipline is ready when its inputs minus its own defaults minus the available names is empty; here the inputs are credited with {bad or 'something else'}: a discipline can then be scheduled before the producer of one of its inputs", node=cfg.ast[tnode], stmt="ready iff inputs - own defaults - available is empty")
    ctx.floor("8.6-init-order", 2)


def check_parallel_stage_inputs(ctx: Ctx) -> None:
    """8.7: a parallel stage is exact only if every discipline of the stage sees the chain's data and nothing of what its
    neighbours do to theirs (rule 13.9 of C13 on MDOParallelChain._get_input_data_copies)."""
    from gv.props import c13
    from gv.props.c12 import _Prefixed

    c13.check_parallel_chain_inputs(_Prefixed(ctx, "8.7-stage-inputs/"))
    # a chain forwards what each discipline returns: on a cache hit that must be the inputs the discipline was called
    # with (rule 5.14 of C05), or the next discipline is evaluated at a stale value
    from gv.props import c05

    c05.check_hit_inputs(_Prefixed(ctx, "8.9-forwarded-data/"))


def check_sub_structures_pairing(ctx: Ctx) -> None:
    """8.8: the inner MDAs of an MDA chain are created stage after stage, group after group, and each takes the NEXT of
    the sub coupling structures the user gave in that order: the iterator they are taken from is created once, before
    the stages are gone through (created again inside the loop, every stage starts again from the first structure and an
    inner MDA resolves the couplings of another group)."""
    cls = ctx.index.cls(MC, "MDAChain")
    made = []
    for mname, m in cls.methods.items():
        for st in stmts_of(m):
            if isinstance(st, ast.Assign) and isinstance(st.value, ast.Call) and dotted(st.value.func) == "iter" and len(st.targets) == 1 and (dotted(st.targets[0]) or "").startswith("self."):
                made.append((mname, m, st))
    ctx.need(len(made) >= 1, "MDAChain: the iterator over the sub coupling structures was not found")
    for mname, m, st in made:
        attr = st.targets[0].attr
        loops = [lp for lp in stmts_of(m) if isinstance(lp, (ast.For, ast.While))]
        inside = [lp for lp in loops if any(x is st for x in ast.walk(lp))]
        # consumers: next(self.<attr>) here or in a method of the class called from here
        def consumes(fn, seen=()):
            for c in walk_body(fn):
                if isinstance(c, ast.Call) and dotted(c.func) == "next" and c.args and isinstance(c.args[0], ast.Attribute) and c.args[0].attr.endswith(attr.lstrip("_")):
                    return True
                if isinstance(c, ast.Call) and isinstance(c.func, ast.Attribute) and dotted(c.func.value) == "self":
                    callee = cls.methods.get(c.func.attr) or cls.methods.get(mangle(cls.name, c.func.attr))
                    if callee is not None and callee is not fn and callee.name not in seen and consumes(callee, (*seen, getattr(fn, 'name', '?'))):
                        return True
            return False

        cfg = cfg_of(m)
        users = [lp for lp in loops if consumes(ast.Module(body=lp.body, type_ignores=[]))]
        # the stages may be gone through by a comprehension / map as well: the statement that holds it is the user
        for st2 in stmts_of(m):
            if st2 is st or isinstance(st2, (ast.For, ast.While, ast.If, ast.With, ast.Try)):
                continue
            for x in ast.walk(st2):
                if isinstance(x, (ast.ListComp, ast.GeneratorExp, ast.SetComp, ast.DictComp)) and consumes(ast.Module(body=[ast.Expr(value=x)], type_ignores=[])):
                    users.append(st2)
                    break
                if isinstance(x, ast.Call) and dotted(x.func) == "map" and x.args and consumes(ast.Module(body=[ast.Expr(value=ast.Call(func=x.args[0], args=[], keywords=[]))], type_ignores=[])):
                    users.append(st2)
                    break
        ok = not inside and bool(users) and all(cfg.dominates(cfg.node_of(st), cfg.node_of(lp)) for lp in users)
        ctx.ob("8.8-sub-structures", cname(MC, "MDAChain", mname), ok, f"`{norm_stmt(st, 70)}` must run once, before the loop over the stages in which the inner MDAs take their structure with next(): " + ("it is inside a loop" if inside else "no consuming loop after it"), node=st, stmt="iterator over the sub coupling structures created once before the stages")


def run(ctx: Ctx) -> None:
    check_sub_structures_pairing(ctx)
    check_parallel_stage_inputs(ctx)
    check_orientation(ctx)
    check_initialization_order(ctx)
    check_chains(ctx)
    check_needs_mda(ctx)


# ---------------------------------------------------------------------------
WITNESSES = [
    {"name": "seeded-C08-11", "file": "core/discipline/base_discipline.py", "old": "                cache_output[output_name] = to_value(output_name, value)\n        else:\n            cache_output = cache_entry.outputs\n\n        # TODO: Fix this workaround for input_data that does not match strictly\n        #  the cache one.\n        cache_entry = CacheEntry(input_data, cache_output, cache_entry.jacobian)\n\n", "new": "                cache_output[output_name] = to_value(output_name, value)\n\n            # The entries of the non-simple caches store arrays only:\n            # restore the original input values together with the converted outputs.\n            cache_entry = CacheEntry(input_data, cache_output, cache_entry.jacobian)\n\n", "expect": "8.9", "note": "A cache hit within a non-zero tolerance restores the CACHED inputs into the disc"},
    {"name": "seeded-C08-10", "file": "core/chains/parallel_chain.py", "old": "        if self._use_deep_copy:\n            return [\n                DisciplineData(deepcopy_dict_of_arrays(self.io.data))\n                for _ in range(len(self.disciplines))\n            ]\n\n", "new": "        if self._use_deep_copy:\n            return [DisciplineData(deepcopy_dict_of_arrays(self.io.data))] * len(\n                self.disciplines\n            )\n\n", "expect": "8.7", "note": "MDOParallelChain with use_deep_copy=True hands the same deep copy to all the dis"},
    {"name": "seeded-C08-9", "file": "mda/mda_chain.py", "old": "\n        self.__sub_coupling_structures_iterator = iter(sub_coupling_structures)\n\n        chained_disciplines = []\n        for parallel_tasks in self.coupling_structure.sequence:\n            process = self.__create_process_from_disciplines(parallel_tasks)\n", "new": "\n        chained_disciplines = []\n        for parallel_tasks in self.coupling_structure.sequence:\n            self.__sub_coupling_structures_iterator = iter(sub_coupling_structures)\n            process = self.__create_process_from_disciplines(parallel_tasks)\n", "expect": "8.8", "note": "MDAChain restarts the sub_coupling_structures iterator at every stage of the seq"},
    {"name": "init-order-ignores-own-defaults-only", "file": IC, "old": "                available_data_names.extend(disc.io.output_grammar)\n", "new": "                available_data_names.extend(disc.io.input_grammar)\n", "expect": "8.6"},
    {"name": "edges-from-required-inputs-only", "file": DG, "old": "                set(disc.io.input_grammar),\n", "new": "                set(disc.io.input_grammar.required_names),\n", "expect": "8.1"},
    {"name": "edge-reversed", "file": DG, "old": "graph_add_edge(disc_i, disc_j, io=coupled_io)", "new": "graph_add_edge(disc_j, disc_i, io=coupled_io)", "expect": "8.1"},
    {"name": "inputs-outputs-swapped-in-intersection", "file": DG, "old": "        for disc_i, (_, outputs_i) in nodes_to_ios.items():\n            for disc_j, (inputs_j, _) in nodes_to_ios.items():", "new": "        for disc_i, (outputs_i, _) in nodes_to_ios.items():\n            for disc_j, (_, inputs_j) in nodes_to_ios.items():", "expect": "8.1"},
    {"name": "peel-in-degree", "file": DG, "old": "return [n for n in graph.nodes if graph.out_degree(n) == 0]", "new": "return [n for n in graph.nodes if graph.in_degree(n) == 0]", "expect": "8.1"},
    {"name": "no-final-reversal", "file": DG, "old": "        return list(reversed(execution_sequence))", "new": "        return list(execution_sequence)", "expect": "8.1"},
    {"name": "edge-without-shared-names", "file": DG, "old": "                    if coupled_io:\n                        graph_add_edge", "new": "                    if True:\n                        graph_add_edge", "expect": "8.1"},
    {"name": "remove-all-but-leaves", "file": DG, "old": "            condensed_graph.remove_nodes_from(leaves)", "new": "            condensed_graph.remove_nodes_from(leaves[:1])", "expect": "8.3"},
    {"name": "stage-drops-members", "file": DG, "old": "                for node_id in leaves\n            ]", "new": "                for node_id in leaves\n                if node_id\n            ]", "expect": "8.3"},
    {"name": "own-scc-routine", "file": DG, "old": "scc=self.__get_ordered_scc(strongly_connected_components(self.__graph)),", "new": "scc=self.__get_ordered_scc(weakly_connected_components(self.__graph)),", "expect": "8.2"},
    {"name": "ordered-scc-drops-member", "file": DG, "old": "            for component in components:\n                index = disciplines.index(component)\n                disc_indexes[index] = component", "new": "            for component in components:\n                index = disciplines.index(component)\n                if index:\n                    disc_indexes[index] = component", "expect": "8.2"},
    {"name": "chain-reversed", "file": CH, "old": "    def _execute(self) -> None:\n        for discipline in self.disciplines:", "new": "    def _execute(self) -> None:\n        for discipline in reversed(self.disciplines):", "expect": "8.4"},
    {"name": "chain-no-propagation", "file": CH, "old": "            self.io.data.update(discipline.execute(self.io.data))", "new": "            discipline.execute(self.io.data)", "expect": "8.4"},
    {"name": "mda-chain-sequence-reversed", "file": MC, "old": "        for parallel_tasks in self.coupling_structure.sequence:", "new": "        for parallel_tasks in reversed(self.coupling_structure.sequence):", "expect": "8.4"},
    {"name": "mda-chain-prepends", "file": MC, "old": "            chained_disciplines.append(process)", "new": "            chained_disciplines.insert(0, process)", "expect": "8.4"},
    {"name": "requires-mda-more-than-two", "file": MC, "old": "        return len(disciplines) > 1 or (", "new": "        return len(disciplines) > 2 or (", "expect": "8.5"},
    {"name": "requires-mda-ignores-self-coupling", "file": MC, "old": "        return len(disciplines) > 1 or (\n            len(disciplines) == 1\n            and self.coupling_structure.is_self_coupled(disciplines[0])\n            and not isinstance(disciplines[0], BaseMDA)\n        )", "new": "        return len(disciplines) > 1", "expect": "8.5"},
    {"name": "derivatives-ignore-self-coupled", "file": MD, "old": "            if len(group) > 1 or (\n                len(group) == 1 and coupling_structure.is_self_coupled(group[0])\n            ):", "new": "            if len(group) > 1:", "expect": "8.5"},
    {"name": "strongly-coupled-ge-one", "file": CS, "old": "                if len(component) > 1:", "new": "                if len(component) > 0:", "expect": "8.5"},
    {"name": "single-for-mda-group", "file": MC, "old": "            if self.__requires_mda(coupled_disciplines):", "new": "            if not self.__requires_mda(coupled_disciplines):", "expect": "8.3"},
]
TWINS = [
    {"name": "grammar-names-property", "file": DG, "old": "                set(disc.io.input_grammar),\n", "new": "                set(disc.io.input_grammar.names),\n"},
    {"name": "intersection-operands-swapped", "file": DG, "old": "coupled_io = outputs_i & inputs_j", "new": "coupled_io = inputs_j & outputs_i"},
    {"name": "reverse-by-slice", "file": DG, "old": "        return list(reversed(execution_sequence))", "new": "        return execution_sequence[::-1]"},
    {"name": "both-edge-and-peel-flipped", "edits": [
        {"file": DG, "old": "graph_add_edge(disc_i, disc_j, io=coupled_io)", "new": "graph_add_edge(disc_j, disc_i, io=coupled_io)"},
        {"file": DG, "old": "graph.out_degree(n) == 0", "new": "graph.in_degree(n) == 0"},
    ]},
    {"name": "len-mirrored", "file": MC, "old": "        return len(disciplines) > 1 or (", "new": "        return 1 < len(disciplines) or ("},
]
