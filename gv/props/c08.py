"""C08 -- execution sequences respect data dependencies (orientation and delegation)."""

from __future__ import annotations

import ast

from gv import rules
from gv.astutil import compare_parts
from gv.astutil import const_value
from gv.astutil import dotted
from gv.astutil import last_attr
from gv.astutil import names_in
from gv.astutil import norm_stmt
from gv.astutil import stmts_of
from gv.astutil import unparse
from gv.astutil import walk_body
from gv.cfg import cfg_of
from gv.props import describe
from gv.props.shared import accumulated_lists
from gv.props.shared import branch_conditions
from gv.props.shared import unfolded
from gv.report import Ctx
from gv.report import cname

DG = "core/dependency_graph.py"
CS = "core/coupling_structure.py"
CH = "core/chains/chain.py"
MC = "mda/mda_chain.py"
MD = "core/derivatives/mda_derivatives.py"

describe(
    "C08",
    explanation=(
        "Equality of the composed execution with the monolithic evaluation is NOT decided. Decided: the "
        "orientation parity of the three sites that together make producers run before consumers (edge "
        "direction x peeled degree x final reversal); the delegation of grouping to networkx strongly connected "
        "components (trusted); every group scheduled once (stages built from, and only from, the peeled "
        "nodes); chains propagate data in sequence order; the three definitions of 'needs an MDA' agree."
    ),
    decided=["8.1 orientation parity", "8.2 SCC delegation (trusted)", "8.3 every discipline once", "8.4 chains follow the sequence", "8.5 one definition of 'needs an MDA'", "8.6 initialisation order credits a discipline with its own defaults only"],
    not_decided=["equality with the monolithic evaluation of the whole system"],
    trusted=["networkx.strongly_connected_components and networkx.condensation"],
)


def check_orientation(ctx: Ctx) -> None:
    # site 1: edge direction
    f = ctx.index.method(DG, "DependencyGraph", "__create_graph")
    con1 = cname(DG, "DependencyGraph", "__create_graph")
    # loops: for disc_i, (_, outputs_i) ...: for disc_j, (inputs_j, _) ...
    loops = [s for s in stmts_of(f) if isinstance(s, ast.For) and isinstance(s.target, ast.Tuple) and len(s.target.elts) == 2 and isinstance(s.target.elts[1], ast.Tuple)]
    ctx.need(len(loops) == 2, "__create_graph: the two loops over (discipline, (inputs, outputs)) were not found")
    # nodes_to_ios[disc] = (inputs, outputs): find the order of the tuple
    # (the map is built by a loop `nodes_to_ios[disc] = (...)` or by a dict comprehension `{disc: (...) for disc in ...}`)
    pairs = [(s.value, next((dotted(s_.target) for s_ in stmts_of(f) if isinstance(s_, ast.For) and s in list(ast.walk(s_))), None), s) for s in stmts_of(f) if isinstance(s, ast.Assign) and isinstance(s.targets[0], ast.Subscript) and isinstance(s.value, ast.Tuple) and len(s.value.elts) == 2]
    pairs += [(s.value.value, dotted(s.value.generators[0].target), s) for s in stmts_of(f) if isinstance(s, ast.Assign) and isinstance(s.value, ast.DictComp) and isinstance(s.value.value, ast.Tuple) and len(s.value.value.elts) == 2 and len(s.value.generators) == 1]
    ctx.need(len(pairs) == 1, "__create_graph: nodes_to_ios[disc] = (inputs, outputs) not found")
    tup, dv, st0 = pairs[0]
    dv = dv or "disc"
    st = [st0]
    order = ["in" if "input_grammar" in unparse(e) else ("out" if "output_grammar" in unparse(e) else "?") for e in tup.elts]
    ctx.need(sorted(order) == ["in", "out"], "__create_graph: the (inputs, outputs) tuple is not built from the grammars")
    # all the names of each grammar take part: an optional input with a default is a dependency as well
    for e, side in zip(tup.elts, order):
        g = f"{dv}.io.{'input' if side == 'in' else 'output'}_grammar"
        accepted = {f"set({g})", f"set({g}.names)", f"set({g}.keys())", f"{g}.names", f"{g}.keys()", f"frozenset({g})", f"set({g}.names_without_namespace)"}
        ctx.ob("8.1-edge", con1, norm_stmt(e) in accepted, f"the {side}put side of the dependency graph must be every name of the {side}put grammar; `{norm_stmt(e)}` leaves names out (e.g. optional inputs), so a consumer can be scheduled before or beside its producer", node=e, stmt=f"all {side}put names of the grammar")
    role = {}  # variable name -> (discipline var, 'in'|'out')
    for lp in loops:
        d = lp.target.elts[0].id
        for pos, e in enumerate(lp.target.elts[1].elts):
            if isinstance(e, ast.Name) and e.id != "_":
                role[e.id] = (d, order[pos])
    inter = [s for s in stmts_of(f) if isinstance(s, ast.Assign) and isinstance(s.value, ast.BinOp) and isinstance(s.value.op, ast.BitAnd)]
    ctx.need(len(inter) == 1, "__create_graph: coupled_io = outputs & inputs not found")
    a, b = dotted(inter[0].value.left), dotted(inter[0].value.right)
    ctx.need(a in role and b in role, "__create_graph: operands of the intersection are not the unpacked grammars")
    producer = role[a][0] if role[a][1] == "out" else (role[b][0] if role[b][1] == "out" else None)
    consumer = role[a][0] if role[a][1] == "in" else (role[b][0] if role[b][1] == "in" else None)
    ok_pair = producer is not None and consumer is not None and producer != consumer
    ctx.ob("8.1-edge", con1, ok_pair, "an edge is labelled with the outputs of one discipline that are inputs of another: the intersection must pair outputs of one loop discipline with inputs of the other", node=inter[0])
    # the add_edge call
    alias = {dotted(s.targets[0]): dotted(s.value) for s in stmts_of(f) if isinstance(s, ast.Assign) and (dotted(s.value) or "").endswith(".add_edge")}
    edges = [c for c in walk_body(f) if isinstance(c, ast.Call) and (last_attr(c) == "add_edge" or dotted(c.func) in alias)]
    ctx.need(len(edges) == 1 and len(edges[0].args) >= 2, "__create_graph: add_edge call not found")
    src, dst = dotted(edges[0].args[0]), dotted(edges[0].args[1])
    s1 = 1 if (src, dst) == (producer, consumer) else (-1 if (src, dst) == (consumer, producer) else 0)
    ctx.ob("8.1-edge", con1, s1 != 0, "the edge must join the producing and the consuming discipline of the shared variables", node=edges[0], stmt="edge joins producer and consumer")
    io_kw = [k for k in edges[0].keywords if k.arg == "io"]
    if not io_kw:
        # **{DependencyGraph.IO: names} / **{"io": names}
        for k in edges[0].keywords:
            if k.arg is None and isinstance(k.value, ast.Dict) and len(k.value.keys) == 1 and (const_value(k.value.keys[0]) == "io" or (dotted(k.value.keys[0]) or "").endswith(".IO")):
                io_kw = [ast.keyword(arg="io", value=k.value.values[0])]
    ctx.ob("8.1-edge", con1, len(io_kw) == 1 and dotted(io_kw[0].value) == dotted(inter[0].targets[0]), "the edge must carry the shared variable names", node=edges[0], stmt="edge labelled with the shared names")
    cfg = cfg_of(f)
    conds = branch_conditions(cfg, cfg.node_of(edges[0]))
    tests = [norm_stmt(cfg.ast[t].test) for t, v in conds if v and cfg.kind[t] == "test"]
    ok = dotted(inter[0].targets[0]) in tests
    ctx.ob("8.1-edge", con1, ok, "an edge is created iff the two disciplines share at least one variable", node=edges[0], stmt="edge iff shared names non-empty")
    # site 2: peeled degree
    g = ctx.index.method(DG, "DependencyGraph", "__get_leaves")
    con2 = cname(DG, "DependencyGraph", "__get_leaves")
    degs = [c for c in walk_body(g) if isinstance(c, ast.Call) and last_attr(c) in ("out_degree", "in_degree")]
    ctx.need(len(degs) == 1, "__get_leaves: degree test not found")
    s2 = -1 if last_attr(degs[0]) == "out_degree" else 1  # out_degree == 0: consumers of nobody = last to run
    cmps = [c for c in walk_body(g) if isinstance(c, ast.Compare) and degs[0] in list(ast.walk(c))]
    ok = len(cmps) == 1 and isinstance(cmps[0].ops[0], ast.Eq) and const_value(cmps[0].comparators[0], 1) == 0
    if not ok:
        # the same selection spelled `not graph.out_degree(n)`, or over the degree view: `for n, d in graph.out_degree() if d == 0`
        comps = [c for c in walk_body(g) if isinstance(c, (ast.ListComp, ast.GeneratorExp, ast.SetComp))]
        for c in comps:
            gen = c.generators[0]
            if len(gen.ifs) != 1:
                continue
            cond = gen.ifs[0]
            if isinstance(cond, ast.UnaryOp) and isinstance(cond.op, ast.Not) and cond.operand is degs[0] and degs[0].args:
                ok = True
            if gen.iter is degs[0] and not degs[0].args and isinstance(gen.target, ast.Tuple) and len(gen.target.elts) == 2:
                dvar = dotted(gen.target.elts[1])
                zero = (isinstance(cond, ast.Compare) and dotted(cond.left) == dvar and isinstance(cond.ops[0], ast.Eq) and const_value(cond.comparators[0], 1) == 0) or (isinstance(cond, ast.UnaryOp) and isinstance(cond.op, ast.Not) and dotted(cond.operand) == dvar)
                ok = zero and dotted(c.elt) == dotted(gen.target.elts[0])
    ctx.ob("8.1-peel", con2, ok, "peeled nodes are those of degree 0", node=(cmps or degs)[0])
    # site 3: final reversal
    h = ctx.index.method(DG, "DependencyGraph", "get_execution_sequence")
    con3 = cname(DG, "DependencyGraph", "get_execution_sequence")
    rets = [s for s in stmts_of(h) if isinstance(s, ast.Return)]
    ctx.need(len(rets) == 1, "get_execution_sequence: return not found")
    rev = [c for c in ast.walk(rets[0].value) if isinstance(c, ast.Call) and dotted(c.func) == "reversed"]
    sl = [n for n in ast.walk(rets[0].value) if isinstance(n, ast.Subscript) and isinstance(n.slice, ast.Slice) and isinstance(n.slice.step, ast.UnaryOp)]
    s3 = -1 if (len(rev) + len(sl)) % 2 == 1 else 1
    # stages accumulate by append (+=): order of peeling
    acc = [s for s in stmts_of(h) if isinstance(s, ast.AugAssign) and dotted(s.target) == "execution_sequence"] + [c for c in walk_body(h) if isinstance(c, ast.Call) and norm_stmt(c.func) == "execution_sequence.append"]
    ins = [c for c in walk_body(h) if isinstance(c, ast.Call) and norm_stmt(c.func) == "execution_sequence.insert"]
    if ins and not acc:
        s3 = -s3  # inserting at the front is a reversal
    parity = s1 * s2 * s3
    ctx.ob("8.1-parity", con3, parity == 1, f"producers must be scheduled before consumers: edge direction ({'producer->consumer' if s1 == 1 else 'consumer->producer'}) x peeled degree ({'out' if s2 == -1 else 'in'}) x final order ({'reversed' if s3 == -1 else 'kept'}) has the wrong parity; a single flip among the three sites reverses the whole schedule", node=rets[0], slots={"edge": s1, "peel": s2, "reverse": s3})
    # 8.3 every discipline once
    cfgh = cfg_of(h)
    leaves = [s for s in stmts_of(h) if isinstance(s, ast.Assign) and isinstance(s.value, ast.Call) and last_attr(s.value).endswith("__get_leaves")]
    ctx.need(len(leaves) == 1, "get_execution_sequence: leaves = __get_leaves(graph) not found")
    lv = dotted(leaves[0].targets[0])
    gname = dotted(leaves[0].value.args[0]) if leaves[0].value.args else None
    rm = [c for c in walk_body(h) if isinstance(c, ast.Call) and last_attr(c) in ("remove_nodes_from", "remove_node")]
    ok = len(rm) == 1 and dotted(rm[0].func.value) == gname and dotted(rm[0].args[0]) == lv
    ctx.ob("8.3-once", con3, ok, "exactly the peeled nodes must be removed from the condensed graph: removing others drops disciplines from the schedule, removing fewer never terminates", node=(rm or [h])[0])
    comp = [n for n in walk_body(h) if isinstance(n, ast.ListComp)]
    ok = len(comp) == 1 and dotted(comp[0].generators[0].iter) == lv and not comp[0].generators[0].ifs and "members" in unparse(comp[0].elt) and dotted(comp[0].generators[0].target) in names_in(comp[0].elt)
    ctx.ob("8.3-once", con3, ok, "each stage must hold the members of every peeled node (and of them only)", node=(comp or [h])[0])
    brk = [s for s in stmts_of(h) if isinstance(s, ast.Break)]
    from gv.props.shared import literal_facts as _lf

    fb = _lf(cfgh, cfgh.node_of(brk[0])) if len(brk) == 1 else {}
    ok = len(brk) == 1 and (fb.get(lv) is False or fb.get(f"len({lv})") is False or fb.get(f"len({lv}) == 0") is True)
    ctx.ob("8.3-once", con3, ok, "peeling stops only when no leaf is left", node=(brk or [h])[0])
    if rm and acc:
        ok = cfgh.reachable(cfgh.node_of(acc[0]), cfgh.node_of(rm[0])) or cfgh.reachable(cfgh.node_of(rm[0]), cfgh.node_of(acc[0]))
    # 8.2 SCC delegation
    k = ctx.index.method(DG, "DependencyGraph", "__create_condensed_graph")
    con4 = cname(DG, "DependencyGraph", "__create_condensed_graph")
    mod = ctx.index.module(DG)
    cond = [c for c in walk_body(k) if isinstance(c, ast.Call) and dotted(c.func) == "condensation"]
    scc = [c for c in walk_body(k) if isinstance(c, ast.Call) and dotted(c.func) == "strongly_connected_components"]
    ok = len(cond) == 1 and len(scc) == 1 and "networkx" in mod.imports.get("condensation", "") and "networkx" in mod.imports.get("strongly_connected_components", "") and dotted(cond[0].args[0]) == dotted(scc[0].args[0])
    ctx.ob("8.2-scc", con4, ok, "groups of mutually dependent disciplines must be the strongly connected components computed by networkx on the same graph", node=(cond or [k])[0])
    o = ctx.index.method(DG, "DependencyGraph", "__get_ordered_scc")
    ys = [n for n in walk_body(o) if isinstance(n, ast.Yield)]
    lp = [s for s in stmts_of(o) if isinstance(s, ast.For) and dotted(s.iter) == o.args.args[1].arg]
    ok = len(ys) == 1 and len(lp) == 1
    if ok:
        inner = [s for s in ast.walk(lp[0]) if isinstance(s, ast.For) and dotted(s.iter) == dotted(lp[0].target)]
        ok = len(inner) == 1 and not any(isinstance(x, (ast.If, ast.Continue, ast.Break)) for x in ast.walk(inner[0]))
    if not ok and len(ys) == 1 and len(lp) == 1:
        # `yield sorted(component, key=...)`: a permutation of the component by construction
        v_ = ys[0].value
        if isinstance(v_, ast.Call) and dotted(v_.func) in ("list", "tuple") and len(v_.args) == 1:
            v_ = v_.args[0]
        ok = isinstance(v_, ast.Call) and dotted(v_.func) == "sorted" and v_.args and dotted(v_.args[0]) == dotted(lp[0].target) and any(sub is ys[0] for sub in ast.walk(lp[0]))
    ctx.ob("8.2-scc", cname(DG, "DependencyGraph", "__get_ordered_scc"), ok, "__get_ordered_scc may only reorder the members of each component (one yield per component, every member kept)", node=(ys or [o])[0])
    # the sequence used everywhere is this one
    init = ctx.index.method(CS, "CouplingStructure", "__init__")
    seq = rules.assigns_to_self(init, "sequence")
    # `self.sequence = <graph>.get_execution_sequence()` where <graph> is what self.graph holds: DependencyGraph(disciplines)
    gr = rules.assigns_to_self(init, "graph")
    ok = len(seq) == 1 and len(gr) == 1 and isinstance(seq[0].value, ast.Call) and last_attr(seq[0].value) == "get_execution_sequence"
    if ok:
        recv = seq[0].value.func.value
        g_alts = unfolded(init, gr[0], get=lambda st: st.value) or [gr[0].value]
        r_alts = [gr[0].value] if dotted(recv) == "self.graph" else (unfolded(init, recv) or [recv])
        is_graph = lambda a_: isinstance(a_, ast.Call) and dotted(a_.func) == "DependencyGraph" and a_.args and dotted(a_.args[0]) == "disciplines"  # noqa: E731
        ok = all(is_graph(a_) for a_ in g_alts) and (dotted(recv) == "self.graph" or (all(is_graph(a_) for a_ in r_alts) and dotted(recv) == dotted(gr[0].value)))
    ctx.ob("8.2-scc", cname(CS, "CouplingStructure", "__init__"), ok, "the coupling structure's sequence must be the execution sequence of the dependency graph of its own disciplines", node=(seq or [init])[0])


def check_chains(ctx: Ctx) -> None:
    f = ctx.index.method(CH, "MDOChain", "_execute")
    con = cname(CH, "MDOChain", "_execute")
    loops = [s for s in stmts_of(f) if isinstance(s, ast.For)]
    ok = len(loops) == 1 and dotted(loops[0].iter) == "self.disciplines"
    ctx.ob("8.4-chain", con, ok, "a chain must execute its disciplines in their listed order", node=(loops or [f])[0])
    if ok:
        d = dotted(loops[0].target)
        ex = [c for c in ast.walk(loops[0]) if isinstance(c, ast.Call) and last_attr(c) == "execute" and dotted(c.func.value) == d]
        ok = len(ex) == 1 and dotted(ex[0].args[0]) == "self.io.data"
        ctx.ob("8.4-chain", con, ok, "each discipline must run on the chain's current data", node=(ex or loops)[0])
        up = [c for c in ast.walk(loops[0]) if isinstance(c, ast.Call) and norm_stmt(c.func) == "self.io.data.update"]
        ok = len(up) == 1 and (ex and (ex[0] in list(ast.walk(up[0])) or d in names_in(up[0])))
        ctx.ob("8.4-chain", con, bool(ok), "the outputs of each discipline must be merged into the chain's data before the next one runs", node=(up or loops)[0])
    g = ctx.index.method(MC, "MDAChain", "_create_mdo_chain")
    con2 = cname(MC, "MDAChain", "_create_mdo_chain")
    accs = [a for a in accumulated_lists(g) if norm_stmt(a["iter"]) == "self.coupling_structure.sequence"]
    ok = len(accs) == 1
    ctx.ob("8.4-mda-chain", con2, ok, "the MDA chain must follow the execution sequence, stage by stage, in order", node=(accs[0]["node"] if accs else g), stmt="one pass over self.coupling_structure.sequence")
    if ok:
        acc = accs[0]
        tv = dotted(acc["target"])
        ok = not acc["conditional"] and all(isinstance(e_, ast.Call) and (last_attr(e_) or "").endswith("__create_process_from_disciplines") and e_.args and dotted(e_.args[0]) == tv for e_ in acc["elements"])
        ctx.ob("8.4-mda-chain", con2, ok, "one process per stage, appended in stage order", node=acc["node"], stmt="one process per stage, in stage order")
        lst = acc["name"]
        rets = [s for s in stmts_of(g) if isinstance(s, ast.Return)]
        ok = len(rets) == 1 and isinstance(rets[0].value, ast.Call) and dotted(rets[0].value.func) == "MDOChain" and dotted(rets[0].value.args[0]) == lst
        ctx.ob("8.4-mda-chain", con2, ok, "the stages must be chained sequentially (MDOChain) in that order", node=(rets or [g])[0])
    p = ctx.index.method(MC, "MDAChain", "__compute_parallel_disciplines")
    con3 = cname(MC, "MDAChain", "__compute_parallel_disciplines")
    cfg = cfg_of(p)
    loops = [s for s in stmts_of(p) if isinstance(s, ast.For) and dotted(s.iter) == p.args.args[1].arg]
    ctx.need(len(loops) == 1, "__compute_parallel_disciplines: loop over the groups not found")
    grp = dotted(loops[0].target)
    ap = [c for c in ast.walk(loops[0]) if isinstance(c, ast.Call) and norm_stmt(c.func) == "parallel_disciplines.append"]
    ok = len(ap) == 1 and not [tv for tv in branch_conditions(cfg, cfg.node_of(ap[0])) if cfg.kind[tv[0]] == "test"]
    ctx.ob("8.3-once", con3, ok, "every group of a stage yields exactly one process (MDA or single discipline)", node=(ap or loops)[0])
    single = [s for s in ast.walk(loops[0]) if isinstance(s, ast.Assign) and isinstance(s.value, ast.Subscript) and dotted(s.value.value) == grp]
    ok = len(single) == 1 and const_value(single[0].value.slice, 1) == 0
    if ok:
        conds = [(t, v) for t, v in branch_conditions(cfg, cfg.node_of(single[0])) if cfg.kind[t] == "test"]
        ok = len(conds) == 1
        if ok:
            from gv.props.shared import conj_literals

            cl = conj_literals(cfg.ast[conds[0][0]].test)
            ok = len(cl) == 1 and "__requires_mda" in norm_stmt(cl[0][1]) and (cl[0][0] != conds[0][1])
    ctx.ob("8.3-once", con3, ok, "a group is replaced by its single discipline only when it does not require an MDA", node=(single or loops)[0])
    mda = [c for c in ast.walk(loops[0]) if isinstance(c, ast.Call) and "__inner_mda_class" in (dotted(c.func) or "")]
    ok = len(mda) == 1 and any(k.arg == "disciplines" for k in mda[0].keywords)
    if ok:
        dv = dotted(next(k.value for k in mda[0].keywords if k.arg == "disciplines"))
        dd = [s for s in ast.walk(loops[0]) if isinstance(s, ast.Assign) and dotted(s.targets[0]) == dv]
        ok = len(dd) == 1 and isinstance(dd[0].value, ast.ListComp) and len(dd[0].value.generators[0].ifs) == 1 and grp in names_in(dd[0].value.generators[0].ifs[0]) and isinstance(dd[0].value.generators[0].ifs[0], ast.Compare) and isinstance(dd[0].value.generators[0].ifs[0].ops[0], ast.In)
        if ok:
            # membership of the discipline OBJECT in the group: two disciplines may have the same name, and a test on the
            # name (or any attribute) pulls a namesake that is not coupled into the inner MDA
            g_ = dd[0].value.generators[0]
            t_ = g_.ifs[0]
            ok = dotted(t_.left) == dotted(g_.target) and dotted(t_.comparators[0]) == grp and dotted(dd[0].value.elt) == dotted(g_.target)
    ctx.ob("8.3-once", con3, ok, "the inner MDA of a group must contain exactly the disciplines of that group", node=(mda or loops)[0])


def _needs_mda_shape(e: ast.AST, group: str, need_self_coupled: bool) -> tuple[bool, str]:
    """``len(g) > 1 or (... is_self_coupled(g[0]) ...)``"""
    txt = norm_stmt(e, 200)
    parts = e.values if isinstance(e, ast.BoolOp) and isinstance(e.op, ast.Or) else [e]
    big = False
    for p in parts:
        cp = compare_parts(p)
        if cp and isinstance(cp[0], ast.Call) and dotted(cp[0].func) == "len" and dotted(cp[0].args[0]) == group and cp[1] is ast.Gt and const_value(cp[2]) == 1:
            big = True
        if cp and isinstance(cp[2], ast.Call) and dotted(cp[2].func) == "len" and cp[1] is ast.Lt and const_value(cp[0]) == 1:
            big = True
    selfc = any(isinstance(c, ast.Call) and last_attr(c) == "is_self_coupled" for c in ast.walk(e))
    return big and (selfc or not need_self_coupled), txt


def check_needs_mda(ctx: Ctx) -> None:
    f = ctx.index.method(MC, "MDAChain", "__requires_mda")
    rets = [s for s in stmts_of(f) if isinstance(s, ast.Return)]
    ok, txt = _needs_mda_shape(rets[0].value, f.args.args[1].arg, True) if len(rets) == 1 else (False, "")
    # the predicate only compares len(group) with constants and combines two boolean facts: it is decided over all their
    # orderings / truth values, whatever its spelling
    from gv.ordering import Unsupported
    from gv.ordering import same_predicate

    grp = f.args.args[1].arg
    iso = [c for c in walk_body(f) if isinstance(c, ast.Call) and dotted(c.func) == "isinstance"]
    scs = [c for c in walk_body(f) if isinstance(c, ast.Call) and last_attr(c) == "is_self_coupled"]
    if len(iso) == 1 and len(scs) == 1:
        import copy as _copy

        atoms = {f"len({grp})": "n"}
        # the two boolean facts, with the group's single member spelled `group[0]`
        g2 = _copy.deepcopy(f)
        try:
            ok, cex = same_predicate(
                g2,
                {f"len({grp})": "n", f"self.coupling_structure.is_self_coupled({grp}[0])": "sc", norm_stmt(iso[0]).replace(norm_stmt(iso[0].args[0]), f"{grp}[0]"): "mda"},
                lambda n, sc, mda: n > 1 or (n == 1 and sc != 0 and mda == 0),
                constants=(0, 1),
                where=lambda n, sc, mda: sc in (0, 1) and mda in (0, 1) and n >= 0,
            )
            txt = f"counter-example: {cex}" if cex else txt
        except Unsupported:
            pass  # keep the verdict of the syntactic rule
    ctx.ob("8.5-needs-mda", cname(MC, "MDAChain", "__requires_mda"), ok, "a group needs an MDA iff it has more than one discipline or its single discipline is self-coupled (and is not already an MDA)" + (f" ({txt})" if not ok else ""), node=(rets or [f])[0], stmt="needs an MDA iff several disciplines, or one self-coupled that is not an MDA")
    # the only single self-coupled disciplines that need no inner MDA are those that solve their own coupling: MDAs
    mod = ctx.index.module(MC)
    base_mda = ctx.index.resolve_qualified("gemseo.mda.base_mda.BaseMDA")
    ctx.need(base_mda is not None, "BaseMDA not found")
    for r in rets:
        for c in ast.walk(r.value):
            if isinstance(c, ast.Call) and dotted(c.func) == "isinstance" and len(c.args) == 2:
                names = [dotted(e_) for e_ in (c.args[1].elts if isinstance(c.args[1], ast.Tuple) else [c.args[1]])]
                bad = []
                for nm in names:
                    q = mod.imports.get((nm or "").split(".")[0])
                    ci = ctx.index.resolve_qualified(q + ("." + nm.split(".", 1)[1] if nm and "." in nm else "")) if q else (mod.classes.get(nm) if nm else None)
                    if ci is None or not ctx.index.is_subclass(ci, base_mda):
                        bad.append(nm)
                ctx.ob("8.5-needs-mda", cname(MC, "MDAChain", "__requires_mda"), not bad, f"a self-coupled discipline is exempted from the inner MDA because it is a {bad}: only an MDA converges its own coupling; any other self-coupled discipline (a chain, a scenario adapter) executed once returns non-converged data", node=c, stmt=f"exempted classes are MDAs: {names}")
    g = ctx.index.func(MD, "_replace_strongly_coupled")
    cfg = cfg_of(g)
    merged = [s for s in stmts_of(g) if isinstance(s, ast.Assign) and isinstance(s.value, ast.Call) and dotted(s.value.func) == "DummyDiscipline"]
    ctx.need(len(merged) == 1, "_replace_strongly_coupled: merged discipline creation not found")
    conds = [(t, v) for t, v in branch_conditions(cfg, cfg.node_of(merged[0])) if cfg.kind[t] == "test"]
    ok = len(conds) == 1 and conds[0][1]
    if ok:
        lp = [s for s in stmts_of(g) if isinstance(s, ast.For) and any(sub is cfg.ast[conds[0][0]] for sub in ast.walk(s))][-1]
        ok, _ = _needs_mda_shape(cfg.ast[conds[0][0]].test, dotted(lp.target), True)
    ctx.ob("8.5-needs-mda", cname(MD, None, "_replace_strongly_coupled"), ok, "the derivative traversal must merge exactly the groups that need an MDA (more than one discipline, or a self-coupled one)", node=merged[0])
    h = ctx.index.method(CS, "CouplingStructure", "get_strongly_coupled_disciplines")
    cfgh = cfg_of(h)
    calls = [c for c in walk_body(h) if isinstance(c, ast.Call) and dotted(c.func) == "strong_disc_update"]
    ctx.need(len(calls) == 2, "get_strongly_coupled_disciplines: the two update sites were not found")
    big = [c for c in calls if dotted(c.args[0]) == "component"]
    ok = len(big) == 1
    if ok:
        conds = [(t, v) for t, v in branch_conditions(cfgh, cfgh.node_of(big[0])) if cfgh.kind[t] == "test"]
        ok = len(conds) == 1 and conds[0][1] and _needs_mda_shape(cfgh.ast[conds[0][0]].test, "component", False)[0]
    ctx.ob("8.5-needs-mda", cname(CS, "CouplingStructure", "get_strongly_coupled_disciplines"), ok, "groups of more than one discipline are strongly coupled", node=(big or calls)[0])
    small = [c for c in calls if c not in big]
    ok = len(small) == 1
    if ok:
        conds = [(t, v) for t, v in branch_conditions(cfgh, cfgh.node_of(small[0])) if cfgh.kind[t] == "test"]
        txts = [norm_stmt(cfgh.ast[t].test) for t, v in conds if v]
        ok = "add_self_coupled" in txts and any("is_self_coupled" in t for t in txts)
    ctx.ob("8.5-needs-mda", cname(CS, "CouplingStructure", "get_strongly_coupled_disciplines"), ok, "a single discipline is strongly coupled iff it is self-coupled (when add_self_coupled)", node=(small or calls)[0])
    # same iteration order in the two routines zipped together
    for fn, con in ((g, cname(MD, None, "_replace_strongly_coupled")), (h, cname(CS, "CouplingStructure", "get_strongly_coupled_disciplines"))):
        loops = [s for s in stmts_of(fn) if isinstance(s, ast.For)]
        outer = [s for s in loops if (dotted(s.iter) or "").endswith("sequence")]
        ok = len(outer) == 1 and any(dotted(s.iter) == dotted(outer[0].target) for s in loops)
        ctx.ob("8.5-order", con, ok, "groups must be visited in sequence order (stage by stage, group by group): the traversal zips the merged disciplines with the strongly coupled groups", node=(outer or [fn])[0])
    z = ctx.index.func(MD, "traverse_add_diff_io_mda")
    zips = [c for c in walk_body(z) if isinstance(c, ast.Call) and dotted(c.func) == "zip"]
    ctx.ob("8.5-order", cname(MD, None, "traverse_add_diff_io_mda"), len(zips) >= 1, "traverse_add_diff_io_mda pairs strong groups and merged disciplines positionally", node=(zips or [z])[0])
    # strong couplings definition
    s = ctx.index.method(CS, "CouplingStructure", "_compute_strong_couplings")
    calls = [c for c in walk_body(s) if isinstance(c, ast.Call) and last_attr(c) == "get_strongly_coupled_disciplines"]
    ok = len(calls) == 1 and any(k.arg == "by_group" and const_value(k.value) is True for k in calls[0].keywords)
    inter = [n for n in walk_body(s) if isinstance(n, ast.BinOp) and isinstance(n.op, ast.BitAnd)]
    ok = ok and len(inter) == 1 and sorted(names_in(inter[0]) - {"set"}) == ["inputs", "outputs"]
    ctx.ob("8.5-strong-couplings", cname(CS, "CouplingStructure", "_compute_strong_couplings"), ok, "strong couplings are, group by group, the variables that are both inputs and outputs of the disciplines of the group", node=(inter or [s])[0])


IC = "core/chains/initialization_chain.py"


def check_initialization_order(ctx: Ctx) -> None:
    """8.6: the greedy initialisation order schedules a discipline only when each of its inputs is one of ITS OWN
    defaults, externally available, or an output of a discipline scheduled before."""
    from gv.dataflow import SymValues

    f = ctx.index.func(IC, "order_disciplines_from_default_inputs")
    con = cname(IC, None, "order_disciplines_from_default_inputs")
    sv = SymValues(f)
    grow = [c for c in walk_body(f) if isinstance(c, ast.Call) and isinstance(c.func, ast.Attribute) and c.func.attr in ("extend", "update", "append", "add") and isinstance(c.func.value, ast.Name) and c.args and "output_grammar" in norm_stmt(c.args[0])]
    if not grow:
        ctx.ob("8.6-init-order", con, False, "the names made available by a scheduled discipline must be its OUTPUTS (available += discipline.io.output_grammar): nothing of that form is found", node=f, stmt="available += outputs of the scheduled discipline")
        return
    avail = grow[0].func.value.id
    cfg = sv.cfg
    for g in grow:
        gn = cfg.node_of(g)
        loops = [s_ for s_ in stmts_of(f) if isinstance(s_, ast.For) and any(sub is g for sub in ast.walk(s_))]
        ctx.need(loops, "the extension of the available names is not in a loop over the remaining disciplines")
        lv = dotted(loops[-1].target)
        tests = [t for t, v in branch_conditions(cfg, gn) if cfg.kind[t] == "test" and any(sub is cfg.ast[t] for sub in ast.walk(loops[-1]))]
        ctx.need(len(tests) == 1, "the readiness test of the candidate discipline was not found")
        tst = cfg.ast[tests[0]].test
        ok = (names_in(g.args[0]) & {lv}) == {lv} and g.func.value.id == avail
        ctx.ob("8.6-init-order", con, ok, "the names made available must be the outputs of the discipline being scheduled", node=g, stmt="available += outputs of the scheduled discipline")
        for alt in sv.exprs(tst):
            # operands removed from the required inputs: .difference(x) arguments and right operands of `-`
            removed, base = [], []
            for n_ in ast.walk(alt):
                if isinstance(n_, ast.Call) and isinstance(n_.func, ast.Attribute) and n_.func.attr == "difference":
                    removed.extend(n_.args)
                elif isinstance(n_, ast.BinOp) and isinstance(n_.op, ast.Sub):
                    removed.append(n_.right)
            bad = [norm_stmt(r_, 60) for r_ in removed if not (dotted(r_) == avail or lv in names_in(r_))]
            has_own = any(lv in names_in(r_) and "defaults" in norm_stmt(r_) for r_ in removed)
            has_avail = any(dotted(r_) == avail for r_ in removed)
            req = any(isinstance(n_, ast.Attribute) and n_.attr == "input_grammar" and lv in names_in(n_) for n_ in ast.walk(alt))
            ctx.ob("8.6-init-order", con, bool(removed) and not bad and has_own and has_avail and req, f"a discipline is ready when its inputs minus its own defaults minus the available names is empty; here the inputs are credited with {bad or 'something else'}: a discipline can then be scheduled before the producer of one of its inputs", node=cfg.ast[tests[0]], stmt="ready iff inputs - own defaults - available is empty")
    ctx.floor("8.6-init-order", 2)


def run(ctx: Ctx) -> None:
    check_orientation(ctx)
    check_initialization_order(ctx)
    check_chains(ctx)
    check_needs_mda(ctx)


# ---------------------------------------------------------------------------
WITNESSES = [
    {"name": "init-order-ignores-own-defaults-only", "file": IC, "old": "                available_data_names.extend(disc.io.output_grammar)\n", "new": "                available_data_names.extend(disc.io.input_grammar)\n", "expect": "8.6"},
    {"name": "edges-from-required-inputs-only", "file": DG, "old": "                set(disc.io.input_grammar),\n", "new": "                set(disc.io.input_grammar.required_names),\n", "expect": "8.1"},
    {"name": "edge-reversed", "file": DG, "old": "graph_add_edge(disc_i, disc_j, io=coupled_io)", "new": "graph_add_edge(disc_j, disc_i, io=coupled_io)", "expect": "8.1"},
    {"name": "inputs-outputs-swapped-in-intersection", "file": DG, "old": "        for disc_i, (_, outputs_i) in nodes_to_ios.items():\n            for disc_j, (inputs_j, _) in nodes_to_ios.items():", "new": "        for disc_i, (outputs_i, _) in nodes_to_ios.items():\n            for disc_j, (_, inputs_j) in nodes_to_ios.items():", "expect": "8.1"},
    {"name": "peel-in-degree", "file": DG, "old": "return [n for n in graph.nodes if graph.out_degree(n) == 0]", "new": "return [n for n in graph.nodes if graph.in_degree(n) == 0]", "expect": "8.1"},
    {"name": "no-final-reversal", "file": DG, "old": "        return list(reversed(execution_sequence))", "new": "        return list(execution_sequence)", "expect": "8.1"},
    {"name": "edge-without-shared-names", "file": DG, "old": "                    if coupled_io:\n                        graph_add_edge", "new": "                    if True:\n                        graph_add_edge", "expect": "8.1"},
    {"name": "remove-all-but-leaves", "file": DG, "old": "            condensed_graph.remove_nodes_from(leaves)", "new": "            condensed_graph.remove_nodes_from(leaves[:1])", "expect": "8.3"},
    {"name": "stage-drops-members", "file": DG, "old": "                for node_id in leaves\n            ]", "new": "                for node_id in leaves\n                if node_id\n            ]", "expect": "8.3"},
    {"name": "own-scc-routine", "file": DG, "old": "scc=self.__get_ordered_scc(strongly_connected_components(self.__graph)),", "new": "scc=self.__get_ordered_scc(weakly_connected_components(self.__graph)),", "expect": "8.2"},
    {"name": "ordered-scc-drops-member", "file": DG, "old": "            for component in components:\n                index = disciplines.index(component)\n                disc_indexes[index] = component", "new": "            for component in components:\n                index = disciplines.index(component)\n                if index:\n                    disc_indexes[index] = component", "expect": "8.2"},
    {"name": "chain-reversed", "file": CH, "old": "    def _execute(self) -> None:\n        for discipline in self.disciplines:", "new": "    def _execute(self) -> None:\n        for discipline in reversed(self.disciplines):", "expect": "8.4"},
    {"name": "chain-no-propagation", "file": CH, "old": "            self.io.data.update(discipline.execute(self.io.data))", "new": "            discipline.execute(self.io.data)", "expect": "8.4"},
    {"name": "mda-chain-sequence-reversed", "file": MC, "old": "        for parallel_tasks in self.coupling_structure.sequence:", "new": "        for parallel_tasks in reversed(self.coupling_structure.sequence):", "expect": "8.4"},
    {"name": "mda-chain-prepends", "file": MC, "old": "            chained_disciplines.append(process)", "new": "            chained_disciplines.insert(0, process)", "expect": "8.4"},
    {"name": "requires-mda-more-than-two", "file": MC, "old": "        return len(disciplines) > 1 or (", "new": "        return len(disciplines) > 2 or (", "expect": "8.5"},
    {"name": "requires-mda-ignores-self-coupling", "file": MC, "old": "        return len(disciplines) > 1 or (\n            len(disciplines) == 1\n            and self.coupling_structure.is_self_coupled(disciplines[0])\n            and not isinstance(disciplines[0], BaseMDA)\n        )", "new": "        return len(disciplines) > 1", "expect": "8.5"},
    {"name": "derivatives-ignore-self-coupled", "file": MD, "old": "            if len(group) > 1 or (\n                len(group) == 1 and coupling_structure.is_self_coupled(group[0])\n            ):", "new": "            if len(group) > 1:", "expect": "8.5"},
    {"name": "strongly-coupled-ge-one", "file": CS, "old": "                if len(component) > 1:", "new": "                if len(component) > 0:", "expect": "8.5"},
    {"name": "single-for-mda-group", "file": MC, "old": "            if self.__requires_mda(coupled_disciplines):", "new": "            if not self.__requires_mda(coupled_disciplines):", "expect": "8.3"},
]
TWINS = [
    {"name": "grammar-names-property", "file": DG, "old": "                set(disc.io.input_grammar),\n", "new": "                set(disc.io.input_grammar.names),\n"},
    {"name": "intersection-operands-swapped", "file": DG, "old": "coupled_io = outputs_i & inputs_j", "new": "coupled_io = inputs_j & outputs_i"},
    {"name": "reverse-by-slice", "file": DG, "old": "        return list(reversed(execution_sequence))", "new": "        return execution_sequence[::-1]"},
    {"name": "both-edge-and-peel-flipped", "edits": [
        {"file": DG, "old": "graph_add_edge(disc_i, disc_j, io=coupled_io)", "new": "graph_add_edge(disc_j, disc_i, io=coupled_io)"},
        {"file": DG, "old": "graph.out_degree(n) == 0", "new": "graph.in_degree(n) == 0"},
    ]},
    {"name": "len-mirrored", "file": MC, "old": "        return len(disciplines) > 1 or (", "new": "        return 1 < len(disciplines) or ("},
]
