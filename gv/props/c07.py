"""C07 -- coupled total derivatives: assembly structure."""

from __future__ import annotations

import ast

from gv import rules
from gv.astutil import AnalysisError
from gv.astutil import arg_or_kw
from gv.astutil import as_update
from gv.astutil import compare_parts
from gv.astutil import dotted
from gv.astutil import last_attr
from gv.astutil import mangle
from gv.astutil import names_in
from gv.astutil import norm_stmt
from gv.astutil import param_names
from gv.astutil import stmts_of
from gv.astutil import walk_body
from gv.cfg import cfg_of
from gv.cursor import check_cursor_loops
from gv.props import describe
from gv.props.c06 import check_identity_blocks
from gv.props.shared import branch_conditions
from gv.props.shared import expand_accessor
from gv.props.shared import unfolded
from gv.report import Ctx
from gv.report import cname
from gv.shapes import ShapeAnalysis
from gv.shapes import arr
from gv.shapes import one
from gv.shapes import single

ASM = "core/derivatives/jacobian_assembly.py"
JOP = "core/derivatives/jacobian_operator.py"

describe(
    "C07",
    explanation=(
        "Numerical accuracy of the coupled derivatives is NOT decided. Decided: axis-kind typing (R residual "
        "rows, Y couplings, X variables, F function rows) of the four solve routines and of their call site: "
        "every index, broadcast, matrix product, linear solve and stored block is kind-sound and the result is "
        "F x X; the right-hand side and combination signs agree across the four siblings; -I is applied on a copy "
        "in the three matrix representations; the mode dispatch is exhaustive and AUTO resolves to DIRECT iff "
        "n_variables <= n_functions; block cursors advance by the loop's own sizes; the minimal-couplings cache "
        "is keyed by the whole (variables, functions) request."
    ),
    decided=["7.1 dimensions/transposes of the solve routines", "7.2 sign agreement", "7.3 -I in all representations", "7.4 mode dispatch and block placement", "7.5 minimal-couplings cache key", "7.7 local data reset to the given data whether or not the discipline executes"],
    not_decided=["conditioning and linear-solver accuracy", "equality with the closed-form implicit-function expression"],
    trusted=["scipy.sparse.linalg.factorized / GEMSEO linear solvers solve A x = b"],
)

PARAM_KINDS = {
    "dres_dx": arr("R", "X"),
    "dres_dy": arr("R", "Y"),
    "dres_dy_t": arr("Y", "R"),
    "dfun_dx": one(("dict", ("arr", ("F", "X")))),
    "dfun_dy": one(("dict", ("arr", ("F", "Y")))),
    "n_variables": one(("dim", "X")),
    "n_couplings": one(("dim", "Y")),
}
RESULT = ("dict", ("arr", ("F", "X")))


class _Shapes(ShapeAnalysis):
    """Axis-kind typing in which a chained assignment ``a = d[k] = v`` stores into every target (the engine's effect
    looks at single-target assignments only): ``d`` becomes a mapping of ``v`` whether or not the value is also named."""

    def _effect(self, node, env):
        if isinstance(node, ast.Assign) and len(node.targets) > 1:
            out = None
            for t in node.targets:
                new = super()._effect(ast.copy_location(ast.Assign(targets=[t], value=node.value), node), env if out is None else out)
                if new is not None:
                    out = new
            return out
        return super()._effect(node, env)


def _alpha(e: ast.AST) -> str:
    """Text of an expression up to the names of its comprehension variables and to list/generator comprehension."""
    import copy

    e = copy.deepcopy(e)
    ren: dict[str, str] = {}
    for n in ast.walk(e):
        if isinstance(n, ast.comprehension):
            for t in ast.walk(n.target):
                if isinstance(t, ast.Name):
                    ren.setdefault(t.id, f"_v{len(ren)}")

    class R(ast.NodeTransformer):
        def visit_Name(self, n):  # noqa: N802
            return ast.copy_location(ast.Name(id=ren[n.id], ctx=n.ctx), n) if n.id in ren else n

        def visit_ListComp(self, n):  # noqa: N802
            self.generic_visit(n)
            return ast.copy_location(ast.GeneratorExp(elt=n.elt, generators=n.generators), n)

    return ast.unparse(ast.fix_missing_locations(R().visit(e)))


_INIT_CACHE: dict = {}


def unfolded_from_entry(func: ast.AST, node: ast.AST, facts: dict[str, bool] | None = None, get=None) -> list[ast.AST] | None:
    """``unfolded`` in which a parameter that is re-assigned on some paths only keeps its entry value as an alternative.

    The symbolic values start from an empty environment, so at a join a name bound on one side only (a parameter
    re-assigned under a condition) would lose the other side; every parameter is therefore first bound to itself."""
    import copy

    if id(func) not in _INIT_CACHE:
        g = copy.deepcopy(func)
        first = g.body[0]
        inits = [ast.copy_location(ast.Assign(targets=[ast.Name(id=p, ctx=ast.Store())], value=ast.Name(id=p, ctx=ast.Load())), first) for p in param_names(func)]
        for st in inits:
            for sub in ast.walk(st):
                ast.copy_location(sub, first)
                sub.end_lineno, sub.end_col_offset = first.lineno, first.col_offset  # an empty span: matches no real node
        g.body[:0] = inits
        _INIT_CACHE[id(func)] = (func, g)
    g = _INIT_CACHE[id(func)][1]

    def loc(n):
        return (type(n), getattr(n, "lineno", None), getattr(n, "col_offset", None), getattr(n, "end_lineno", None), getattr(n, "end_col_offset", None))

    twin = [n for n in ast.walk(g) if loc(n) == loc(node)]
    if not twin:
        raise AnalysisError(f"{norm_stmt(node)!r} not found again in {getattr(func, 'name', '?')}")
    return unfolded(g, twin[0], facts, get)


_SIGN_KEEPING_FUNCS = {"csc_matrix", "csr_matrix", "dok_matrix", "array", "asarray", "np_array", "atleast_1d", "atleast_2d", "real", "ascontiguousarray", "to_real", "copy", "deepcopy", "transpose", "squeeze", "ravel"}
_SIGN_KEEPING_METHODS = {"toarray", "todense", "copy", "astype", "tocsr", "tocsc", "todok", "tolil", "tocoo", "squeeze", "ravel", "flatten", "view", "transpose", "reshape"}


def _signed(e: ast.AST) -> tuple[int, ast.AST]:
    """(sign, core): ``e`` is ``sign * core`` up to operations that keep the sign of every entry (transposition,
    densification, format conversion, copy, reshape)."""
    if isinstance(e, ast.UnaryOp) and isinstance(e.op, (ast.USub, ast.UAdd)):
        sg, c = _signed(e.operand)
        return (-sg if isinstance(e.op, ast.USub) else sg), c
    if isinstance(e, ast.Attribute) and e.attr in ("T", "real", "A"):
        return _signed(e.value)
    if isinstance(e, ast.Call) and isinstance(e.func, ast.Attribute) and e.func.attr in _SIGN_KEEPING_METHODS and dotted(e.func.value) not in ("np", "numpy"):
        return _signed(e.func.value)
    if isinstance(e, ast.Call) and last_attr(e) in _SIGN_KEEPING_FUNCS and e.args and (isinstance(e.func, ast.Name) or dotted(e.func.value) in ("np", "numpy")):
        return _signed(e.args[0])
    if isinstance(e, ast.Call) and last_attr(e) == "negative" and len(e.args) == 1 and (isinstance(e.func, ast.Name) or dotted(e.func.value) in ("np", "numpy")):
        sg, c = _signed(e.args[0])
        return -sg, c
    if isinstance(e, ast.BinOp) and isinstance(e.op, (ast.Mult, ast.Div)):
        for k, o in ((e.left, e.right), (e.right, e.left)):
            if isinstance(e.op, ast.Div) and k is e.left:
                continue  # const / x is not a signed copy of x
            sk, ck = _signed(k)
            if isinstance(ck, ast.Constant) and isinstance(ck.value, (int, float)) and not isinstance(ck.value, bool) and ck.value != 0:
                so, co = _signed(o)
                return sk * so * (1 if ck.value > 0 else -1), co
    return 1, e


def signed_terms(e: ast.AST, sign: int = 1) -> list[tuple[int, ast.AST]]:
    """``e`` as a signed sum: [(+1 or -1, term), ...]."""
    sg, c = _signed(e)
    if isinstance(c, ast.BinOp) and isinstance(c.op, (ast.Add, ast.Sub)):
        return signed_terms(c.left, sign * sg) + signed_terms(c.right, sign * sg * (1 if isinstance(c.op, ast.Add) else -1))
    return [(sign * sg, c)]


def _is_product(e: ast.AST) -> bool:
    return any((isinstance(n, ast.BinOp) and isinstance(n.op, ast.MatMult)) or (isinstance(n, ast.Call) and last_attr(n) in ("dot", "matmul")) for n in ast.walk(e))


def branches(e: ast.AST) -> list[ast.AST]:
    """The values a (nested) conditional expression can take."""
    return branches(e.body) + branches(e.orelse) if isinstance(e, ast.IfExp) else [e]


def dimension_names(index, cls, e: ast.AST) -> ast.AST | None:
    """``names`` when ``e`` is the number of components of ``names``: ``self.compute_dimension(names)`` or, spelled
    out, the very expression that accessor returns for ``names`` (today ``sum(self.sizes[n] for n in names)``)."""
    if isinstance(e, ast.Call) and norm_stmt(e.func) == "self.compute_dimension" and len(e.args) == 1 and not e.keywords:
        return e.args[0]
    if isinstance(e, ast.Call) and dotted(e.func) == "sum" and len(e.args) == 1 and isinstance(e.args[0], (ast.GeneratorExp, ast.ListComp)) and len(e.args[0].generators) == 1:
        names = e.args[0].generators[0].iter
        call = ast.Call(func=ast.Attribute(value=ast.Name(id="self", ctx=ast.Load()), attr="compute_dimension", ctx=ast.Load()), args=[names], keywords=[])
        body = expand_accessor(index, cls, ast.fix_missing_locations(ast.copy_location(call, e)))
        if body is not call and _alpha(body) == _alpha(e):
            return names
    return None


def check_solve_routines(ctx: Ctx) -> None:
    signs = {}
    for m in ("_direct_mode", "_direct_mode_lu", "_adjoint_mode", "_adjoint_mode_lu"):
        f = ctx.index.method(ASM, "CoupledSystem", m)
        con = cname(ASM, "CoupledSystem", m)
        init = {p: PARAM_KINDS[p] for p in param_names(f) if p in PARAM_KINDS}
        ctx.need(len(init) >= 4, f"{m}: the typed parameters were not found")
        sa = _Shapes(f, init)
        bad = {}
        for node, msg in sa.problems:
            bad.setdefault(id(rules.enclosing_stmt(f, node)) if not isinstance(node, ast.stmt) else id(node), []).append(msg)
        seen_stmt = set()
        for (nid, what), (node, _) in sorted(sa.sites.items(), key=lambda kv: getattr(kv[1][0], "lineno", 0)):
            st = node if isinstance(node, ast.stmt) else rules.enclosing_stmt(f, node)
            key = (id(st), what)
            if key in seen_stmt:
                continue
            seen_stmt.add(key)
            msgs = [x for x in bad.get(id(st), []) if _what_of(x) == what]
            ctx.ob("7.1-kinds", con, not msgs, "; ".join(msgs) or "kind-sound", node=st, stmt=f"{what}: {norm_stmt(st, 90)}")
        # anything reported at a statement without a site record
        for node, msg in sa.problems:
            st = node if isinstance(node, ast.stmt) else rules.enclosing_stmt(f, node)
            if (id(st), _what_of(msg)) not in seen_stmt:
                ctx.ob("7.1-kinds", con, False, msg, node=st, stmt=f"{_what_of(msg)}: {norm_stmt(st, 90)}")
        rets = [s for s in stmts_of(f) if isinstance(s, ast.Return)]
        ctx.need(rets and all(r.value is not None for r in rets), f"{m}: a returned value expected")
        for ret in rets:
            rv = sa.value(ret.value)
            ctx.ob("7.1-result", con, rv == RESULT, f"{m} must return, per function, an array functions x variables; got {rv}", node=ret, slots={"result": str(rv)})
        # 7.2 signs: the right-hand side and the stored total derivative are read as signed sums, so the sign is found
        # wherever the minus is written (before or after a transpose / densification, as negative(x) or -1 * x) and
        # whichever way round the two terms of the combination are
        rhs_signs = set()
        for s in stmts_of(f):
            if isinstance(s, ast.Assign) and any(dotted(t) in ("rhs", "self.linear_problem.rhs") for t in s.targets):
                for alt in unfolded(f, s.value) or [s.value]:
                    ts = signed_terms(alt)
                    rhs_signs.add(ts[0][0] if len(ts) == 1 else None)
        rhs_sign = next(iter(rhs_signs)) if len(rhs_signs) == 1 else None
        combs = []  # (statement, sign of the partial derivative term, sign of the product term)
        for s in stmts_of(f):
            if isinstance(s, (ast.Assign, ast.Return)) and isinstance(s.value, ast.DictComp):
                values, acc = [s.value.value], 0
            elif isinstance(s, ast.Assign) and len(s.targets) == 1 and isinstance(s.targets[0], ast.Subscript):
                values, acc = unfolded(f, s.value) or [s.value], 0
            elif isinstance(s, ast.AugAssign) and isinstance(s.target, ast.Subscript) and isinstance(s.op, (ast.Add, ast.Sub)):
                values, acc = [s.value], 1 if isinstance(s.op, ast.Add) else -1
            else:
                continue
            for v_ in values:
                ts = signed_terms(v_)
                prods = [(sg, t) for sg, t in ts if _is_product(t)]
                parts = [(sg, t) for sg, t in ts if not _is_product(t)]
                if acc:
                    # `d[k] += product`: the partial derivative is what `d[k]` was set to before
                    if len(prods) != 1 or parts:
                        continue
                    before = [b for b in stmts_of(f) if isinstance(b, ast.Assign) and any(norm_stmt(t) == norm_stmt(s.target) for t in b.targets) and any("dfun" in n for n in names_in(b.value))]
                    if len(before) == 1 and cfg_of(f).dominates(cfg_of(f).node_of(before[0]), cfg_of(f).node_of(s)):
                        pt = signed_terms(before[0].value)
                        if len(pt) == 1 and not _is_product(pt[0][1]):
                            combs.append((s, pt[0][0], acc * prods[0][0]))
                elif len(prods) == 1 and len(parts) == 1 and any("dfun" in n for n in names_in(v_)):
                    combs.append((s, parts[0][0], prods[0][0]))
        ctx.need(rhs_sign is not None and combs and len({c[1:] for c in combs}) == 1, f"{m}: right-hand side / combination statements not recognised")
        comb_node, part_sign, comb_sign = combs[-1]
        signs[m] = (rhs_sign, comb_sign)
        ctx.ob("7.2-signs", con, part_sign == 1 and rhs_sign * comb_sign == -1, f"total derivative = dF/dx - dF/dy (dR/dy)^-1 dR/dx: the partial derivative enters with sign {part_sign} (must be +1) and the product of the right-hand-side sign ({rhs_sign}) and of the combination sign ({comb_sign}) must be -1", node=comb_node, slots={"rhs": rhs_sign, "combination": comb_sign})
    ctx.floor("7.1-kinds", 20)
    # dispatchers forward their parameters by name
    for disp, targets in (("direct_mode", ("_direct_mode", "_direct_mode_lu")), ("adjoint_mode", ("_adjoint_mode", "_adjoint_mode_lu"))):
        f = ctx.index.method(ASM, "CoupledSystem", disp)
        con = cname(ASM, "CoupledSystem", disp)
        for t in targets:
            g = ctx.index.method(ASM, "CoupledSystem", t)
            calls = rules.self_calls(f, t)
            ctx.need(len(calls) == 1, f"{disp}: call to {t} not found")
            params = [p for p in param_names(g) if p != "self"]
            passed = [dotted(a) for a in calls[0].args]
            ok = all(i < len(params) and passed[i] == params[i] for i in range(len(passed)) if params[i] in PARAM_KINDS or params[i] == "functions")
            ctx.ob("7.1-forward", con, ok, f"{disp} must hand each matrix to the parameter of the same name of {t}; passes {passed} to {params[: len(passed)]}", node=calls[0])
        # lu flag selects the lu sibling
        cfg = cfg_of(f)
        lu = rules.self_calls(f, targets[1])[0]
        conds = branch_conditions(cfg, cfg.node_of(lu))
        ok = len(conds) == 1 and conds[0][1] and dotted(cfg.ast[conds[0][0]].test) == "use_lu_fact"
        ctx.ob("7.1-forward", con, ok, "the LU routine must be selected iff use_lu_fact", node=lu, stmt=f"{targets[1]} iff use_lu_fact")


def _what_of(msg: str) -> str:
    if msg.startswith("broadcast"):
        return "broadcast"
    if msg.startswith("matrix product"):
        return "product"
    if msg.startswith("index array"):
        return "index-array"
    if msg.startswith(("index", "slice")):
        return "index"
    if msg.startswith("linear system"):
        return "solve"
    if msg.startswith("right-hand side"):
        return "rhs"
    return "other"


NAME_KINDS = {"couplings_and_res": "R", "couplings_and_states": "Y", "variables": "X", "functions": "F"}


def check_call_site(ctx: Ctx) -> None:
    f = ctx.index.method(ASM, "JacobianAssembly", "total_derivatives")
    con = cname(ASM, "JacobianAssembly", "total_derivatives")
    cls = ctx.index.cls(ASM, "JacobianAssembly")

    def kind_of_names(e: ast.AST):
        d = dotted(e)
        if d in NAME_KINDS:
            return NAME_KINDS[d]
        if isinstance(e, ast.List) and len(e.elts) == 1 and dotted(e.elts[0]) == "fun":
            return "F"
        return None

    def extra_call(sa, e, env):
        if last_attr(e) == "assemble_jacobian" and len(e.args) >= 2:
            r, c = kind_of_names(e.args[0]), kind_of_names(e.args[1])
            if r and c:
                return arr(r, c)
        names = dimension_names(ctx.index, cls, e)
        if names is not None:
            k = kind_of_names(names)
            if k:
                return one(("dim", k))
        return None

    sa = _Shapes(f, {}, extra_call=extra_call)
    n = 0
    for callee, disp in (("direct_mode", "direct_mode"), ("adjoint_mode", "adjoint_mode")):
        calls = [c for c in walk_body(f) if isinstance(c, ast.Call) and last_attr(c) == callee and "coupled_system" in (dotted(c.func) or "")]
        ctx.need(len(calls) == 1, f"total_derivatives: call to coupled_system.{callee} not found")
        g = ctx.index.method(ASM, "CoupledSystem", disp)
        params = [p for p in param_names(g) if p != "self"]
        for i, a in enumerate(calls[0].args):
            if i >= len(params) or params[i] not in PARAM_KINDS:
                continue
            want = single(PARAM_KINDS[params[i]])
            got = sa.value(a)
            if params[i] == "n_couplings":
                # the caller passes the number of residual rows: the system is square (R and Y have the same size)
                ok = got in (("dim", "Y"), ("dim", "R"), None) or got is None
                if got is None:
                    ok = True
            else:
                ok = got == want
            n += 1
            ctx.ob("7.1-call-site", con, ok, f"`{norm_stmt(a, 40)}` of kinds {got} is passed as {params[i]}, declared {want}: a missing/extra transpose or a swapped matrix", node=calls[0], stmt=f"{callee}(... {params[i]}={norm_stmt(a, 40)})", slots={"got": str(got), "want": str(want)})
    ctx.floor("7.1-call-site", 9)
    # 7.4 dispatch
    cfg = cfg_of(f)
    modes = ctx.index.cls("core/derivatives/derivation_modes.py", "DerivationMode")
    # the dispatched value is whatever local the tests compare with self.DerivationMode.<X> (either side of ==)
    handled = {}
    subject = {}
    for n_ in cfg.nodes(lambda k: cfg.kind[k] == "test"):
        cp = compare_parts(cfg.ast[n_].test)
        if not cp or cp[1] is not ast.Eq:
            continue
        for subj, const in ((cp[0], cp[2]), (cp[2], cp[0])):
            if (dotted(const) or "").startswith("self.DerivationMode.") and isinstance(subj, ast.Name):
                handled[dotted(const).split(".")[-1]] = n_
                subject[n_] = subj
    dcall = [c for c in walk_body(f) if isinstance(c, ast.Call) and last_attr(c) == "direct_mode"][0]
    acall = [c for c in walk_body(f) if isinstance(c, ast.Call) and last_attr(c) == "adjoint_mode"][0]
    ok = set(handled) == {"DIRECT", "ADJOINT"} and cfg.under_branch(cfg.node_of(dcall), handled["DIRECT"], True) and cfg.under_branch(cfg.node_of(acall), handled["ADJOINT"], True)
    ctx.ob("7.4-dispatch", con, ok, "DIRECT must run the direct mode and ADJOINT the adjoint mode", node=dcall, stmt="mode dispatch DIRECT/ADJOINT")
    raises = [s for s in stmts_of(f) if isinstance(s, ast.Raise)]
    ok = any(all(not v for t, v in branch_conditions(cfg, cfg.node_of(r)) if t in handled.values()) and len([1 for t, v in branch_conditions(cfg, cfg.node_of(r)) if t in handled.values()]) == len(handled) for r in raises)
    ctx.ob("7.4-dispatch", con, ok, "any other derivation mode must raise", node=(raises or [f])[0], stmt="other modes raise")
    # every dispatched value IS self._get_derivation_mode(<requested mode>, <number of variable components>, <number of
    # function components>), whatever the local that carries it is called
    resolver = ctx.index.method(ASM, "JacobianAssembly", "_get_derivation_mode")
    rparams = [p for p in param_names(resolver) if p not in ("self", "cls")]

    def resolutions(subj: ast.Name) -> list[ast.AST]:
        out = []
        for alt in unfolded_from_entry(f, subj) or [subj]:
            if isinstance(alt, ast.Name):
                # opaque for the symbolic unfolding: its definitions, one of which must come before the test
                defs = [s_ for s_ in stmts_of(f) if isinstance(s_, ast.Assign) and any(dotted(t) == alt.id for t in s_.targets)]
                if not any(cfg.dominates(cfg.node_of(s_), cfg.node_of(subj)) for s_ in defs):
                    out.append(alt)
                out += [s_.value for s_ in defs]
            else:
                out.append(alt)
        return out

    def resolves(call: ast.AST, at: ast.AST) -> bool:
        if not (isinstance(call, ast.Call) and last_attr(call) == "_get_derivation_mode" and dotted(call.func) in ("self._get_derivation_mode", "cls._get_derivation_mode")):
            return False
        bound = dict(zip(rparams, call.args))
        bound.update({k.arg: k.value for k in call.keywords if k.arg})
        if set(bound) != {"mode", "n_variables", "n_functions"} or dotted(bound["mode"]) != "mode" or "mode" not in param_names(f):
            return False
        env = sa.fw.at(at)
        return single(sa.evaluate(bound["n_variables"], env)) == ("dim", "X") and single(sa.evaluate(bound["n_functions"], env)) == ("dim", "F")

    res = [(subject[t], r) for t in handled.values() for r in resolutions(subject[t])]
    ok = bool(res) and all(resolves(r, subj) for subj, r in res)
    first = [s_ for s_ in stmts_of(f) if isinstance(s_, ast.Assign) and isinstance(s_.value, ast.Call) and last_attr(s_.value) == "_get_derivation_mode"]
    ctx.ob("7.4-dispatch", con, ok, "AUTO must be resolved with (mode, n_variables, n_functions) before the dispatch", node=(first or [f])[0])
    g = resolver
    # which of the two modes AUTO picks is a performance choice: the property only asks that the result does not
    # depend on it, so the rule is: an explicit mode is kept, AUTO resolves to DIRECT or ADJOINT.  Decided per case:
    # the function is specialised on the outcome of its `mode ==/!= AUTO` test(s) and the values it can return are
    # unfolded, so early returns and a re-assigned `mode` returned at the end read the same.
    auto_tests = {}
    for n_ in ast.walk(g):
        cp = compare_parts(n_) if isinstance(n_, ast.Compare) else None
        if cp and cp[1] in (ast.Eq, ast.NotEq) and {dotted(cp[0]), dotted(cp[2])} == {"mode", "cls.DerivationMode.AUTO"}:
            auto_tests[norm_stmt(n_)] = cp[1] is ast.Eq
    rets = [s for s in stmts_of(g) if isinstance(s, ast.Return)]
    modes = {"cls.DerivationMode.ADJOINT", "cls.DerivationMode.DIRECT"}

    def returned(is_auto: bool) -> set[str] | None:
        out = set()
        for r in rets:
            alts = unfolded_from_entry(g, r, {t: (eq == is_auto) for t, eq in auto_tests.items()}, get=lambda st: st.value)
            for a in [b for a_ in alts or [] for b in branches(a_)]:
                out.add(dotted(a) or norm_stmt(a))
        return out

    ok = bool(auto_tests) and bool(rets) and all(r.value is not None for r in rets)
    if ok:
        explicit, auto = returned(False), returned(True)
        ok = explicit == {"mode"} and bool(auto) and auto <= modes
    ctx.ob("7.4-auto", cname(ASM, "JacobianAssembly", "_get_derivation_mode"), bool(ok), "an explicit mode must be returned unchanged and AUTO must resolve to DIRECT or ADJOINT", node=g, stmt="explicit mode kept; AUTO -> DIRECT or ADJOINT")
    # the result is split with the variables
    sp = rules.self_calls(f, "split_jac")
    ok = bool(sp) and all(dotted(arg_or_kw(c, 1, "variables")) == "variables" for c in sp)
    ctx.ob("7.4-split", con, ok, "the total derivatives must be split per variable with the requested variables", node=(sp or [f])[0])


def cursor_form(func: ast.AST) -> ast.AST:
    """Copy of ``func`` in which a running cursor reads in the one form the cursor rule knows (``use [c : c + n]``
    then ``c += n``):

    * ``c = c + n`` is ``c += n``;
    * a named window end, ``e = c + n`` ... ``use [c : e]`` ... ``c = e`` in one block, is unfolded: ``e`` is replaced
      by ``c + n`` and ``c = e`` by ``c += n``.  Only when that is the same program: ``e`` is bound there and nowhere
      else and read only between the two statements, and nothing in between re-binds ``c``, ``e`` or what ``n`` reads.
    """
    import copy

    g = copy.deepcopy(func)
    stores: dict[str, int] = {}
    for n in ast.walk(g):
        if isinstance(n, ast.Name) and isinstance(n.ctx, (ast.Store, ast.Del)):
            stores[n.id] = stores.get(n.id, 0) + 1

    def rebinds(stmts: list[ast.stmt], names: set[str], texts: set[str]) -> bool:
        for st in stmts:
            for n in ast.walk(st):
                if isinstance(n, ast.Name) and isinstance(n.ctx, (ast.Store, ast.Del)) and n.id in names:
                    return True
                if isinstance(n, (ast.Attribute, ast.Subscript)) and isinstance(n.ctx, (ast.Store, ast.Del)) and any(ast.unparse(n.value) in t or ast.unparse(n) in t for t in texts):
                    return True
        return False

    def fold(body: list[ast.stmt]) -> None:
        i = 0
        while i < len(body):
            st = body[i]
            if isinstance(st, ast.Assign) and len(st.targets) == 1 and isinstance(st.targets[0], ast.Name) and isinstance(st.value, ast.BinOp) and isinstance(st.value.op, ast.Add):
                end = st.targets[0].id
                for cur, amount in ((st.value.left, st.value.right), (st.value.right, st.value.left)):
                    if not isinstance(cur, ast.Name) or cur.id == end or stores.get(end) != 1 or end in names_in(amount):
                        continue
                    js = [j for j in range(i + 1, len(body)) if isinstance(body[j], ast.Assign) and len(body[j].targets) == 1 and dotted(body[j].targets[0]) == cur.id and dotted(body[j].value) == end]
                    if not js:
                        continue
                    j = js[0]
                    between = body[i + 1 : j]
                    inside = {id(n) for b in [*between, body[j]] for n in ast.walk(b)}
                    reads_elsewhere = any(isinstance(n, ast.Name) and n.id == end and isinstance(n.ctx, ast.Load) and id(n) not in inside for n in ast.walk(g))
                    if reads_elsewhere or rebinds(between, {cur.id, end} | names_in(amount), {ast.unparse(amount)} if not isinstance(amount, ast.Name) else set()):
                        continue
                    window = ast.BinOp(left=ast.Name(id=cur.id, ctx=ast.Load()), op=ast.Add(), right=amount)

                    class R(ast.NodeTransformer):
                        def visit_Name(self, n):  # noqa: N802
                            if n.id == end and isinstance(n.ctx, ast.Load):
                                return ast.fix_missing_locations(ast.copy_location(copy.deepcopy(window), n))
                            return n

                    new = [R().visit(b) for b in between]
                    adv = ast.AugAssign(target=ast.Name(id=cur.id, ctx=ast.Store()), op=ast.Add(), value=copy.deepcopy(amount))
                    body[i : j + 1] = [*new, ast.fix_missing_locations(ast.copy_location(adv, body[j]))]
                    break
            i += 1
        for k, st in enumerate(body):
            up = as_update(st)
            if isinstance(st, ast.Assign) and up and isinstance(up[0], ast.Name) and isinstance(up[1], ast.Add):
                body[k] = ast.fix_missing_locations(ast.copy_location(ast.AugAssign(target=ast.Name(id=up[0].id, ctx=ast.Store()), op=ast.Add(), value=up[2]), st))
            for fld in ("body", "orelse", "finalbody"):
                sub = getattr(body[k], fld, None)
                if isinstance(sub, list) and sub and isinstance(sub[0], ast.stmt):
                    fold(sub)
            for h in getattr(body[k], "handlers", []) or []:
                fold(h.body)

    fold(g.body)
    return g


def check_cursors(ctx: Ctx) -> None:
    g = cursor_form(ctx.index.method(ASM, "JacobianAssembly", "_get_jacobian_generator"))
    check_cursor_loops(ctx, "7.4-cursor", cname(ASM, "JacobianAssembly", "_get_jacobian_generator"), g, min_loops=2)
    # sizes come from the loop's own names
    con = cname(ASM, "JacobianAssembly", "_get_jacobian_generator")
    incs = [s for s in stmts_of(g) if isinstance(s, ast.AugAssign) and isinstance(s.target, ast.Name)]
    for s in incs:
        v = s.value
        if isinstance(v, ast.Name):
            d = [x for x in stmts_of(g) if isinstance(x, ast.Assign) and dotted(x.targets[0]) == v.id]
            v = d[0].value if d else v
        ok = isinstance(v, ast.Subscript) and dotted(v.value) == "self.sizes"
        ctx.ob("7.4-cursor", con, ok, f"the cursor {s.target.id} must advance by self.sizes[<name>]", node=s, stmt=f"{s.target.id} advances by self.sizes[...]")
    h = cursor_form(ctx.index.method(ASM, "JacobianAssembly", "split_jac"))
    check_cursor_loops(ctx, "7.4-cursor", cname(ASM, "JacobianAssembly", "split_jac"), h, min_loops=1)
    sl = [n for n in walk_body(h) if isinstance(n, ast.Subscript) and isinstance(n.slice, ast.Tuple) and len(n.slice.elts) == 2]
    ok = len(sl) == 1 and isinstance(sl[0].slice.elts[0], ast.Slice) and sl[0].slice.elts[0].lower is None and isinstance(sl[0].slice.elts[1], ast.Slice) and sl[0].slice.elts[1].lower is not None
    ctx.ob("7.4-split", cname(ASM, "JacobianAssembly", "split_jac"), ok, "the Jacobian must be split along its columns (variables)", node=(sl or [h])[0], stmt="function_jac[:, i_out:i_out + size]")


def check_cache_key(ctx: Ctx) -> None:
    f = ctx.index.method(ASM, "JacobianAssembly", "_compute_diff_ios_and_couplings")
    con = cname(ASM, "JacobianAssembly", "_compute_diff_ios_and_couplings")
    cfg = cfg_of(f)
    keyn = {"__last_diff_inouts", mangle("JacobianAssembly", "__last_diff_inouts")}
    valn = {"__minimal_couplings", mangle("JacobianAssembly", "__minimal_couplings")}
    tests = [n for n in cfg.nodes(lambda k: cfg.kind[k] == "test") if any(isinstance(a, ast.Attribute) and a.attr in keyn for a in ast.walk(cfg.ast[n].test))]
    if len(tests) != 1:
        # the stored key is read elsewhere (unpacked into locals, compared piecewise): whatever the test then is, it is
        # not "the stored request EQUALS the current request", the only condition under which the cached couplings are
        # those of the current request (a request is a pair of SETS: a subset needs fewer couplings, a superset more)
        reads = [s_ for s_ in stmts_of(f) if any(isinstance(a, ast.Attribute) and a.attr in keyn and isinstance(a.ctx, ast.Load) for a in ast.walk(s_))]
        ctx.need(reads, "_compute_diff_ios_and_couplings: the cache key is never read")
        ctx.ob("7.5-cache-key", con, False, "the minimal-couplings cache must be reused only when the stored request equals the current one (`self.__last_diff_inouts != diff_ios` decides the recomputation): the key is taken apart and compared piecewise, so that another request can be served the cached couplings", node=reads[0], stmt="cache reused iff the stored request equals the current one")
        return
    t = tests[0]
    cp = compare_parts(cfg.ast[t].test)
    if cp is None:
        ctx.ob("7.5-cache-key", con, False, "the cache test is not a comparison of the stored request with the current one", node=cfg.ast[t], stmt="cache reused iff the stored request equals the current one")
        return
    other = cp[2] if isinstance(cp[0], ast.Attribute) and cp[0].attr in keyn else cp[0]
    # the request the stored key is compared with, whatever local carries it
    req = unfolded(f, other) or [other]
    elts = [{norm_stmt(e).replace("frozenset(", "set(") for e in r.elts} if isinstance(r, ast.Tuple) else set() for r in req]
    ok = cp[1] in (ast.NotEq, ast.Eq) and all({"set(functions)", "set(variables)"} <= e for e in elts)
    ctx.ob("7.5-cache-key", con, ok, "the minimal-couplings cache must be keyed by (at least) the whole request set(variables), set(functions) and recomputed when it differs", node=cfg.ast[t])
    # the recomputation branch is the one taken when the keys DIFFER: the true side of !=, the false side of ==
    # (an early `return` of the cached value on equality puts the recomputation after the `if`, not inside it)
    differs = cfg.branch.get((t, cp[1] is ast.NotEq))
    wr_key = [s for s in stmts_of(f) if isinstance(s, ast.Assign) and any(isinstance(x, ast.Attribute) and x.attr in keyn for x in s.targets)]
    wr_val = [s for s in stmts_of(f) if isinstance(s, ast.Assign) and any(isinstance(x, ast.Attribute) and x.attr in valn for x in s.targets)]
    ok = len(wr_key) == 1 and len(wr_val) == 1 and differs is not None
    if ok:
        nk, nv = cfg.node_of(wr_key[0]), cfg.node_of(wr_val[0])
        stored = {norm_stmt(x) for x in unfolded(f, wr_key[0].value) or [wr_key[0].value]}
        ok = (
            stored == {norm_stmt(x) for x in req}
            and cfg.dominates(differs, nk)
            and cfg.dominates(differs, nv)
            # ... and both are written whenever the recomputation branch runs to its end
            and cfg.must_pass(differs, {nk})
            and cfg.must_pass(differs, {nv})
        )
    ctx.ob("7.5-cache-key", con, ok, "key and cached value must be updated together, in the recomputation branch", node=(wr_key or [f])[0], stmt="key and value updated in the same branch")
    rets = [s for s in stmts_of(f) if isinstance(s, ast.Return)]
    ok = bool(rets) and all(isinstance(r.value, ast.Attribute) and r.value.attr in valn and dotted(r.value.value) == "self" for r in rets)
    ctx.ob("7.5-cache-key", con, ok, "the cached value is what is returned", node=(rets or [f])[0])
    # nothing else writes them
    cls = ctx.index.cls(ASM, "JacobianAssembly")
    for name, g in cls.methods.items():
        if name in ("__init__", "_compute_diff_ios_and_couplings"):
            continue
        for s in stmts_of(g):
            if isinstance(s, ast.Assign) and any(isinstance(x, ast.Attribute) and x.attr in (keyn | valn) for x in s.targets):
                ctx.ob("7.5-cache-key", cname(ASM, "JacobianAssembly", name), False, "only _compute_diff_ios_and_couplings may write the minimal-couplings cache", node=s)


def check_dimensions(ctx: Ctx) -> None:
    """Sizes of the assembled systems are numbers of components (compute_dimension), never numbers of names."""
    cls = ctx.index.cls(ASM, "JacobianAssembly")
    n = 0
    for mname, f in sorted(cls.methods.items()):
        con = cname(ASM, "JacobianAssembly", mname)
        for st in stmts_of(f):
            tgt = None
            if isinstance(st, ast.Assign) and len(st.targets) == 1 and isinstance(st.targets[0], ast.Name):
                tgt, val = st.targets[0].id, st.value
            elif isinstance(st, ast.AugAssign) and isinstance(st.target, ast.Name):
                tgt, val = st.target.id, st.value
            if tgt is None or not tgt.startswith("n_") or tgt in ("n_newton_steps", "n_processes", "n_cpus"):
                continue
            n += 1

            def dim(e):
                if dimension_names(ctx.index, cls, e) is not None:
                    return True
                if isinstance(e, ast.BinOp) and isinstance(e.op, (ast.Add, ast.Sub)):
                    return dim(e.left) and dim(e.right)
                if isinstance(e, ast.Name) and e.id.startswith("n_"):
                    return True
                if isinstance(e, ast.Attribute) and e.attr in ("size",):
                    return True
                if isinstance(e, ast.Subscript) and isinstance(e.value, ast.Attribute) and e.value.attr == "shape":
                    return True
                return False

            ctx.ob("7.1-dimensions", con, dim(val), f"`{tgt}` sizes a linear system: it must count components (self.compute_dimension(names), sizes, shapes), `{norm_stmt(val, 60)}` counts something else; vector-valued couplings or states then get a system of the wrong size", node=st)
    ctx.floor("7.1-dimensions", 4)


def _op_term(e: ast.AST, x: str):
    """Linear operator (as a nested tuple) that the expression applies to the vector ``x``."""
    if isinstance(e, ast.Name) and e.id == x:
        return ("I",)
    if isinstance(e, ast.Attribute) and e.attr == "real":
        inner = _op_term(e.value, x)
        return None if inner is None else ("real", inner)
    if isinstance(e, ast.BinOp) and isinstance(e.op, (ast.Add, ast.Sub)):
        a, b = _op_term(e.left, x), _op_term(e.right, x)
        return None if a is None or b is None else ("+" if isinstance(e.op, ast.Add) else "-", a, b)
    if isinstance(e, ast.BinOp) and isinstance(e.op, ast.MatMult):
        inner = _op_term(e.right, x)
        return None if inner is None else ("o", _atom(e.left), inner)
    if isinstance(e, ast.Call) and isinstance(e.func, ast.Attribute) and e.func.attr in ("matvec", "rmatvec", "dot") and len(e.args) == 1:
        inner = _op_term(e.args[0], x)
        if inner is None:
            return None
        a = _atom(e.func.value)
        if e.func.attr == "rmatvec":
            a = _t(a)
        return ("o", a, inner)
    return None


def _atom(e: ast.AST):
    if isinstance(e, ast.Attribute) and e.attr == "T":
        return _t(_atom(e.value))
    return ("A", norm_stmt(e))


def _t(m):
    """Transpose of an operator term."""
    k = m[0]
    if k == "I":
        return m
    if k == "A":
        return ("T", m)
    if k == "T":
        return m[1]
    if k == "real":
        return ("real", _t(m[1]))
    if k in "+-":
        return (k, _t(m[1]), _t(m[2]))
    if k == "o":
        # (A o B)^T = B^T o A^T
        return _compose(_t(m[2]), _t(m[1]))
    raise AssertionError(k)


def _compose(a, b):
    if a == ("I",):
        return b
    if b == ("I",):
        return a
    return ("o", a, b)


def _flat(m):
    """Canonical form: compositions flattened to a tuple of factors."""
    k = m[0]
    if k == "o":
        out = []
        for part in (m[1], m[2]):
            fp = _flat(part)
            out.extend(fp[1:] if fp[0] == "chain" else [fp])
        out = [f for f in out if f != ("I",)]
        return ("chain", *out) if len(out) != 1 else out[0]
    if k in "+-":
        # sums are commutative: signed terms, sorted
        def terms(t, sign):
            if t[0] in "+-" and len(t) == 3:
                return terms(t[1], sign) + terms(t[2], sign if t[0] == "+" else -sign)
            return [(sign, _flat(t))]

        return ("sum", *sorted(terms(m, 1), key=repr))
    if k == "real":
        return ("real", _flat(m[1]))
    return m


def check_transposition(ctx: Ctx) -> None:
    """K10: in every operator class, _rmatvec applies the transpose of what _matvec applies."""
    mod = ctx.index.module(JOP)
    n = 0
    for cls in sorted(mod.classes.values(), key=lambda c: c.node.lineno):
        mv, rmv = cls.methods.get("_matvec"), cls.methods.get("_rmatvec")
        if mv is None and rmv is None:
            continue
        con = cname(JOP, cls.qualname)
        if mv is None or rmv is None:
            ctx.ob("7.5-transposition", con, False, f"{cls.name} defines only one of _matvec/_rmatvec: the direct and adjoint modes use different operators", node=cls.node, stmt="both products defined")
            continue
        terms = []
        for f in (mv, rmv):
            x = [a.arg for a in f.args.args if a.arg != "self"][0]
            rets = [s_ for s_ in stmts_of(f) if isinstance(s_, ast.Return) and s_.value is not None]
            terms.append(_op_term(rets[0].value, x) if len(rets) == 1 else None)
        if terms[0] is None or terms[1] is None:
            raise AnalysisError(f"{cls.name}: _matvec/_rmatvec are not of the form the transposition rule understands")
        n += 1
        want = _flat(_t(terms[0]))
        got = _flat(terms[1])
        ctx.ob("7.5-transposition", con, want == got, f"{cls.name}._rmatvec applies {got}; the transpose of what _matvec applies is {want}: adjoint and direct total derivatives then differ", node=rmv, stmt=f"{cls.name}: _rmatvec is the transpose of _matvec")
    ctx.floor("7.5-transposition", 10)


def check_reduced_graph(ctx: Ctx) -> None:
    """7.6: the Jacobians to compute are selected by traversing a graph in which each strongly coupled group is ONE node;
    the couplings a group solves itself are not dependencies of that node, but a strong coupling solved by ANOTHER group
    is an ordinary input of it: the names removed from a merged node's inputs are restricted to the group's own outputs
    (F48: every strong coupling of the structure was removed, and a group fed by another group's coupling fell off the
    traversal: its disciplines were not differentiated)."""
    rel = "core/derivatives/mda_derivatives.py"
    f = ctx.index.func(rel, "_replace_strongly_coupled")
    con = cname(rel, None, "_replace_strongly_coupled")
    ups = [c for c in walk_body(f) if isinstance(c, ast.Call) and last_attr(c) == "update_from_names" and "input_grammar" in norm_stmt(c.func, 200) and c.args]
    ctx.need(len(ups) == 1, "_replace_strongly_coupled: the inputs given to the merged discipline were not found")
    from gv.props.shared import unfolded as _unf

    ok = True
    found = []
    for v in _unf(f, ups[0].args[0]) or [ups[0].args[0]]:
        removed = [v.right] if isinstance(v, ast.BinOp) and isinstance(v.op, ast.Sub) else [c_.args[0] for c_ in ast.walk(v) if isinstance(c_, ast.Call) and last_attr(c_) in ("difference", "difference_update") and c_.args]
        ok = ok and bool(removed)
        for r in removed:
            txt = " | ".join(norm_stmt(a_, 400) for a_ in (_unf(f, r) or [r]))
            found.append(txt)
            ok = ok and "output_grammar" in txt and ("group" in txt)
    ctx.ob("7.6-reduced-graph", con, ok, f"the names removed from the inputs of a merged group must be the strong couplings the group computes itself (restricted to the outputs of its disciplines); found `{'; '.join(found)[:200]}`: removing every strong coupling cuts the path from another group to this one, and the total derivatives miss it", node=ups[0], stmt="only the group's own strong couplings are not inputs of the merged node")


def check_linearization_data(ctx: Ctx) -> None:
    """7.7 the coupled adjoint linearises every discipline at the converged data it passes (`linearize(data,
    execute=False)` when the linearisation cache is on): the discipline's local data are set to the GIVEN data whether or
    not it executes, or the partial Jacobians are taken at whatever point the discipline saw last."""
    from gv.props.shared import literal_facts

    DI = "core/discipline/discipline.py"
    f = ctx.index.method(DI, "Discipline", "linearize")
    con = cname(DI, "Discipline", "linearize")
    cfg = cfg_of(f)
    param = [a.arg for a in f.args.args if a.arg != "self"][0]
    ups = [c for c in walk_body(f) if isinstance(c, ast.Call) and norm_stmt(c.func) == "self.io.data.update" and c.args and dotted(c.args[0]) == param]
    ok = bool(ups)
    for c in ups:
        if any("execute" in {n_.id for n_ in ast.walk(ast.parse(k_, mode="eval")) if isinstance(n_, ast.Name)} for k_ in literal_facts(cfg, cfg.node_of(c))):
            ok = False
    comp = [c for c in walk_body(f) if isinstance(c, ast.Call) and isinstance(c.func, ast.Attribute) and c.func.attr in ("_compute_jacobian", "__compute_jacobian") or (isinstance(c, ast.Call) and last_attr(c) == "compute_approx_jac")]
    ctx.ob("7.7-linearization-data", con, bool(ok), f"the local data are reset to `{param}` before the Jacobian is computed, independently of `execute`: with execute=False (linearisation cache of an MDA) the discipline would otherwise be differentiated at the point of its last stand-alone execution", node=(ups or [f])[0], stmt="io.data.update(input_data) does not depend on execute")


def run(ctx: Ctx) -> None:
    check_reduced_graph(ctx)
    check_solve_routines(ctx)
    check_dimensions(ctx)
    check_transposition(ctx)
    check_call_site(ctx)
    check_linearization_data(ctx)
    check_identity_blocks(ctx, "7.3", -1)
    check_cursors(ctx)
    check_cache_key(ctx)


# ---------------------------------------------------------------------------
WITNESSES = [
    {"name": "seeded-C07-11", "file": "core/discipline/discipline.py", "old": "\n        if not self._linearize_on_last_state:\n            # The data shall be reset to their original values\n            # in case an input is also an output,\n            # if we don't want to keep the computed state (as in MDAs).\n            self.io.data.update(input_data)\n\n", "new": "\n            if not self._linearize_on_last_state:\n                # The data shall be reset to their original values\n                # in case an input is also an output,\n                # if we don't want to keep the computed state (as in MDAs).\n                self.io.data.update(input_data)\n\n", "expect": "7.7", "note": "Discipline.linearize(execute=False) no longer resets the local data to the given"},
    {"name": "seeded-C07-10", "file": "core/derivatives/jacobian_assembly.py", "old": "                        elif isinstance(jacobian_copy, sparse_classes):", "new": "                        elif isinstance(jacobian_copy, csr_matrix):", "expect": "7.3"},
    {"name": "sparse-identity-on-the-discipline-jacobian", "file": ASM, "old": "                        # Make a copy to avoid in-place modifications\n                        jacobian_copy = jacobian.copy()\n\n                        if isinstance(jacobian_copy, ndarray):\n", "new": "                        jacobian_copy = jacobian\n\n                        if isinstance(jacobian_copy, ndarray):\n                            jacobian_copy = jacobian.copy()\n", "expect": "7.3"},
    {"name": "real-operator-transposed-product-is-forward", "file": JOP, "old": "        return self.__operator.rmatvec(x).real", "new": "        return self.__operator.matvec(x).real", "expect": "7.5"},
    {"name": "composition-transposed-in-the-same-order", "file": JOP, "old": "        return self._operand_2.rmatvec(self._operand_1.rmatvec(x))", "new": "        return self._operand_1.rmatvec(self._operand_2.rmatvec(x))", "expect": "7.5"},
    {"name": "array-term-not-transposed", "file": JOP, "old": "        return self._operand_1.rmatvec(x) + self._operand_2.T @ x", "new": "        return self._operand_1.rmatvec(x) + self._operand_2 @ x", "expect": "7.5"},
    {"name": "difference-transposed-as-sum", "file": JOP, "old": "        return self._operand_1.rmatvec(x) - self._operand_2.rmatvec(x)", "new": "        return self._operand_1.rmatvec(x) + self._operand_2.rmatvec(x)", "expect": "7.5"},
    {"name": "adjoint-operator-not-swapped", "file": JOP, "old": "        return self.__operator.rmatvec(x)  # type: ignore[no-any-return]\n\n    def _rmatvec", "new": "        return self.__operator.matvec(x)  # type: ignore[no-any-return]\n\n    def _rmatvec", "expect": "7.5"},
    {"name": "residual-size-counts-names", "file": ASM, "old": "            n_residuals += self.compute_dimension(residual_variables.keys())", "new": "            n_residuals += len(residual_variables)", "expect": "7.1"},
    {"name": "call-site-no-transpose", "file": ASM, "old": "                dres_dy_t.T,\n", "new": "                dres_dy_t,\n", "expect": "7.1"},
    {"name": "dfun_dy-over-residual-names", "file": ASM, "old": "dfun_dy[fun] = self.assemble_jacobian([fun], couplings_and_states)", "new": "dfun_dy[fun] = self.assemble_jacobian([fun], couplings_and_res)", "expect": "7.1"},
    {"name": "dres_dx-swapped-arguments", "file": ASM, "old": "dres_dx = self.assemble_jacobian(couplings_and_res, variables, is_residual=True)", "new": "dres_dx = self.assemble_jacobian(variables, couplings_and_res, is_residual=True)", "expect": "7.1"},
    {"name": "adjoint-column-instead-of-row", "file": ASM, "old": "                self.linear_problem.rhs = -dfunction_dy[fun_component, :].T", "new": "                self.linear_problem.rhs = -dfunction_dy[:, fun_component].T", "expect": "7.1"},
    {"name": "direct-row-instead-of-column", "file": ASM, "old": "            self.linear_problem.rhs = -dres_dx[:, var_index]", "new": "            self.linear_problem.rhs = -dres_dx[var_index, :]", "expect": "7.1"},
    {"name": "direct-store-in-row", "file": ASM, "old": "            dy_dx[:, var_index] = self.linear_problem.solution", "new": "            dy_dx[var_index, :] = self.linear_problem.solution", "expect": "7.1"},
    {"name": "adjoint-no-transpose-of-dres_dx", "file": ASM, "old": "(dres_dx.T.dot(adjoint)).T", "new": "(dres_dx.dot(adjoint)).T", "nth": 0, "expect": "7.1"},
    {"name": "direct-product-reversed", "file": ASM, "old": "dfun_dy[fun].dot(dy_dx)", "new": "dy_dx.dot(dfun_dy[fun])", "nth": 0, "expect": "7.1"},
    {"name": "lu-direct-uses-dfun_dx-twice", "file": ASM, "old": "dfun_dy[fun].dot(dy_dx)", "new": "dfun_dx[fun].dot(dy_dx)", "nth": 1, "expect": "7.1"},
    {"name": "dy_dx-shape-swapped", "file": ASM, "old": "        dy_dx = empty((n_couplings, n_variables))\n        self.linear_problem", "new": "        dy_dx = empty((n_variables, n_couplings))\n        self.linear_problem", "expect": "7.1"},
    {"name": "dispatcher-swaps-matrices", "file": ASM, "old": "            return self._direct_mode_lu(\n                functions, n_variables, n_couplings, dres_dx, dres_dy, dfun_dx, dfun_dy\n            )", "new": "            return self._direct_mode_lu(\n                functions, n_variables, n_couplings, dres_dy, dres_dx, dfun_dx, dfun_dy\n            )", "expect": "7.1"},
    {"name": "lu-flag-inverted", "file": ASM, "old": "        self.n_adjoint_modes += 1\n        if use_lu_fact:", "new": "        self.n_adjoint_modes += 1\n        if not use_lu_fact:", "expect": "7.1"},
    {"name": "rhs-plus", "file": ASM, "old": "            rhs = -dres_dx[:, var_index].todense()", "new": "            rhs = dres_dx[:, var_index].todense()", "expect": "7.2"},
    {"name": "second-term-subtracted", "file": ASM, "old": "dfunction_dx[fun_component, :] + (dres_dx.T.dot(adjoint)).T", "new": "dfunction_dx[fun_component, :] - (dres_dx.T.dot(adjoint)).T", "nth": 1, "expect": "7.2"},
    {"name": "diag-plus-one-sparse", "file": ASM, "old": "jacobian_copy.setdiag(jacobian.diagonal() - 1)", "new": "jacobian_copy.setdiag(jacobian.diagonal() + 1)", "expect": "7.3"},
    {"name": "dispatch-modes-swapped", "file": ASM, "old": "        if mode == self.DerivationMode.DIRECT:", "new": "        if mode == self.DerivationMode.ADJOINT:", "expect": "7.4"},
    {"name": "column-cursor-by-function-size", "file": ASM, "old": "                column += variable_size", "new": "                column += self.sizes[function]", "expect": "7.4"},
    {"name": "row-cursor-inside-inner-loop", "file": ASM, "old": "                column += variable_size\n            row += self.sizes[function]", "new": "                column += variable_size\n                row += self.sizes[function]", "expect": "7.4"},
    {"name": "column-cursor-not-reset", "file": ASM, "old": "        row = 0\n        # Iterate over outputs\n        for row_index, function in enumerate(functions):\n            column = 0\n", "new": "        row = 0\n        column = 0\n        # Iterate over outputs\n        for row_index, function in enumerate(functions):\n", "expect": "7.4"},
    {"name": "split-rows-instead-of-columns", "file": ASM, "old": "sub_jac[variable] = function_jac[:, i_out : i_out + size]", "new": "sub_jac[variable] = function_jac[i_out : i_out + size, :]", "expect": "7.4"},
    {"name": "split-with-functions", "file": ASM, "old": "        return self.split_jac(total_derivatives, variables)", "new": "        return self.split_jac(total_derivatives, functions)", "expect": "7.4"},
    {"name": "cache-key-only-variables", "file": ASM, "old": "        diff_ios = (set(variables), set(functions))\n        if self.__last_diff_inouts != diff_ios:", "new": "        diff_ios = set(variables)\n        if self.__last_diff_inouts != diff_ios:", "expect": "7.5"},
    {"name": "cache-key-not-updated", "file": ASM, "old": "            self.__last_diff_inouts = diff_ios\n", "new": "", "expect": "7.5"},
]
TWINS = [
    {"name": "sum-terms-commuted", "file": JOP, "old": "        return self._operand_1.rmatvec(x) + self._operand_2.rmatvec(x)", "new": "        return self._operand_2.rmatvec(x) + self._operand_1.rmatvec(x)"},
    {"name": "residual-size-in-two-steps", "file": ASM, "old": "            n_residuals += self.compute_dimension(residual_variables.keys())", "new": "            n_residuals = n_residuals + self.compute_dimension(residual_variables.keys())"},
    {"name": "matmul-operator", "file": ASM, "old": "dfun_dy[fun].dot(dy_dx)", "new": "dfun_dy[fun] @ dy_dx", "nth": 0},
    {"name": "both-signs-flipped", "edits": [
        {"file": ASM, "old": "            rhs = -dres_dx[:, var_index].todense()", "new": "            rhs = dres_dx[:, var_index].todense()"},
        {"file": ASM, "old": "dfun_dx[fun].toarray() + dfun_dy[fun].dot(dy_dx)", "new": "dfun_dx[fun].toarray() - dfun_dy[fun].dot(dy_dx)", "nth": 1},
    ]},
    {"name": "rename-index-variable", "file": ASM, "old": "var_index", "new": "j", "count": 0},
]
