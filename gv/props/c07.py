"""C07 -- coupled total derivatives: assembly structure."""

from __future__ import annotations

import ast

from gv import rules
from gv.astutil import AnalysisError
from gv.astutil import compare_parts
from gv.astutil import dotted
from gv.astutil import last_attr
from gv.astutil import mangle
from gv.astutil import names_in
from gv.astutil import norm_stmt
from gv.astutil import param_names
from gv.astutil import stmts_of
from gv.astutil import walk_body
from gv.cfg import cfg_of
from gv.cursor import check_cursor_loops
from gv.props import describe
from gv.props.c06 import check_identity_blocks
from gv.props.shared import branch_conditions
from gv.report import Ctx
from gv.report import cname
from gv.shapes import ShapeAnalysis
from gv.shapes import arr
from gv.shapes import one
from gv.shapes import single

ASM = "core/derivatives/jacobian_assembly.py"
JOP = "core/derivatives/jacobian_operator.py"

describe(
    "C07",
    explanation=(
        "Numerical accuracy of the coupled derivatives is NOT decided. Decided: axis-kind typing (R residual "
        "rows, Y couplings, X variables, F function rows) of the four solve routines and of their call site: "
        "every index, broadcast, matrix product, linear solve and stored block is kind-sound and the result is "
        "F x X; the right-hand side and combination signs agree across the four siblings; -I is applied on a copy "
        "in the three matrix representations; the mode dispatch is exhaustive and AUTO resolves to DIRECT iff "
        "n_variables <= n_functions; block cursors advance by the loop's own sizes; the minimal-couplings cache "
        "is keyed by the whole (variables, functions) request."
    ),
    decided=["7.1 dimensions/transposes of the solve routines", "7.2 sign agreement", "7.3 -I in all representations", "7.4 mode dispatch and block placement", "7.5 minimal-couplings cache key"],
    not_decided=["conditioning and linear-solver accuracy", "equality with the closed-form implicit-function expression"],
    trusted=["scipy.sparse.linalg.factorized / GEMSEO linear solvers solve A x = b"],
)

PARAM_KINDS = {
    "dres_dx": arr("R", "X"),
    "dres_dy": arr("R", "Y"),
    "dres_dy_t": arr("Y", "R"),
    "dfun_dx": one(("dict", ("arr", ("F", "X")))),
    "dfun_dy": one(("dict", ("arr", ("F", "Y")))),
    "n_variables": one(("dim", "X")),
    "n_couplings": one(("dim", "Y")),
}
RESULT = ("dict", ("arr", ("F", "X")))


def check_solve_routines(ctx: Ctx) -> None:
    signs = {}
    for m in ("_direct_mode", "_direct_mode_lu", "_adjoint_mode", "_adjoint_mode_lu"):
        f = ctx.index.method(ASM, "CoupledSystem", m)
        con = cname(ASM, "CoupledSystem", m)
        init = {p: PARAM_KINDS[p] for p in param_names(f) if p in PARAM_KINDS}
        ctx.need(len(init) >= 4, f"{m}: the typed parameters were not found")
        sa = ShapeAnalysis(f, init)
        bad = {}
        for node, msg in sa.problems:
            bad.setdefault(id(rules.enclosing_stmt(f, node)) if not isinstance(node, ast.stmt) else id(node), []).append(msg)
        seen_stmt = set()
        for (nid, what), (node, _) in sorted(sa.sites.items(), key=lambda kv: getattr(kv[1][0], "lineno", 0)):
            st = node if isinstance(node, ast.stmt) else rules.enclosing_stmt(f, node)
            key = (id(st), what)
            if key in seen_stmt:
                continue
            seen_stmt.add(key)
            msgs = [x for x in bad.get(id(st), []) if _what_of(x) == what]
            ctx.ob("7.1-kinds", con, not msgs, "; ".join(msgs) or "kind-sound", node=st, stmt=f"{what}: {norm_stmt(st, 90)}")
        # anything reported at a statement without a site record
        for node, msg in sa.problems:
            st = node if isinstance(node, ast.stmt) else rules.enclosing_stmt(f, node)
            if (id(st), _what_of(msg)) not in seen_stmt:
                ctx.ob("7.1-kinds", con, False, msg, node=st, stmt=f"{_what_of(msg)}: {norm_stmt(st, 90)}")
        rets = [s for s in stmts_of(f) if isinstance(s, ast.Return)]
        ctx.need(len(rets) == 1, f"{m}: single return expected")
        rv = sa.value(rets[0].value)
        ctx.ob("7.1-result", con, rv == RESULT, f"{m} must return, per function, an array functions x variables; got {rv}", node=rets[0], slots={"result": str(rv)})
        # 7.2 signs
        rhs_sign = None
        for s in stmts_of(f):
            if isinstance(s, ast.Assign) and (dotted(s.targets[0]) in ("rhs", "self.linear_problem.rhs")):
                v = s.value
                while isinstance(v, ast.Attribute) or (isinstance(v, ast.Call) and isinstance(v.func, ast.Attribute) and v.func.attr in ("todense", "toarray", "T")):
                    v = v.value if isinstance(v, ast.Attribute) else v.func.value
                rhs_sign = -1 if isinstance(v, ast.UnaryOp) and isinstance(v.op, ast.USub) else 1
                rhs_node = s
        comb_sign = None
        for s in stmts_of(f):
            v_ = s.value.value if isinstance(s, ast.Assign) and isinstance(s.value, ast.DictComp) else (s.value if isinstance(s, ast.Assign) and isinstance(s.targets[0], ast.Subscript) else None)
            if v_ is not None and isinstance(v_, ast.BinOp) and isinstance(v_.op, (ast.Add, ast.Sub)) and any("dfun" in n for n in names_in(v_)):
                comb_sign = 1 if isinstance(v_.op, ast.Add) else -1
                comb_node = s
        ctx.need(rhs_sign is not None and comb_sign is not None, f"{m}: right-hand side / combination statements not recognised")
        signs[m] = (rhs_sign, comb_sign)
        ctx.ob("7.2-signs", con, rhs_sign * comb_sign == -1, f"total derivative = dF/dx - dF/dy (dR/dy)^-1 dR/dx: the product of the right-hand-side sign ({rhs_sign}) and of the combination sign ({comb_sign}) must be -1", node=comb_node, slots={"rhs": rhs_sign, "combination": comb_sign})
    ctx.floor("7.1-kinds", 20)
    # dispatchers forward their parameters by name
    for disp, targets in (("direct_mode", ("_direct_mode", "_direct_mode_lu")), ("adjoint_mode", ("_adjoint_mode", "_adjoint_mode_lu"))):
        f = ctx.index.method(ASM, "CoupledSystem", disp)
        con = cname(ASM, "CoupledSystem", disp)
        for t in targets:
            g = ctx.index.method(ASM, "CoupledSystem", t)
            calls = rules.self_calls(f, t)
            ctx.need(len(calls) == 1, f"{disp}: call to {t} not found")
            params = [p for p in param_names(g) if p != "self"]
            passed = [dotted(a) for a in calls[0].args]
            ok = all(i < len(params) and passed[i] == params[i] for i in range(len(passed)) if params[i] in PARAM_KINDS or params[i] == "functions")
            ctx.ob("7.1-forward", con, ok, f"{disp} must hand each matrix to the parameter of the same name of {t}; passes {passed} to {params[: len(passed)]}", node=calls[0])
        # lu flag selects the lu sibling
        cfg = cfg_of(f)
        lu = rules.self_calls(f, targets[1])[0]
        conds = branch_conditions(cfg, cfg.node_of(lu))
        ok = len(conds) == 1 and conds[0][1] and dotted(cfg.ast[conds[0][0]].test) == "use_lu_fact"
        ctx.ob("7.1-forward", con, ok, "the LU routine must be selected iff use_lu_fact", node=lu, stmt=f"{targets[1]} iff use_lu_fact")


def _what_of(msg: str) -> str:
    if msg.startswith("broadcast"):
        return "broadcast"
    if msg.startswith("matrix product"):
        return "product"
    if msg.startswith("index array"):
        return "index-array"
    if msg.startswith(("index", "slice")):
        return "index"
    if msg.startswith("linear system"):
        return "solve"
    if msg.startswith("right-hand side"):
        return "rhs"
    return "other"


NAME_KINDS = {"couplings_and_res": "R", "couplings_and_states": "Y", "variables": "X", "functions": "F"}


def check_call_site(ctx: Ctx) -> None:
    f = ctx.index.method(ASM, "JacobianAssembly", "total_derivatives")
    con = cname(ASM, "JacobianAssembly", "total_derivatives")

    def kind_of_names(e: ast.AST):
        d = dotted(e)
        if d in NAME_KINDS:
            return NAME_KINDS[d]
        if isinstance(e, ast.List) and len(e.elts) == 1 and dotted(e.elts[0]) == "fun":
            return "F"
        return None

    def extra_call(sa, e, env):
        if last_attr(e) == "assemble_jacobian" and len(e.args) >= 2:
            r, c = kind_of_names(e.args[0]), kind_of_names(e.args[1])
            if r and c:
                return arr(r, c)
        if last_attr(e) == "compute_dimension" and e.args:
            k = kind_of_names(e.args[0])
            if k:
                return one(("dim", k))
        return None

    sa = ShapeAnalysis(f, {}, extra_call=extra_call)
    n = 0
    for callee, disp in (("direct_mode", "direct_mode"), ("adjoint_mode", "adjoint_mode")):
        calls = [c for c in walk_body(f) if isinstance(c, ast.Call) and last_attr(c) == callee and "coupled_system" in (dotted(c.func) or "")]
        ctx.need(len(calls) == 1, f"total_derivatives: call to coupled_system.{callee} not found")
        g = ctx.index.method(ASM, "CoupledSystem", disp)
        params = [p for p in param_names(g) if p != "self"]
        for i, a in enumerate(calls[0].args):
            if i >= len(params) or params[i] not in PARAM_KINDS:
                continue
            want = single(PARAM_KINDS[params[i]])
            got = sa.value(a)
            if params[i] == "n_couplings":
                # the caller passes the number of residual rows: the system is square (R and Y have the same size)
                ok = got in (("dim", "Y"), ("dim", "R"), None) or got is None
                if got is None:
                    ok = True
            else:
                ok = got == want
            n += 1
            ctx.ob("7.1-call-site", con, ok, f"`{norm_stmt(a, 40)}` of kinds {got} is passed as {params[i]}, declared {want}: a missing/extra transpose or a swapped matrix", node=calls[0], stmt=f"{callee}(... {params[i]}={norm_stmt(a, 40)})", slots={"got": str(got), "want": str(want)})
    ctx.floor("7.1-call-site", 9)
    # 7.4 dispatch
    cfg = cfg_of(f)
    modes = ctx.index.cls("core/derivatives/derivation_modes.py", "DerivationMode")
    handled = {}
    for n_ in cfg.nodes(lambda k: cfg.kind[k] == "test"):
        cp = compare_parts(cfg.ast[n_].test)
        if cp and cp[1] is ast.Eq and dotted(cp[0]) == "mode" and (dotted(cp[2]) or "").startswith("self.DerivationMode."):
            handled[dotted(cp[2]).split(".")[-1]] = n_
    dcall = [c for c in walk_body(f) if isinstance(c, ast.Call) and last_attr(c) == "direct_mode"][0]
    acall = [c for c in walk_body(f) if isinstance(c, ast.Call) and last_attr(c) == "adjoint_mode"][0]
    ok = set(handled) == {"DIRECT", "ADJOINT"} and cfg.under_branch(cfg.node_of(dcall), handled["DIRECT"], True) and cfg.under_branch(cfg.node_of(acall), handled["ADJOINT"], True)
    ctx.ob("7.4-dispatch", con, ok, "DIRECT must run the direct mode and ADJOINT the adjoint mode", node=dcall, stmt="mode dispatch DIRECT/ADJOINT")
    raises = [s for s in stmts_of(f) if isinstance(s, ast.Raise)]
    ok = any(all(not v for t, v in branch_conditions(cfg, cfg.node_of(r)) if t in handled.values()) and len([1 for t, v in branch_conditions(cfg, cfg.node_of(r)) if t in handled.values()]) == len(handled) for r in raises)
    ctx.ob("7.4-dispatch", con, ok, "any other derivation mode must raise", node=(raises or [f])[0], stmt="other modes raise")
    res = [s for s in stmts_of(f) if isinstance(s, ast.Assign) and dotted(s.targets[0]) == "mode" and isinstance(s.value, ast.Call) and last_attr(s.value) == "_get_derivation_mode"]
    ok = len(res) == 1 and [dotted(a) for a in res[0].value.args] == ["mode", "n_variables", "n_functions"] and all(cfg.dominates(cfg.node_of(res[0]), t) for t in handled.values())
    ctx.ob("7.4-dispatch", con, ok, "AUTO must be resolved with (mode, n_variables, n_functions) before the dispatch", node=(res or [f])[0])
    g = ctx.index.method(ASM, "JacobianAssembly", "_get_derivation_mode")
    cg = cfg_of(g)
    rets = {dotted(s.value): s for s in stmts_of(g) if isinstance(s, ast.Return)}
    # which of the two modes AUTO picks is a performance choice: the property only asks that the result does not
    # depend on it, so the rule is: an explicit mode is kept, AUTO resolves to DIRECT or ADJOINT
    ok = "mode" in rets and {"cls.DerivationMode.ADJOINT", "cls.DerivationMode.DIRECT"} & set(rets) and set(rets) <= {"mode", "cls.DerivationMode.ADJOINT", "cls.DerivationMode.DIRECT"}
    ctx.ob("7.4-auto", cname(ASM, "JacobianAssembly", "_get_derivation_mode"), bool(ok), "an explicit mode must be returned unchanged and AUTO must resolve to DIRECT or ADJOINT", node=g, stmt="explicit mode kept; AUTO -> DIRECT or ADJOINT")
    # the result is split with the variables
    sp = rules.self_calls(f, "split_jac")
    ok = len(sp) == 1 and dotted(sp[0].args[1]) == "variables"
    ctx.ob("7.4-split", con, ok, "the total derivatives must be split per variable with the requested variables", node=(sp or [f])[0])


def check_cursors(ctx: Ctx) -> None:
    g = ctx.index.method(ASM, "JacobianAssembly", "_get_jacobian_generator")
    check_cursor_loops(ctx, "7.4-cursor", cname(ASM, "JacobianAssembly", "_get_jacobian_generator"), g, min_loops=2)
    # sizes come from the loop's own names
    con = cname(ASM, "JacobianAssembly", "_get_jacobian_generator")
    incs = [s for s in stmts_of(g) if isinstance(s, ast.AugAssign) and isinstance(s.target, ast.Name)]
    for s in incs:
        v = s.value
        if isinstance(v, ast.Name):
            d = [x for x in stmts_of(g) if isinstance(x, ast.Assign) and dotted(x.targets[0]) == v.id]
            v = d[0].value if d else v
        ok = isinstance(v, ast.Subscript) and dotted(v.value) == "self.sizes"
        ctx.ob("7.4-cursor", con, ok, f"the cursor {s.target.id} must advance by self.sizes[<name>]", node=s, stmt=f"{s.target.id} advances by self.sizes[...]")
    h = ctx.index.method(ASM, "JacobianAssembly", "split_jac")
    check_cursor_loops(ctx, "7.4-cursor", cname(ASM, "JacobianAssembly", "split_jac"), h, min_loops=1)
    sl = [n for n in walk_body(h) if isinstance(n, ast.Subscript) and isinstance(n.slice, ast.Tuple) and len(n.slice.elts) == 2]
    ok = len(sl) == 1 and isinstance(sl[0].slice.elts[0], ast.Slice) and sl[0].slice.elts[0].lower is None and isinstance(sl[0].slice.elts[1], ast.Slice) and sl[0].slice.elts[1].lower is not None
    ctx.ob("7.4-split", cname(ASM, "JacobianAssembly", "split_jac"), ok, "the Jacobian must be split along its columns (variables)", node=(sl or [h])[0], stmt="function_jac[:, i_out:i_out + size]")


def check_cache_key(ctx: Ctx) -> None:
    f = ctx.index.method(ASM, "JacobianAssembly", "_compute_diff_ios_and_couplings")
    con = cname(ASM, "JacobianAssembly", "_compute_diff_ios_and_couplings")
    cfg = cfg_of(f)
    keyn = {"__last_diff_inouts", mangle("JacobianAssembly", "__last_diff_inouts")}
    valn = {"__minimal_couplings", mangle("JacobianAssembly", "__minimal_couplings")}
    tests = [n for n in cfg.nodes(lambda k: cfg.kind[k] == "test") if any(isinstance(a, ast.Attribute) and a.attr in keyn for a in ast.walk(cfg.ast[n].test))]
    ctx.need(len(tests) == 1, "_compute_diff_ios_and_couplings: the cache test was not found")
    t = tests[0]
    cp = compare_parts(cfg.ast[t].test)
    other = cp[2] if isinstance(cp[0], ast.Attribute) and cp[0].attr in keyn else cp[0]
    key = dotted(other)
    kd = [s for s in stmts_of(f) if isinstance(s, ast.Assign) and dotted(s.targets[0]) == key]
    elts = {norm_stmt(e).replace("frozenset(", "set(") for e in kd[0].value.elts} if len(kd) == 1 and isinstance(kd[0].value, ast.Tuple) else set()
    ok = cp[1] in (ast.NotEq, ast.Eq) and {"set(functions)", "set(variables)"} <= elts
    ctx.ob("7.5-cache-key", con, ok, "the minimal-couplings cache must be keyed by (at least) the whole request set(variables), set(functions) and recomputed when it differs", node=cfg.ast[t])
    wr_key = [s for s in stmts_of(f) if isinstance(s, ast.Assign) and isinstance(s.targets[0], ast.Attribute) and s.targets[0].attr in keyn]
    wr_val = [s for s in stmts_of(f) if isinstance(s, ast.Assign) and isinstance(s.targets[0], ast.Attribute) and s.targets[0].attr in valn]
    ok = len(wr_key) == 1 and len(wr_val) == 1 and dotted(wr_key[0].value) == key and cfg.under_branch(cfg.node_of(wr_key[0]), t, True) and cfg.under_branch(cfg.node_of(wr_val[0]), t, True)
    ctx.ob("7.5-cache-key", con, ok, "key and cached value must be updated together, in the recomputation branch", node=(wr_key or [f])[0], stmt="key and value updated in the same branch")
    rets = [s for s in stmts_of(f) if isinstance(s, ast.Return)]
    ok = len(rets) == 1 and isinstance(rets[0].value, ast.Attribute) and rets[0].value.attr in valn
    ctx.ob("7.5-cache-key", con, ok, "the cached value is what is returned", node=(rets or [f])[0])
    # nothing else writes them
    cls = ctx.index.cls(ASM, "JacobianAssembly")
    for name, g in cls.methods.items():
        if name in ("__init__", "_compute_diff_ios_and_couplings"):
            continue
        for s in stmts_of(g):
            if isinstance(s, ast.Assign) and any(isinstance(x, ast.Attribute) and x.attr in (keyn | valn) for x in s.targets):
                ctx.ob("7.5-cache-key", cname(ASM, "JacobianAssembly", name), False, "only _compute_diff_ios_and_couplings may write the minimal-couplings cache", node=s)


def check_dimensions(ctx: Ctx) -> None:
    """Sizes of the assembled systems are numbers of components (compute_dimension), never numbers of names."""
    cls = ctx.index.cls(ASM, "JacobianAssembly")
    n = 0
    for mname, f in sorted(cls.methods.items()):
        con = cname(ASM, "JacobianAssembly", mname)
        for st in stmts_of(f):
            tgt = None
            if isinstance(st, ast.Assign) and len(st.targets) == 1 and isinstance(st.targets[0], ast.Name):
                tgt, val = st.targets[0].id, st.value
            elif isinstance(st, ast.AugAssign) and isinstance(st.target, ast.Name):
                tgt, val = st.target.id, st.value
            if tgt is None or not tgt.startswith("n_") or tgt in ("n_newton_steps", "n_processes", "n_cpus"):
                continue
            n += 1

            def dim(e):
                if isinstance(e, ast.Call) and norm_stmt(e.func) == "self.compute_dimension":
                    return True
                if isinstance(e, ast.BinOp) and isinstance(e.op, (ast.Add, ast.Sub)):
                    return dim(e.left) and dim(e.right)
                if isinstance(e, ast.Name) and e.id.startswith("n_"):
                    return True
                if isinstance(e, ast.Attribute) and e.attr in ("size",):
                    return True
                if isinstance(e, ast.Subscript) and isinstance(e.value, ast.Attribute) and e.value.attr == "shape":
                    return True
                return False

            ctx.ob("7.1-dimensions", con, dim(val), f"`{tgt}` sizes a linear system: it must count components (self.compute_dimension(names), sizes, shapes), `{norm_stmt(val, 60)}` counts something else; vector-valued couplings or states then get a system of the wrong size", node=st)
    ctx.floor("7.1-dimensions", 4)


def _op_term(e: ast.AST, x: str):
    """Linear operator (as a nested tuple) that the expression applies to the vector ``x``."""
    if isinstance(e, ast.Name) and e.id == x:
        return ("I",)
    if isinstance(e, ast.Attribute) and e.attr == "real":
        inner = _op_term(e.value, x)
        return None if inner is None else ("real", inner)
    if isinstance(e, ast.BinOp) and isinstance(e.op, (ast.Add, ast.Sub)):
        a, b = _op_term(e.left, x), _op_term(e.right, x)
        return None if a is None or b is None else ("+" if isinstance(e.op, ast.Add) else "-", a, b)
    if isinstance(e, ast.BinOp) and isinstance(e.op, ast.MatMult):
        inner = _op_term(e.right, x)
        return None if inner is None else ("o", _atom(e.left), inner)
    if isinstance(e, ast.Call) and isinstance(e.func, ast.Attribute) and e.func.attr in ("matvec", "rmatvec", "dot") and len(e.args) == 1:
        inner = _op_term(e.args[0], x)
        if inner is None:
            return None
        a = _atom(e.func.value)
        if e.func.attr == "rmatvec":
            a = _t(a)
        return ("o", a, inner)
    return None


def _atom(e: ast.AST):
    if isinstance(e, ast.Attribute) and e.attr == "T":
        return _t(_atom(e.value))
    return ("A", norm_stmt(e))


def _t(m):
    """Transpose of an operator term."""
    k = m[0]
    if k == "I":
        return m
    if k == "A":
        return ("T", m)
    if k == "T":
        return m[1]
    if k == "real":
        return ("real", _t(m[1]))
    if k in "+-":
        return (k, _t(m[1]), _t(m[2]))
    if k == "o":
        # (A o B)^T = B^T o A^T
        return _compose(_t(m[2]), _t(m[1]))
    raise AssertionError(k)


def _compose(a, b):
    if a == ("I",):
        return b
    if b == ("I",):
        return a
    return ("o", a, b)


def _flat(m):
    """Canonical form: compositions flattened to a tuple of factors."""
    k = m[0]
    if k == "o":
        out = []
        for part in (m[1], m[2]):
            fp = _flat(part)
            out.extend(fp[1:] if fp[0] == "chain" else [fp])
        out = [f for f in out if f != ("I",)]
        return ("chain", *out) if len(out) != 1 else out[0]
    if k in "+-":
        # sums are commutative: signed terms, sorted
        def terms(t, sign):
            if t[0] in "+-" and len(t) == 3:
                return terms(t[1], sign) + terms(t[2], sign if t[0] == "+" else -sign)
            return [(sign, _flat(t))]

        return ("sum", *sorted(terms(m, 1), key=repr))
    if k == "real":
        return ("real", _flat(m[1]))
    return m


def check_transposition(ctx: Ctx) -> None:
    """K10: in every operator class, _rmatvec applies the transpose of what _matvec applies."""
    mod = ctx.index.module(JOP)
    n = 0
    for cls in sorted(mod.classes.values(), key=lambda c: c.node.lineno):
        mv, rmv = cls.methods.get("_matvec"), cls.methods.get("_rmatvec")
        if mv is None and rmv is None:
            continue
        con = cname(JOP, cls.qualname)
        if mv is None or rmv is None:
            ctx.ob("7.5-transposition", con, False, f"{cls.name} defines only one of _matvec/_rmatvec: the direct and adjoint modes use different operators", node=cls.node, stmt="both products defined")
            continue
        terms = []
        for f in (mv, rmv):
            x = [a.arg for a in f.args.args if a.arg != "self"][0]
            rets = [s_ for s_ in stmts_of(f) if isinstance(s_, ast.Return) and s_.value is not None]
            terms.append(_op_term(rets[0].value, x) if len(rets) == 1 else None)
        if terms[0] is None or terms[1] is None:
            raise AnalysisError(f"{cls.name}: _matvec/_rmatvec are not of the form the transposition rule understands")
        n += 1
        want = _flat(_t(terms[0]))
        got = _flat(terms[1])
        ctx.ob("7.5-transposition", con, want == got, f"{cls.name}._rmatvec applies {got}; the transpose of what _matvec applies is {want}: adjoint and direct total derivatives then differ", node=rmv, stmt=f"{cls.name}: _rmatvec is the transpose of _matvec")
    ctx.floor("7.5-transposition", 10)


def run(ctx: Ctx) -> None:
    check_solve_routines(ctx)
    check_dimensions(ctx)
    check_transposition(ctx)
    check_call_site(ctx)
    check_identity_blocks(ctx, "7.3", -1)
    check_cursors(ctx)
    check_cache_key(ctx)


# ---------------------------------------------------------------------------
WITNESSES = [
    {"name": "sparse-identity-on-the-discipline-jacobian", "file": ASM, "old": "                        # Make a copy to avoid in-place modifications\n                        jacobian_copy = jacobian.copy()\n\n                        if isinstance(jacobian_copy, ndarray):\n", "new": "                        jacobian_copy = jacobian\n\n                        if isinstance(jacobian_copy, ndarray):\n                            jacobian_copy = jacobian.copy()\n", "expect": "7.3"},
    {"name": "real-operator-transposed-product-is-forward", "file": JOP, "old": "        return self.__operator.rmatvec(x).real", "new": "        return self.__operator.matvec(x).real", "expect": "7.5"},
    {"name": "composition-transposed-in-the-same-order", "file": JOP, "old": "        return self._operand_2.rmatvec(self._operand_1.rmatvec(x))", "new": "        return self._operand_1.rmatvec(self._operand_2.rmatvec(x))", "expect": "7.5"},
    {"name": "array-term-not-transposed", "file": JOP, "old": "        return self._operand_1.rmatvec(x) + self._operand_2.T @ x", "new": "        return self._operand_1.rmatvec(x) + self._operand_2 @ x", "expect": "7.5"},
    {"name": "difference-transposed-as-sum", "file": JOP, "old": "        return self._operand_1.rmatvec(x) - self._operand_2.rmatvec(x)", "new": "        return self._operand_1.rmatvec(x) + self._operand_2.rmatvec(x)", "expect": "7.5"},
    {"name": "adjoint-operator-not-swapped", "file": JOP, "old": "        return self.__operator.rmatvec(x)  # type: ignore[no-any-return]\n\n    def _rmatvec", "new": "        return self.__operator.matvec(x)  # type: ignore[no-any-return]\n\n    def _rmatvec", "expect": "7.5"},
    {"name": "residual-size-counts-names", "file": ASM, "old": "            n_residuals += self.compute_dimension(residual_variables.keys())", "new": "            n_residuals += len(residual_variables)", "expect": "7.1"},
    {"name": "call-site-no-transpose", "file": ASM, "old": "                dres_dy_t.T,\n", "new": "                dres_dy_t,\n", "expect": "7.1"},
    {"name": "dfun_dy-over-residual-names", "file": ASM, "old": "dfun_dy[fun] = self.assemble_jacobian([fun], couplings_and_states)", "new": "dfun_dy[fun] = self.assemble_jacobian([fun], couplings_and_res)", "expect": "7.1"},
    {"name": "dres_dx-swapped-arguments", "file": ASM, "old": "dres_dx = self.assemble_jacobian(couplings_and_res, variables, is_residual=True)", "new": "dres_dx = self.assemble_jacobian(variables, couplings_and_res, is_residual=True)", "expect": "7.1"},
    {"name": "adjoint-column-instead-of-row", "file": ASM, "old": "                self.linear_problem.rhs = -dfunction_dy[fun_component, :].T", "new": "                self.linear_problem.rhs = -dfunction_dy[:, fun_component].T", "expect": "7.1"},
    {"name": "direct-row-instead-of-column", "file": ASM, "old": "            self.linear_problem.rhs = -dres_dx[:, var_index]", "new": "            self.linear_problem.rhs = -dres_dx[var_index, :]", "expect": "7.1"},
    {"name": "direct-store-in-row", "file": ASM, "old": "            dy_dx[:, var_index] = self.linear_problem.solution", "new": "            dy_dx[var_index, :] = self.linear_problem.solution", "expect": "7.1"},
    {"name": "adjoint-no-transpose-of-dres_dx", "file": ASM, "old": "(dres_dx.T.dot(adjoint)).T", "new": "(dres_dx.dot(adjoint)).T", "nth": 0, "expect": "7.1"},
    {"name": "direct-product-reversed", "file": ASM, "old": "dfun_dy[fun].dot(dy_dx)", "new": "dy_dx.dot(dfun_dy[fun])", "nth": 0, "expect": "7.1"},
    {"name": "lu-direct-uses-dfun_dx-twice", "file": ASM, "old": "dfun_dy[fun].dot(dy_dx)", "new": "dfun_dx[fun].dot(dy_dx)", "nth": 1, "expect": "7.1"},
    {"name": "dy_dx-shape-swapped", "file": ASM, "old": "        dy_dx = empty((n_couplings, n_variables))\n        self.linear_problem", "new": "        dy_dx = empty((n_variables, n_couplings))\n        self.linear_problem", "expect": "7.1"},
    {"name": "dispatcher-swaps-matrices", "file": ASM, "old": "            return self._direct_mode_lu(\n                functions, n_variables, n_couplings, dres_dx, dres_dy, dfun_dx, dfun_dy\n            )", "new": "            return self._direct_mode_lu(\n                functions, n_variables, n_couplings, dres_dy, dres_dx, dfun_dx, dfun_dy\n            )", "expect": "7.1"},
    {"name": "lu-flag-inverted", "file": ASM, "old": "        self.n_adjoint_modes += 1\n        if use_lu_fact:", "new": "        self.n_adjoint_modes += 1\n        if not use_lu_fact:", "expect": "7.1"},
    {"name": "rhs-plus", "file": ASM, "old": "            rhs = -dres_dx[:, var_index].todense()", "new": "            rhs = dres_dx[:, var_index].todense()", "expect": "7.2"},
    {"name": "second-term-subtracted", "file": ASM, "old": "dfunction_dx[fun_component, :] + (dres_dx.T.dot(adjoint)).T", "new": "dfunction_dx[fun_component, :] - (dres_dx.T.dot(adjoint)).T", "nth": 1, "expect": "7.2"},
    {"name": "diag-plus-one-sparse", "file": ASM, "old": "jacobian_copy.setdiag(jacobian.diagonal() - 1)", "new": "jacobian_copy.setdiag(jacobian.diagonal() + 1)", "expect": "7.3"},
    {"name": "dispatch-modes-swapped", "file": ASM, "old": "        if mode == self.DerivationMode.DIRECT:", "new": "        if mode == self.DerivationMode.ADJOINT:", "expect": "7.4"},
    {"name": "column-cursor-by-function-size", "file": ASM, "old": "                column += variable_size", "new": "                column += self.sizes[function]", "expect": "7.4"},
    {"name": "row-cursor-inside-inner-loop", "file": ASM, "old": "                column += variable_size\n            row += self.sizes[function]", "new": "                column += variable_size\n                row += self.sizes[function]", "expect": "7.4"},
    {"name": "column-cursor-not-reset", "file": ASM, "old": "        row = 0\n        # Iterate over outputs\n        for row_index, function in enumerate(functions):\n            column = 0\n", "new": "        row = 0\n        column = 0\n        # Iterate over outputs\n        for row_index, function in enumerate(functions):\n", "expect": "7.4"},
    {"name": "split-rows-instead-of-columns", "file": ASM, "old": "sub_jac[variable] = function_jac[:, i_out : i_out + size]", "new": "sub_jac[variable] = function_jac[i_out : i_out + size, :]", "expect": "7.4"},
    {"name": "split-with-functions", "file": ASM, "old": "        return self.split_jac(total_derivatives, variables)", "new": "        return self.split_jac(total_derivatives, functions)", "expect": "7.4"},
    {"name": "cache-key-only-variables", "file": ASM, "old": "        diff_ios = (set(variables), set(functions))\n        if self.__last_diff_inouts != diff_ios:", "new": "        diff_ios = set(variables)\n        if self.__last_diff_inouts != diff_ios:", "expect": "7.5"},
    {"name": "cache-key-not-updated", "file": ASM, "old": "            self.__last_diff_inouts = diff_ios\n", "new": "", "expect": "7.5"},
]
TWINS = [
    {"name": "sum-terms-commuted", "file": JOP, "old": "        return self._operand_1.rmatvec(x) + self._operand_2.rmatvec(x)", "new": "        return self._operand_2.rmatvec(x) + self._operand_1.rmatvec(x)"},
    {"name": "residual-size-in-two-steps", "file": ASM, "old": "            n_residuals += self.compute_dimension(residual_variables.keys())", "new": "            n_residuals = n_residuals + self.compute_dimension(residual_variables.keys())"},
    {"name": "matmul-operator", "file": ASM, "old": "dfun_dy[fun].dot(dy_dx)", "new": "dfun_dy[fun] @ dy_dx", "nth": 0},
    {"name": "both-signs-flipped", "edits": [
        {"file": ASM, "old": "            rhs = -dres_dx[:, var_index].todense()", "new": "            rhs = dres_dx[:, var_index].todense()"},
        {"file": ASM, "old": "dfun_dx[fun].toarray() + dfun_dy[fun].dot(dy_dx)", "new": "dfun_dx[fun].toarray() - dfun_dy[fun].dot(dy_dx)", "nth": 1},
    ]},
    {"name": "rename-index-variable", "file": ASM, "old": "var_index", "new": "j", "count": 0},
]
