"""C02 -- design-space views stay consistent; normalisation is a bijection."""

from __future__ import annotations

import ast
from functools import lru_cache

from gv import rules
from gv.astutil import AnalysisError
from gv.astutil import arg_or_kw
from gv.astutil import as_update
from gv.astutil import const_value
from gv.astutil import dotted
from gv.astutil import kwarg
from gv.astutil import last_attr
from gv.astutil import mangle
from gv.astutil import names_in
from gv.astutil import norm_stmt
from gv.astutil import same
from gv.astutil import stmts_of
from gv.astutil import unparse
from gv.astutil import walk_body
from gv.cfg import cfg_of
from gv.props.shared import expand_accessor
from gv.effects import Write
from gv.effects import property_aliases
from gv.effects import writes_in
from gv.index import ClassInfo
from gv.props import describe
from gv.report import Ctx
from gv.report import cname

DSF = "algos/design_space.py"

describe(
    "C02",
    explanation=(
        "Static decision of the structural clauses of C02 over every method of DesignSpace and its subclasses: "
        "co-update of the per-variable maps (_variables, normalize, __names_to_indices, dimension, current value); "
        "every writer of a normalisation source resets __norm_data_is_computed on every normal path; cached "
        "normalisation arrays are read only under the validity flag and written only by the recomputation; every "
        "writer of the current value / variable keys refreshes the value caches after its last write; index ranges "
        "shift by exactly the removed size; no str is passed where a sequence of names is expected; normalise and "
        "unnormalise are inverse operation sequences on the same components; subclasses forward minus_lb."
    ),
    decided=["2.1 co-update of variable maps", "2.2 normalisation invalidation", "2.3 guarded reads / single writer of the normalisation cache", "2.4 current-value cache refresh", "2.5 affine index shifting", "2.6 str vs sequence of names", "2.7 inverse operation sequences", "2.8 override forwarding", "2.9 array/dict conversion order and cursor", "2.4 refresh before any validation that may raise (or roll-back)", "2.10 ParameterSpace views in one order (rule groups 19.6/19.2 of C19)", "2.3-derived the normalised current value is dropped when the normalisation data are recomputed"],
    not_decided=["floating-point exactness of the bijection", "numerical agreement of check_membership / project_into_bounds", "CSV text precision"],
)

DICT_MEMBERS = ("_variables", "normalize", "__names_to_indices")
NORM_CACHE = (
    "__lower_bounds_array", "__upper_bounds_array", "_norm_factor", "_norm_factor_inv",
    "__norm_inds", "__integer_components", "__no_integer", "__common_dtype",
)  # fmt: skip
FLAG = "__norm_data_is_computed"
UPDATE_NORM = "__update_normalization_vars"
UPDATE_VALUE = "__update_current_metadata"
VALUE = "__current_value"
KEYCALLS = {"pop", "popitem", "clear", "update", "setdefault"}

# one symbol, one reason
# (F50: `to_complex` was listed here as "value-preserving"; the cached common data type is not preserved by it)
VALUE_REFRESH_EXCEPTIONS: dict[str, str] = {}


class View:
    """Per-class view: methods (incl. setters), alias-normalised writes, self calls."""

    def __init__(self, ctx: Ctx, ds: ClassInfo):
        self.ctx = ctx
        self.index = ctx.index
        self.ds = ds
        self.classes = [ds, *self.index.subclasses(ds)]
        self.palias = property_aliases(ds)  # _current_value -> __current_value
        self.methods: dict[tuple[str, str], tuple[ClassInfo, ast.FunctionDef]] = {}
        for c in self.classes:
            for n, f in c.methods.items():
                self.methods[(c.key, n)] = (c, f)
            for n, f in c.setters.items():
                self.methods[(c.key, n + "@setter")] = (c, f)
        self._writes: dict[tuple[str, str], list[Write]] = {}

    def unmangle(self, cls: ClassInfo, attr: str) -> str:
        """Canonical (un-mangled, alias-resolved) attribute name; private names of other classes stay distinct."""
        pre = "_" + cls.name.lstrip("_") + "__"
        if attr.startswith(pre):
            attr = attr[len(pre) - 2 :]
        if attr.startswith("__") and not attr.endswith("__") and cls != self.ds:
            return f"{cls.name}.{attr}"  # a subclass' own private attribute
        attr = self.palias.get(attr, attr)
        return attr

    def writes(self, key) -> list[Write]:
        if key not in self._writes:
            c, f = self.methods[key]
            ws = writes_in(f, c.name, aliases=True)
            for w in ws:
                w.attr = self.unmangle(c, w.attr)
            self._writes[key] = ws
        return self._writes[key]

    def resolve_call(self, cls: ClassInfo, call: ast.Call):
        """Target (key) of ``self.m(...)`` / ``super().m(...)`` inside ``cls``."""
        f = call.func
        if not isinstance(f, ast.Attribute):
            return None
        name = f.attr
        if isinstance(f.value, ast.Name) and f.value.id == "self":
            pre = "_" + cls.name.lstrip("_") + "__"
            if name.startswith(pre):
                name = name[len(pre) - 2 :]
            if name.startswith("__") and not name.endswith("__"):
                return (cls.key, name) if (cls.key, name) in self.methods else None
            r = self.index.resolve_method(cls, name)
            if r is None:
                return None
            return (r[0].key, name) if (r[0].key, name) in self.methods else None
        if isinstance(f.value, ast.Call) and isinstance(f.value.func, ast.Name) and f.value.func.id == "super":
            r = self.index.resolve_method(cls, name, after=cls)
            if r is None:
                return None
            return (r[0].key, name) if (r[0].key, name) in self.methods else None
        return None

    def self_call_nodes(self, key):
        c, f = self.methods[key]
        out = []
        for n in walk_body(f):
            if isinstance(n, ast.Call):
                t = self.resolve_call(c, n)
                if t is not None:
                    out.append((n, t))
        # property setters invoked by assignment: self.<prop> = value
        for s in stmts_of(f):
            if isinstance(s, ast.Assign):
                for t in s.targets:
                    if isinstance(t, ast.Attribute) and isinstance(t.value, ast.Name) and t.value.id == "self":
                        r = self.index.resolve_method(c, t.attr, setter=True)
                        if r is not None and (r[0].key, t.attr + "@setter") in self.methods:
                            out.append((s, (r[0].key, t.attr + "@setter")))
        return out

    def label(self, key) -> str:
        c, f = self.methods[key]
        return cname(c.module.relpath, c.qualname, key[1])

    def is_public(self, key) -> bool:
        n = key[1]
        return not n.startswith("_") or n.endswith("@setter") or (n.startswith("__") and n.endswith("__") and n != "__init__")


class Protocol:
    """``every write of category W is accompanied by action A`` with helper/caller propagation."""

    def __init__(self, view: View, is_write, is_action_stmt, *, after_only: bool, name: str):
        self.v = view
        self.is_write = is_write  # Write -> bool
        self.is_action_stmt = is_action_stmt  # (cls, ast node) -> bool  (direct action)
        self.after_only = after_only
        self.name = name
        self._must: dict = {}
        self._unprot: dict = {}

    # -- does every normal path through the method perform the action?
    def must_do(self, key, _stack=()) -> bool:
        if key in self._must:
            return self._must[key]
        if key in _stack:
            return False
        c, f = self.v.methods[key]
        cfg = cfg_of(f)
        acts = self.action_nodes(key, (*_stack, key))
        res = bool(acts) and cfg.must_pass(cfg.entry, acts)
        if not cfg.can_reach_exit(cfg.entry):
            res = False
        self._must[key] = res
        return res

    def action_nodes(self, key, _stack=()) -> set[int]:
        c, f = self.v.methods[key]
        cfg = cfg_of(f)
        out = set()
        for n in cfg.stmt_nodes():
            a = cfg.ast[n]
            if cfg.kind[n] == "stmt" and a is not None and self.is_action_stmt(c, a):
                out.add(n)
        for call, tgt in self.v.self_call_nodes(key):
            if tgt != key and self.must_do(tgt, _stack):
                out.add(cfg.node_of(call))
        return out

    def write_nodes(self, key, _stack=()) -> list[tuple[int, ast.AST, str]]:
        """CFG nodes of the method that write category W (directly or through an unprotected helper)."""
        c, f = self.v.methods[key]
        cfg = cfg_of(f)
        out = []
        for w in self.v.writes(key):
            if self.is_write(w):
                out.append((cfg.node_of(w.node), w.node, f"{w.attr}:{w.kind}"))
        for call, tgt in self.v.self_call_nodes(key):
            if tgt == key or tgt in _stack:
                continue
            if not self.v.is_public(tgt) and self.unprotected(tgt, (*_stack, key)):
                out.append((cfg.node_of(call), call, f"via {tgt[1]}"))
        return out

    def unprotected(self, key, _stack=()) -> list[tuple[ast.AST, str, str]]:
        """Writes of the method not covered by the action (node, what, escaping path)."""
        if key in self._unprot and not _stack:
            return self._unprot[key]
        c, f = self.v.methods[key]
        cfg = cfg_of(f)
        acts = self.action_nodes(key)
        bad = []
        for n, node, what in self.write_nodes(key, _stack):
            if n in acts:
                continue
            if not cfg.reachable(cfg.entry, n) or not cfg.can_reach_exit(n):
                continue
            after = cfg.escape_path(n, acts)
            if after is None:
                continue
            if not self.after_only and cfg.must_pass(cfg.entry, acts, n):
                continue
            bad.append((node, what, cfg.describe_path(after)))
        if not _stack:
            self._unprot[key] = bad
        return bad


def _is_self_attr_assign(cls: ClassInfo, node: ast.AST, attr: str, value) -> bool:
    if not isinstance(node, ast.Assign):
        return False
    want = {attr, mangle(cls.name, attr)}
    for t in node.targets:
        if isinstance(t, ast.Attribute) and t.attr in want and isinstance(t.value, ast.Name) and t.value.id == "self":
            return isinstance(node.value, ast.Constant) and node.value.value is value
    return False


def _is_self_call(cls: ClassInfo, node: ast.AST, meth: str) -> bool:
    want = {meth, mangle(cls.name, meth)}
    for n in ast.walk(node):
        if isinstance(n, ast.Call) and isinstance(n.func, ast.Attribute) and n.func.attr in want and isinstance(n.func.value, ast.Name) and n.func.value.id == "self":
            return True
    return False


# ---------------------------------------------------------------------------


def norm_source_write(w: Write) -> bool:
    if w.attr == "_variables":
        if w.kind in ("item", "del", "rebind"):
            return True
        if w.kind == "call":
            return w.method in KEYCALLS
        if w.kind == "itemattr":
            return w.sub in ("lower_bound", "upper_bound", "size", "type")
    if w.attr == "normalize":
        return w.kind in ("item", "del", "rebind") or (w.kind == "call" and w.method in KEYCALLS)
    if w.attr == "__normalize_integer_variables":
        return w.kind == "rebind"
    return False


def value_source_write(w: Write) -> bool:
    if w.attr == VALUE:
        return w.kind in ("item", "del", "rebind") or (w.kind == "call" and w.method in KEYCALLS)
    if w.attr == "_variables":
        return w.kind in ("item", "del", "rebind") or (w.kind == "call" and w.method in KEYCALLS)
    return False


def check_protocols(ctx: Ctx, view: View) -> None:
    ds = view.ds
    inv = Protocol(view, norm_source_write, lambda c, a: c == ds and _is_self_attr_assign(c, a, FLAG, False), after_only=False, name="invalidate")
    upd = Protocol(view, value_source_write, lambda c, a: c == ds and isinstance(a, ast.Expr) and _is_self_call(c, a, UPDATE_VALUE), after_only=True, name="refresh")
    for key in sorted(view.methods):
        c, f = view.methods[key]
        if key[1] == "__init__":
            continue
        con = view.label(key)
        for proto, rule, text in (
            (inv, "2.2-invalidate", "edits a source of the normalisation data (variables, bounds, policies) without resetting __norm_data_is_computed on that path: the next (un)normalisation uses stale bounds/factors"),
            (upd, "2.4-refresh", "edits the current value or the set of variables without calling __update_current_metadata() afterwards: the cached flat/normalised current value (and has_current_value) are stale"),
        ):
            nodes = proto.write_nodes(key)
            if not nodes:
                continue
            if not view.is_public(key):
                continue  # obligations of helpers are carried by their callers
            if proto is upd and key[1] in VALUE_REFRESH_EXCEPTIONS and c == ds:
                ctx.note(f"2.4 exception {key[1]}: {VALUE_REFRESH_EXCEPTIONS[key[1]]}")
                continue
            bad = proto.unprotected(key)
            badnodes = {id(b[0]): b for b in bad}
            for n, node, what in nodes:
                b = badnodes.get(id(node))
                ctx.ob(rule, con, b is None, f"{c.name}.{key[1]} {text}" + (f" [{b[2]}]" if b else ""), node=node, slots={"write": what})


def check_refresh_before_validation(ctx: Ctx, view: View) -> None:
    """2.4 (error path): a method that edits the current value and THEN validates it (a call that raises on a bad value)
    refreshes the derived views before the validation: the rejected value stays in the dictionary view, so the array
    and normalised views must follow it -- refreshed after the check, they keep the old value when the check raises and
    the two views of one design space disagree from then on."""
    ds = view.ds
    upd = Protocol(view, value_source_write, lambda c, a: c == ds and isinstance(a, ast.Expr) and _is_self_call(c, a, UPDATE_VALUE), after_only=True, name="refresh")

    def may_raise(name: str) -> bool:
        g = ds.methods.get(name) or ds.methods.get(mangle(ds.name, name))
        return g is not None and name.lstrip("_").startswith("check") and any(isinstance(n_, ast.Raise) for n_ in ast.walk(g))

    n = 0
    for key in sorted(view.methods):
        c, f = view.methods[key]
        if c != ds or key[1] == "__init__" or not view.is_public(key):
            continue
        nodes = upd.write_nodes(key)
        if not nodes:
            continue
        cfg = cfg_of(f)
        refresh = {cfg.node_of(a) for a in stmts_of(f) if isinstance(a, ast.Expr) and _is_self_call(c, a, UPDATE_VALUE)}
        checks = [a for a in walk_body(f) if isinstance(a, ast.Call) and isinstance(a.func, ast.Attribute) and dotted(a.func.value) == "self" and may_raise(a.func.attr) and cfg.has(a)]
        def refreshes(g_name: str) -> bool:
            g = ds.methods.get(g_name) or ds.methods.get(mangle(ds.name, g_name))
            return g is not None and any(isinstance(a, ast.Expr) and _is_self_call(c, a, UPDATE_VALUE) for a in stmts_of(g))

        def rolled_back(chk: ast.Call) -> bool:
            """the validation sits in a try whose handlers undo the edit through a method that refreshes the views (or
            refresh them directly) and raise again: the error path leaves consistent views too"""
            for t in (t_ for t_ in ast.walk(f) if isinstance(t_, ast.Try)):
                if not any(chk is n_ for b_ in t.body for n_ in ast.walk(b_)) or not t.handlers:
                    continue
                return all(
                    any(isinstance(n_, ast.Raise) for n_ in ast.walk(h))
                    and any(isinstance(n_, ast.Call) and isinstance(n_.func, ast.Attribute) and dotted(n_.func.value) == "self" and (n_.func.attr.endswith(UPDATE_VALUE) or refreshes(n_.func.attr)) for n_ in ast.walk(h))
                    for h in t.handlers
                )
            return False

        for chk in checks:
            cn = cfg.node_of(chk)
            bad = [] if rolled_back(chk) else [node for wn, node, _ in nodes if wn != cn and cfg.path(wn, cn, avoid=refresh - {wn}) is not None and wn not in refresh]
            n += 1
            ctx.ob("2.4-refresh-before-validation", view.label(key), not bad, f"{key[1]} validates the new current value with {chk.func.attr}() before refreshing the cached arrays: when the validation raises, the dictionary view holds the rejected value while get_current_value() / the normalised value still return the previous one", node=chk, stmt=f"refresh precedes {chk.func.attr}()")
    ctx.floor("2.4-refresh-before-validation", 1)


# ---------------------------------------------------------------------------
# 2.1 co-update


def _is_rekey_pop(stmt: ast.AST) -> bool:
    """``d[new] = d.pop(old)``"""
    if isinstance(stmt, ast.Assign) and len(stmt.targets) == 1 and isinstance(stmt.targets[0], ast.Subscript):
        v = stmt.value
        return isinstance(v, ast.Call) and isinstance(v.func, ast.Attribute) and v.func.attr == "pop" and same(v.func.value, stmt.targets[0].value)
    return False


def _order_preserving_rebuild(stmt: ast.AST, attr_names: set[str]) -> bool:
    """``self.d = {f(k): v for k, v in self.d.items()}`` (a comprehension over the member's own items)."""
    if not isinstance(stmt, ast.Assign):
        return False
    v = stmt.value
    if not isinstance(v, ast.DictComp) or len(v.generators) != 1 or v.generators[0].ifs:
        return False
    it = v.generators[0].iter
    return isinstance(it, ast.Call) and isinstance(it.func, ast.Attribute) and it.func.attr == "items" and isinstance(it.func.value, ast.Attribute) and it.func.value.attr in attr_names and dotted(it.func.value.value) == "self"


def _inplace_rebuild_ok(f: ast.AST, cfg, clear_call: ast.Call) -> bool:
    """``items = [(g(k), v) for k, v in d.items()]; d.clear(); d.update(items)`` on one name ``d``."""
    d = clear_call.func.value
    if not isinstance(d, ast.Name):
        return False
    cn = cfg.node_of(clear_call)
    updates = [c for c in walk_body(f) if isinstance(c, ast.Call) and isinstance(c.func, ast.Attribute) and c.func.attr == "update" and isinstance(c.func.value, ast.Name) and c.func.value.id == d.id]
    if len(updates) != 1 or not updates[0].args or not isinstance(updates[0].args[0], ast.Name):
        return False
    un = cfg.node_of(updates[0])
    if not cfg.must_pass(cn, {un}) or cfg.reachable(un, cn, avoid={n for n in cfg.g.nodes if cfg.kind[n] == "loop"}):
        return False
    items_name = updates[0].args[0].id
    defs = [s for s in stmts_of(f) if isinstance(s, ast.Assign) and any(isinstance(t, ast.Name) and t.id == items_name for t in s.targets)]
    if len(defs) != 1:
        return False
    v = defs[0].value
    if isinstance(v, ast.Call) and dotted(v.func) in ("list", "tuple") and v.args:
        v = v.args[0]
    if isinstance(v, ast.Call) and dotted(v.func) == "dict" and v.args:
        v = v.args[0]
    if not isinstance(v, (ast.ListComp, ast.GeneratorExp, ast.DictComp)) or len(v.generators) != 1 or v.generators[0].ifs:
        return False
    if isinstance(v, ast.GeneratorExp) and v is defs[0].value:
        return False  # a lazy generator would be consumed after clear(): it must be materialised first
    it = v.generators[0].iter
    if not (isinstance(it, ast.Call) and isinstance(it.func, ast.Attribute) and it.func.attr == "items" and isinstance(it.func.value, ast.Name) and it.func.value.id == d.id):
        return False
    dn = cfg.node_of(defs[0])
    # the snapshot is taken before the clear, in the same iteration
    return cfg.must_pass(dn, {cn}, un) and cfg.dominates(dn, cn)


def check_coupdate(ctx: Ctx, view: View) -> None:
    ds = view.ds
    for key in sorted(view.methods):
        c, f = view.methods[key]
        if key[1] == "__init__":
            continue
        ws = view.writes(key)
        con = view.label(key)
        by = {m: [w for w in ws if w.attr == m] for m in (*DICT_MEMBERS, "dimension", VALUE)}
        calls = {t[1] for _, t in view.self_call_nodes(key)}
        stores = {m: [w for w in by[m] if w.kind == "item" and not _is_rekey_pop(w.node)] for m in DICT_MEMBERS}
        dels = {m: [w for w in by[m] if w.kind == "del" or (w.kind == "call" and w.method == "pop" and not _is_rekey_pop(rules.enclosing_stmt(f, w.node)))] for m in DICT_MEMBERS}
        rekeys = {m: [w for w in by[m] if w.kind == "item" and _is_rekey_pop(w.node)] for m in DICT_MEMBERS}
        rebinds = {m: [w for w in by[m] if w.kind == "rebind"] for m in DICT_MEMBERS}
        dim_written = bool(by["dimension"])
        # (a) add / replace an entry of _variables
        for w in stores["_variables"]:
            pol = bool(stores["normalize"]) or "_add_norm_policy" in calls
            ctx.ob("2.1-store", con, pol, f"{key[1]} replaces/adds _variables[{unparse(w.key)}] but does not write the normalisation policy of that variable (normalize[...] or _add_norm_policy): the policy keeps its old length", node=w.node, stmt=f"_variables[{unparse(w.key)}] -> normalize")
            ctx.ob("2.1-store", con, bool(stores["__names_to_indices"]), f"{key[1]} replaces/adds _variables[{unparse(w.key)}] but does not write its index range", node=w.node, stmt=f"_variables[{unparse(w.key)}] -> __names_to_indices")
            ctx.ob("2.1-store", con, dim_written, f"{key[1]} replaces/adds _variables[{unparse(w.key)}] but does not update dimension", node=w.node, stmt=f"_variables[{unparse(w.key)}] -> dimension")
        # (b) delete an entry
        if any(dels[m] for m in DICT_MEMBERS):
            first = next(w for m in DICT_MEMBERS for w in dels[m])
            for m in DICT_MEMBERS:
                ctx.ob("2.1-delete", con, bool(dels[m]), f"{key[1]} deletes a variable from some per-variable maps but not from {m}", node=first.node, stmt=f"delete -> {m}")
            ctx.ob("2.1-delete", con, dim_written, f"{key[1]} deletes a variable but does not update dimension", node=first.node, stmt="delete -> dimension")
            vdel = [w for w in by[VALUE] if w.kind == "del" or (w.kind == "call" and w.method == "pop")]
            ctx.ob("2.1-delete", con, bool(vdel), f"{key[1]} deletes a variable but keeps its current value", node=first.node, stmt="delete -> __current_value")
        # (c) re-key with d[new] = d.pop(old): moves the key to the end of the dict
        for w in rekeys["_variables"]:
            recomputed = any(isinstance(s, ast.For) and any(isinstance(x, ast.Assign) and any(isinstance(t, ast.Subscript) and isinstance(t.value, ast.Attribute) and t.value.attr.endswith("__names_to_indices") for t in x.targets) for x in ast.walk(s)) for s in stmts_of(f))
            ctx.ob("2.1-rekey-order", con, recomputed, f"{key[1]} re-keys _variables with d[new] = d.pop(old): the variable moves to the end of the variable order while __names_to_indices keeps the old ranges, so the vector view and the per-variable view disagree", node=w.node)
        # (d) rebuilding a member wholesale: rebind by comprehension, or clear() + update(items)
        clears = {m: [w for w in by[m] if w.kind == "call" and w.method == "clear"] for m in (*DICT_MEMBERS, VALUE)}
        if any(rebinds[m] for m in DICT_MEMBERS) or any(clears[m] for m in DICT_MEMBERS):
            first = next(w for m in DICT_MEMBERS for w in (*rebinds[m], *clears[m]))
            cfg = cfg_of(f)
            for m in (*DICT_MEMBERS, VALUE):
                if rebinds.get(m):
                    ok = all(_order_preserving_rebuild(w.node, {m, mangle(ds.name, m)}) for w in rebinds[m])
                elif clears[m]:
                    ok = all(_inplace_rebuild_ok(f, cfg, w.node) for w in clears[m])
                else:
                    ok = False
                ctx.ob("2.1-rebuild", con, ok, f"{key[1]} rebuilds a per-variable map; every map ({m} here) must be rebuilt in the same method, preserving the order of its own items (comprehension over .items() evaluated before clear(), then update())", node=(rebinds.get(m) or clears[m] or [first])[0].node, stmt=f"rebuild -> {m}")
        # (e) bound edits re-derive the policy
        for w in by["_variables"]:
            if w.kind == "itemattr" and w.sub in ("lower_bound", "upper_bound"):
                after = [n for n, t in view.self_call_nodes(key) if t[1] == "_add_norm_policy"]
                cfg = cfg_of(f)
                ok = bool(after) and cfg.must_pass(cfg.node_of(w.node), {cfg.node_of(a) for a in after})
                ctx.ob("2.1-bound-policy", con, ok, f"{key[1]} changes a bound without re-deriving the normalisation policy afterwards (a component is normalised iff both bounds are finite)", node=w.node)


# ---------------------------------------------------------------------------
# 2.3 guarded reads, single writer


def check_normalized_current_value(ctx: Ctx, view: View) -> None:
    """2.3-derived: the normalised current value is cached; it is derived from the current value AND from the bounds.
    The current-value side is cleared by `__clear_dependent_data` (2.4); for the bounds side, the reader must not serve
    the cache once the normalisation data have been invalidated: its recomputation test involves the flag (F49)."""
    ds = view.ds
    f = ds.methods["get_current_value"]
    con = cname(DSF, "DesignSpace", "get_current_value")
    names = {"__norm_current_value_array", mangle(ds.name, "__norm_current_value_array")}
    fills = [s_ for s_ in stmts_of(f) if isinstance(s_, ast.Assign) and isinstance(s_.targets[0], ast.Attribute) and s_.targets[0].attr in names]
    ctx.need(len(fills) >= 1, "get_current_value: the computation of the normalised current value was not found")
    from gv.props.shared import branch_conditions as _bc

    cfg = cfg_of(f)
    flag_names = {FLAG, mangle(ds.name, FLAG)}
    for fl in fills:
        tests = [cfg.ast[t].test for t, v in _bc(cfg, cfg.node_of(fl)) if cfg.kind[t] == "test" and v]
        guarded = [t_ for t_ in tests if any(isinstance(x, ast.Attribute) and x.attr in names for x in ast.walk(t_))]
        # the recomputation of the normalisation data drops the cache (a test of the validity flag in the reader is not
        # enough: any other method that refreshes the data sets the flag again before the reader looks at it -- F55)
        upd = ds.methods.get("__update_normalization_vars") or ds.methods.get(mangle(ds.name, "__update_normalization_vars"))
        ok = bool(guarded) and upd is not None and any(isinstance(s_, ast.Assign) and isinstance(s_.targets[0], ast.Attribute) and s_.targets[0].attr in names and isinstance(s_.value, ast.Call) and not any(isinstance(n_, ast.Attribute) and n_.attr in names for n_ in ast.walk(s_.value)) for s_ in stmts_of(upd))
        if not ok:
            # the other design: every method that invalidates the normalisation data clears this cache as well
            ok = all(any(isinstance(x, ast.Attribute) and x.attr in names and isinstance(x.ctx, ast.Store) for x in ast.walk(m)) or any(isinstance(c_, ast.Call) and (last_attr(c_) or "").endswith("__clear_dependent_data") for c_ in ast.walk(m)) for key, (c, m) in view.methods.items() if c == ds and any(isinstance(s_, ast.Assign) and isinstance(s_.targets[0], ast.Attribute) and s_.targets[0].attr in flag_names and const_value(s_.value, None) is False for s_ in stmts_of(m)))
        ctx.ob("2.3-derived", con, ok, "the cached normalised current value is served although the bounds may have changed: the routine that recomputes the normalisation data must drop it (or every method invalidating them must); testing the validity flag where it is read is not enough, because any other (un)normalisation in between sets the flag again", node=fl, stmt="normalised current value recomputed after an edit of the bounds")


def check_norm_cache(ctx: Ctx, view: View) -> None:
    check_normalized_current_value(ctx, view)
    ds = view.ds
    cache = set(NORM_CACHE)
    flag_names = {FLAG, mangle(ds.name, FLAG)}
    upd_names = {UPDATE_NORM, mangle(ds.name, UPDATE_NORM)}

    def canon(c, attr):
        return view.unmangle(c, attr)

    # writers
    for key in sorted(view.methods):
        c, f = view.methods[key]
        for w in view.writes(key):
            if w.attr in cache:
                ok = c == ds and key[1] in ("__init__", UPDATE_NORM)
                ctx.ob("2.3-writer", view.label(key), ok, f"{c.name}.{key[1]} writes the cached normalisation field {w.attr}; only __update_normalization_vars (under the validity flag protocol) may do so, otherwise the field survives later edits of the bounds", node=w.node)

    def guard_tests(cfg):
        """(test node, value) pairs after which the cache is valid."""
        out = []
        for n in cfg.nodes(lambda n: cfg.kind[n] == "test"):
            t = cfg.ast[n].test
            # if not self.__flag: self.__update()
            # tests are canonical (gv.canon: no leading `not`): `if flag: pass else: update()`; the raw form is kept too
            neg = isinstance(t, ast.UnaryOp) and isinstance(t.op, ast.Not)
            op_ = t.operand if neg else t
            if isinstance(op_, ast.Attribute) and op_.attr in flag_names:
                when_false = cfg.ast[n].body if neg else cfg.ast[n].orelse
                when_true = cfg.ast[n].orelse if neg else cfg.ast[n].body
                if any(isinstance(s, ast.Expr) and isinstance(s.value, ast.Call) and isinstance(s.value.func, ast.Attribute) and s.value.func.attr in upd_names for s in when_false) and all(isinstance(s, ast.Pass) for s in when_true):
                    out.append(("after", n))
            conj = t.values if isinstance(t, ast.BoolOp) and isinstance(t.op, ast.And) else [t]
            if any(isinstance(x, ast.Attribute) and x.attr in flag_names and dotted(x.value) == "self" for x in conj):
                out.append(("true", n))
        return out

    def guarded_at(cfg, node_id, guards) -> bool:
        for kind, t in guards:
            if kind == "after" and cfg.dominates(t, node_id) and node_id != t:
                # the read must come after the whole ``if`` (not inside its test)
                return True
            if kind == "true" and cfg.under_branch(node_id, t, True):
                return True
        # an unconditional call to the recomputation also validates
        return False

    # entry-guardedness of private helpers: all intra-class call sites are guarded
    entry_guarded: dict = {}

    def is_entry_guarded(key, stack=()) -> bool:
        if key in entry_guarded:
            return entry_guarded[key]
        if view.is_public(key) or key in stack:
            return False
        sites = []
        for k2 in view.methods:
            for call, tgt in view.self_call_nodes(k2):
                if tgt == key:
                    sites.append((k2, call))
        if not sites:
            entry_guarded[key] = False
            return False
        ok = True
        for k2, call in sites:
            c2, f2 = view.methods[k2]
            cfg2 = cfg_of(f2)
            if guarded_at(cfg2, cfg2.node_of(call), guard_tests(cfg2)):
                continue
            if is_entry_guarded(k2, (*stack, key)):
                continue
            ok = False
        entry_guarded[key] = ok
        return ok

    # forwarding exception: value passed to a helper that returns it only under the flag
    def forwarded_to_guarding_helper(c, f, key, read: ast.Attribute) -> bool:
        for call, tgt in view.self_call_nodes(key):
            if not isinstance(call, ast.Call):
                continue
            pos = [i for i, a in enumerate(call.args) if a is read]
            if not pos:
                continue
            c2, f2 = view.methods[tgt]
            params = [a.arg for a in f2.args.args if a.arg != "self"]
            if pos[0] >= len(params):
                return False
            p = params[pos[0]]
            cfg2 = cfg_of(f2)
            guards = guard_tests(cfg2)
            uses = [n for n in walk_body(f2) if isinstance(n, ast.Name) and n.id == p and isinstance(n.ctx, ast.Load)]
            return bool(uses) and all(guarded_at(cfg2, cfg2.node_of(u), guards) for u in uses)
        return False

    n_readers = 0
    for key in sorted(view.methods):
        c, f = view.methods[key]
        if c == ds and key[1] in ("__init__", UPDATE_NORM):
            continue
        reads = [n for n in walk_body(f) if isinstance(n, ast.Attribute) and isinstance(n.ctx, ast.Load) and isinstance(n.value, ast.Name) and n.value.id == "self" and canon(c, n.attr) in cache]
        if not reads:
            continue
        n_readers += 1
        cfg = cfg_of(f)
        guards = guard_tests(cfg)
        eg = is_entry_guarded(key)
        con = view.label(key)
        for r in reads:
            ok = eg or guarded_at(cfg, cfg.node_of(r), guards) or forwarded_to_guarding_helper(c, f, key, r)
            ctx.ob("2.3-guard", con, ok, f"{c.name}.{key[1]} reads the cached normalisation field {canon(c, r.attr)} without first checking __norm_data_is_computed (and recomputing): after an edit of the bounds it sees stale data", node=rules.enclosing_stmt(f, r), stmt=f"read {canon(c, r.attr)} in: {norm_stmt(rules.enclosing_stmt(f, r), 90)}")
    ctx.counts["2.3-readers"] = n_readers
    # the recomputation sets the flag and is the only place that sets it True
    upd = ctx.index.method(DSF, "DesignSpace", UPDATE_NORM)
    sets_true = [s for s in stmts_of(upd) if _is_self_attr_assign(ds, s, FLAG, True)]
    ctx.ob("2.3-flag", cname(DSF, "DesignSpace", UPDATE_NORM), len(sets_true) == 1, "the recomputation must mark the normalisation data as computed", node=upd, stmt="flag = True in recomputation")
    for key in sorted(view.methods):
        c, f = view.methods[key]
        if c == ds and key[1] == UPDATE_NORM:
            continue
        for s in stmts_of(f):
            if c == ds and _is_self_attr_assign(c, s, FLAG, True):
                ctx.ob("2.3-flag", view.label(key), False, "only __update_normalization_vars may declare the normalisation data valid", node=s)
    # every cache field is (re)computed by the recomputation
    written = {w.attr for w in view.writes((ds.key, UPDATE_NORM))}
    for fld in NORM_CACHE:
        ctx.ob("2.3-recompute", cname(DSF, "DesignSpace", UPDATE_NORM), fld in written, f"the recomputation does not refresh {fld}", node=upd, stmt=f"recompute {fld}")


# ---------------------------------------------------------------------------
# 2.5 affine index shifting


def _range_args(e: ast.AST):
    if isinstance(e, ast.Call) and dotted(e.func) == "range" and len(e.args) == 2:
        return e.args
    return None


def _minus(e: ast.AST):
    """(base, amount) for ``base - amount``; (e, None) otherwise."""
    if isinstance(e, ast.BinOp) and isinstance(e.op, ast.Sub):
        return e.left, e.right
    return e, None


def check_index_shift(ctx: Ctx, view: View) -> None:
    ds = view.ds
    n2i = {"__names_to_indices", mangle(ds.name, "__names_to_indices")}
    for mname in ("remove_variable", "filter_dimensions"):
        f = ctx.index.method(DSF, "DesignSpace", mname)
        con = cname(DSF, "DesignSpace", mname)
        cfg = cfg_of(f)
        # amount removed from dimension
        dim = [s for s in stmts_of(f) if as_update(s) and dotted(as_update(s)[0]) == "self.dimension"]
        ctx.need(len(dim) == 1 and isinstance(as_update(dim[0])[1], ast.Sub), f"{mname}: `self.dimension -= <amount>` not found")
        amount = as_update(dim[0])[2]
        stores = [s for s in stmts_of(f) if isinstance(s, ast.Assign) and len(s.targets) == 1 and isinstance(s.targets[0], ast.Subscript) and isinstance(s.targets[0].value, ast.Attribute) and s.targets[0].value.attr in n2i and _range_args(s.value)]
        ctx.need(stores, f"{mname}: no range store into __names_to_indices")
        # the loop variable bound to the old range
        for s in stores:
            a, b = _range_args(s.value)
            (a0, da), (b0, db) = _minus(a), _minus(b)
            is_start = isinstance(a0, ast.Attribute) and a0.attr == "start"
            is_stop = isinstance(b0, ast.Attribute) and b0.attr == "stop"
            same_base = is_start and is_stop and same(a0.value, b0.value)
            ctx.ob("2.5-shift", con, same_base, "the new range is not built from the start/stop of one old range", node=s)
            if not same_base:
                continue
            # which branch: own variable (== name) or later variables
            sn = cfg.node_of(s)
            eq_tests = [(t, v) for (t, v), bnode in cfg.branch.items() if cfg.dominates(bnode, sn) and isinstance(getattr(cfg.ast[t], "test", None), ast.Compare)]
            own = any(v and isinstance(cfg.ast[t].test.ops[0], ast.Eq) for t, v in eq_tests)
            if own:
                ok = da is None and db is not None and same(db, amount)
                ctx.ob("2.5-shift", con, ok, "the edited variable's own range must keep its start and lose exactly the removed amount from its stop", node=s, slots={"amount": unparse(amount)})
            else:
                ok = da is not None and db is not None and same(da, amount) and same(db, amount)
                ctx.ob("2.5-shift", con, ok, f"later ranges must shift start and stop by exactly the amount removed from dimension ({unparse(amount)})", node=s, slots={"amount": unparse(amount)})
                # guarded by the "name reached" flag: some dominating branch is a plain Name test set True in the == branch
                flags = [cfg.ast[t].test.id for (t, v), bnode in cfg.branch.items() if v and cfg.dominates(bnode, sn) and isinstance(getattr(cfg.ast[t], "test", None), ast.Name)]
                set_true = {t.id for x in stmts_of(f) if isinstance(x, ast.Assign) and isinstance(x.value, ast.Constant) and x.value.value is True for t in x.targets if isinstance(t, ast.Name)}
                later = any(fl in set_true for fl in flags)
                if not later:
                    # the same by position: old_range.start >= removed_range.stop, the removed range read from the map itself
                    removed = {t.id for x in stmts_of(f) if isinstance(x, ast.Assign) and isinstance(x.value, (ast.Call, ast.Subscript)) and "__names_to_indices" in unparse(x.value) and ("pop(" in unparse(x.value) or isinstance(x.value, ast.Subscript)) for t in x.targets if isinstance(t, ast.Name)}
                    for (t, v), bnode in cfg.branch.items():
                        tst = getattr(cfg.ast[t], "test", None)
                        if v and cfg.dominates(bnode, sn) and isinstance(tst, ast.Compare) and len(tst.ops) == 1 and isinstance(tst.ops[0], (ast.GtE, ast.Gt)):
                            l_, r_ = tst.left, tst.comparators[0]
                            if isinstance(l_, ast.Attribute) and l_.attr == "start" and same(l_.value, a0.value) and isinstance(r_, ast.Attribute) and r_.attr == ("stop" if isinstance(tst.ops[0], ast.GtE) else "start") and dotted(r_.value) in removed:
                                later = True
                ctx.ob("2.5-later-only", con, later, "only variables located after the edited one may be shifted (guard by the 'name reached' flag)", node=s)
        if mname == "remove_variable":
            size_defs = [s for s in stmts_of(f) if isinstance(s, ast.Assign) and isinstance(amount, ast.Name) and any(isinstance(t, ast.Name) and t.id == amount.id for t in s.targets)]
            vals = [expand_accessor(ctx.index, ds, s.value) for s in size_defs]
            ok = bool(size_defs) and all(isinstance(v_, ast.Attribute) and v_.attr == "size" and isinstance(v_.value, ast.Subscript) and dotted(v_.value.value) == "self._variables" for v_ in vals)
            ctx.ob("2.5-amount", con, ok, "the amount removed must be the size of the removed variable", node=(size_defs or [dim[0]])[0])
    # add_variable: range(dimension, dimension + size) read before dimension += size
    f = ctx.index.method(DSF, "DesignSpace", "add_variable")
    con = cname(DSF, "DesignSpace", "add_variable")
    cfg = cfg_of(f)
    stores = [s for s in stmts_of(f) if isinstance(s, ast.Assign) and isinstance(s.targets[0], ast.Subscript) and isinstance(s.targets[0].value, ast.Attribute) and s.targets[0].value.attr in n2i]
    dim = [s for s in stmts_of(f) if isinstance(s, ast.AugAssign) and dotted(s.target) == "self.dimension"]
    ctx.need(len(stores) == 1 and len(dim) == 1, "add_variable: range store / dimension update not found")
    a = _range_args(stores[0].value)
    size_name = f.args.args[2].arg
    ok = a is not None and dotted(a[0]) == "self.dimension" and isinstance(a[1], ast.BinOp) and isinstance(a[1].op, ast.Add) and {dotted(a[1].left), dotted(a[1].right)} == {"self.dimension", size_name}
    ctx.ob("2.5-append", con, ok, "a new variable must get range(dimension, dimension + size)", node=stores[0])
    ok = isinstance(dim[0].op, ast.Add) and dotted(dim[0].value) == size_name
    ctx.ob("2.5-append", con, ok, "dimension must grow by the size of the new variable", node=dim[0])
    ok = not cfg.reachable(cfg.node_of(dim[0]), cfg.node_of(stores[0])) and cfg.reachable(cfg.node_of(stores[0]), cfg.node_of(dim[0]))
    ctx.ob("2.5-append", con, ok, "the new range must be computed from the dimension before it is incremented", node=stores[0], stmt="range computed before dimension += size")


# ---------------------------------------------------------------------------
# 2.6 str passed where a sequence of names is expected


def _ann_is_str(a: ast.AST | None) -> bool:
    return a is not None and unparse(a).strip() == "str"


def _ann_is_name_sequence_only(a: ast.AST | None) -> bool:
    if a is None:
        return False
    t = unparse(a)
    if "str" not in t:
        return False
    parts = [p.strip() for p in t.split("|")]
    if any(p == "str" for p in parts):
        return False
    return any(p.startswith(("Sequence[str", "Iterable[str", "Collection[str", "list[str")) for p in parts)


def check_str_args(ctx: Ctx, view: View) -> None:
    n = 0
    for key in sorted(view.methods):
        c, f = view.methods[key]
        str_params = {a.arg for a in [*f.args.args, *f.args.kwonlyargs] if _ann_is_str(a.annotation)}
        if not str_params:
            continue
        # parameters rebound in the body lose their annotation
        rebound = {t.id for s in stmts_of(f) if isinstance(s, ast.Assign) for t in s.targets if isinstance(t, ast.Name)}
        for call, tgt in view.self_call_nodes(key):
            if not isinstance(call, ast.Call):
                continue
            c2, f2 = view.methods[tgt]
            params = [a for a in f2.args.args if a.arg != "self"]
            for i, arg in enumerate(call.args):
                if i >= len(params) or not isinstance(arg, ast.Name) or arg.id not in str_params or arg.id in rebound:
                    continue
                n += 1
                bad = _ann_is_name_sequence_only(params[i].annotation)
                ctx.ob("2.6-str-seq", view.label(key), not bad, f"{key[1]} passes the str `{arg.id}` to {tgt[1]}({params[i].arg}: {unparse(params[i].annotation)}): the name is iterated character by character, so multi-character names are rejected as unknown variables", node=call)
    ctx.counts["2.6-sites"] = n


# ---------------------------------------------------------------------------
# 2.7 inverse operation sequences


def check_affine_ops(ctx: Ctx, view: View) -> None:
    ds = view.ds

    def attr_is(e, name):
        return isinstance(e, ast.Attribute) and e.attr in (name, mangle(ds.name, name)) and dotted(e.value) == "self"

    def resolve(f, e):
        """Follow one level of local alias ``x = self.attr``."""
        if isinstance(e, ast.Name):
            for s in stmts_of(f):
                if isinstance(s, ast.Assign) and any(isinstance(t, ast.Name) and t.id == e.id for t in s.targets):
                    return s.value
        return e

    def comp_ops(f):
        """In-place ops on ``out[..., norm_inds]`` and on ``out.data[mask]``."""
        dense, sparse = [], []
        for s in stmts_of(f):
            if isinstance(s, ast.AugAssign) and isinstance(s.target, ast.Subscript):
                tv = s.target.value
                if isinstance(tv, ast.Name):
                    dense.append(s)
                elif isinstance(tv, ast.Attribute) and tv.attr == "data":
                    sparse.append(s)
        return dense, sparse

    def base_of(f, e):
        """``self.X[...]`` / ``alias[...]`` -> canonical attribute X; strips subscripts."""
        while isinstance(e, ast.Subscript):
            e = e.value
        e = resolve(f, e)
        if isinstance(e, ast.Attribute) and dotted(e.value) == "self":
            return view.unmangle(ds, e.attr)
        return None

    def idx_is_norm_inds(f, sub: ast.Subscript):
        sl = sub.slice
        last = sl.elts[-1] if isinstance(sl, ast.Tuple) else sl
        r = resolve(f, last)
        return attr_is(r, "__norm_inds")

    for mname, first, second, factor in (
        ("normalize_vect", ast.Sub, ast.Mult, "_norm_factor_inv"),
        ("unnormalize_vect", ast.Mult, ast.Add, "_norm_factor"),
    ):
        f = ctx.index.method(DSF, "DesignSpace", mname)
        con = cname(DSF, "DesignSpace", mname)
        cfg = cfg_of(f)
        dense, sparse = comp_ops(f)
        shift_op = ast.Sub if mname == "normalize_vect" else ast.Add
        shifts = [s for s in dense if isinstance(s.op, shift_op)]
        scales = [s for s in dense if isinstance(s.op, ast.Mult)]
        others = [s for s in dense if s not in shifts and s not in scales and isinstance(s.target.value, ast.Name) and s.target.value.id == "out"]
        ctx.need(len(shifts) == 1 and len(scales) == 1, f"{mname}: expected one shift and one scale in-place operation on the dense path")
        sh, sc = shifts[0], scales[0]
        ctx.ob("2.7-ops", con, not others, f"{mname} applies an unexpected in-place operation to the vector", node=(others or [sh])[0], stmt="no other in-place operation")
        ctx.ob("2.7-shift", con, base_of(f, sh.value) == "__lower_bounds_array", f"{mname} must shift by the lower bounds", node=sh)
        ctx.ob("2.7-scale", con, base_of(f, sc.value) == factor, f"{mname} must scale by {factor}", node=sc)
        for s in (sh, sc):
            ok = idx_is_norm_inds(f, s.target) and isinstance(s.value, ast.Subscript) and idx_is_norm_inds(f, s.value)
            ctx.ob("2.7-components", con, ok, f"{mname} must act on exactly the normalised components (norm_inds) on both sides", node=s)
        # shift under ``if minus_lb``
        shn = cfg.node_of(sh)
        tests = [t for (t, v), b in cfg.branch.items() if v and cfg.dominates(b, shn) and dotted(getattr(cfg.ast[t], "test", None)) == "minus_lb"]
        ctx.ob("2.7-minus-lb", con, len(tests) == 1, f"{mname} must apply the lower-bound shift iff minus_lb", node=sh, stmt="shift under if minus_lb")
        scn = cfg.node_of(sc)
        cond_scale = [t for (t, v), b in cfg.branch.items() if cfg.dominates(b, scn) and "minus_lb" in names_in(getattr(cfg.ast[t], "test", ast.Pass()))]
        ctx.ob("2.7-minus-lb", con, not cond_scale, f"{mname}: the scaling must not depend on minus_lb", node=sc, stmt="scale independent of minus_lb")
        # order
        if mname == "normalize_vect":
            ok = cfg.reachable(shn, scn) and not cfg.reachable(scn, shn)
            ctx.ob("2.7-order", con, ok, "normalize_vect must subtract the lower bound before dividing by the range", node=sc, stmt="shift then scale")
        else:
            ok = cfg.reachable(scn, shn) and not cfg.reachable(shn, scn)
            ctx.ob("2.7-order", con, ok, "unnormalize_vect must multiply by the range before adding the lower bound", node=sh, stmt="scale then shift")
        # sparse branch uses the same factor
        ctx.need(sparse, f"{mname}: sparse branch not found")
        for s in sparse:
            ok = isinstance(s.op, ast.Mult) and base_of(f, s.value) == factor
            ctx.ob("2.7-sparse", con, ok, f"{mname}: sparse Jacobian columns must be scaled by {factor}", node=s)
        # guard at entry
    # the factors
    upd = ctx.index.method(DSF, "DesignSpace", UPDATE_NORM)
    con = cname(DSF, "DesignSpace", UPDATE_NORM)
    nf = rules.assigns_to_self(upd, "_norm_factor")
    ctx.need(len(nf) >= 1, "recomputation: _norm_factor assignment not found")
    if len(nf) > 1:
        # a second definition overrides `ub - lb`: the forward factor is then no longer the range
        ctx.ob("2.7-factor", con, False, f"_norm_factor is re-assigned (`{norm_stmt(nf[-1], 70)}`): the factor used by the affine maps must be upper bounds - lower bounds (only its INVERSE may avoid the division by zero for equal bounds)", node=nf[-1], stmt="_norm_factor defined once")
    from gv.props.shared import unfolded as _unf

    cfg_u = cfg_of(upd)

    def bound_source(e: ast.AST, attr: str, src: str, at: ast.AST) -> bool:
        """``e`` (read at statement ``at``) is ``self.<src>()``, directly, through locals, or through the attribute
        ``attr`` when its (single) assignment from ``self.<src>()`` comes before."""
        alts = _unf(upd, e)
        if not alts:
            return False
        for x in alts:
            if isinstance(x, ast.Call) and last_attr(x) == src and isinstance(x.func, ast.Attribute) and dotted(x.func.value) == "self" and not x.args and not x.keywords:
                continue
            if attr_is(x, attr):
                a_ = rules.assigns_to_self(upd, attr, ds.name)
                if len(a_) == 1 and cfg_u.dominates(cfg_u.node_of(a_[0]), cfg_u.node_of(at)) and bound_source(a_[0].value, "\0", src, a_[0]):
                    continue
            return False
        return True

    v = nf[0].value
    ok = isinstance(v, ast.BinOp) and isinstance(v.op, ast.Sub) and bound_source(v.left, "__upper_bounds_array", "get_upper_bounds", nf[0]) and bound_source(v.right, "__lower_bounds_array", "get_lower_bounds", nf[0])
    ctx.ob("2.7-factor", con, ok, "_norm_factor must be upper bounds - lower bounds", node=nf[0])
    ni = rules.assigns_to_self(upd, "_norm_factor_inv")
    ctx.need(len(ni) == 1, "recomputation: _norm_factor_inv assignment not found")
    v = ni[0].value
    ok = isinstance(v, ast.BinOp) and isinstance(v.op, ast.Div) and const_value(v.left) in (1, 1.0) and isinstance(v.right, ast.Call) and last_attr(v.right) == "where" and len(v.right.args) == 3
    if ok:
        mask, one, fac = v.right.args
        mask = resolve(upd, mask)
        ok = const_value(one) in (1, 1.0) and attr_is(fac, "_norm_factor") and isinstance(mask, ast.Compare) and attr_is(mask.left, "_norm_factor") and isinstance(mask.ops[0], ast.Eq) and const_value(mask.comparators[0], 1) in (0, 0.0)
    ctx.ob("2.7-factor", con, ok, "_norm_factor_inv must be 1 / where(factor == 0, 1, factor): a component with equal bounds is inert", node=ni[0])
    for attr, src in (("__lower_bounds_array", "get_lower_bounds"), ("__upper_bounds_array", "get_upper_bounds")):
        a = rules.assigns_to_self(upd, attr, ds.name)
        ok = len(a) == 1 and bound_source(a[0].value, "\0", src, a[0])
        ctx.ob("2.7-factor", con, ok, f"{attr} must be self.{src}()", node=(a or [upd])[0], stmt=f"{attr} = {src}()")
    a = rules.assigns_to_self(upd, "__norm_inds", ds.name)
    ok = len(a) == 1 and "normalize" in unparse(a[0].value) and "nonzero" in unparse(a[0].value) and "convert_dict_to_array" in unparse(a[0].value)
    ctx.ob("2.7-factor", con, ok, "__norm_inds must be the non-zero components of the policy array", node=(a or [upd])[0], stmt="__norm_inds = policy.nonzero()")
    # rounding
    f = ctx.index.method(DSF, "DesignSpace", "unnormalize_vect")
    con = cname(DSF, "DesignSpace", "unnormalize_vect")
    cfg = cfg_of(f)
    rc = rules.self_calls(f, "round_vect")
    ctx.need(len(rc) == 1, "unnormalize_vect: round_vect call not found")
    rn = cfg.node_of(rc[0])
    from gv.props.shared import literal_facts

    facts = literal_facts(cfg, rn)
    ok = facts.get("self.__no_integer") is False and facts.get("minus_lb") is True and set(facts) <= {"self.__no_integer", "minus_lb"}
    ctx.ob("2.7-round", con, ok, f"unnormalize_vect must round the integer components of a POINT (minus_lb true) iff the space has integer variables; with minus_lb false the vector is a gradient (normalize_grad) and rounding it destroys the derivative w.r.t. integer variables (rounding happens under {facts})", node=rc[0], stmt="round iff (integers and minus_lb)")
    shn = [cfg.node_of(s) for s in comp_ops(f)[0]]
    ok = all(cfg.reachable(s, rn) and not cfg.reachable(rn, s) for s in shn)
    ctx.ob("2.7-round", con, ok, "rounding must come after the affine map", node=rc[0], stmt="round after scale/shift")
    ok = bool(rc[0].args) and dotted(rc[0].args[0]) == "out"
    ctx.ob("2.7-round", con, ok, "the unnormalised vector itself must be rounded", node=rc[0], stmt="round_vect(out)")
    f = ctx.index.method(DSF, "DesignSpace", "round_vect")
    con = cname(DSF, "DesignSpace", "round_vect")
    st = [s for s in stmts_of(f) if isinstance(s, ast.Assign) and isinstance(s.targets[0], ast.Subscript) and isinstance(s.value, ast.Call) and last_attr(s.value) in ("np_round", "round", "rint", "around")]
    ctx.need(len(st) == 1, "round_vect: rounding assignment not found")
    tgt_idx = st[0].targets[0].slice
    src = st[0].value.args[0]
    li = tgt_idx.elts[-1] if isinstance(tgt_idx, ast.Tuple) else tgt_idx
    ok = isinstance(src, ast.Subscript) and same(src.slice, tgt_idx) and attr_is(resolve(f, li), "__integer_components")
    ctx.ob("2.7-round", con, ok, "round_vect must round exactly the integer components (same index on both sides)", node=st[0])
    ic = rules.assigns_to_self(upd, "__integer_components", ds.name)
    txt = unparse(ic[0].value) if ic else ""
    ok = len(ic) == 1 and "_variables.values()" in txt and "variable.size" in txt and "variable.type" in txt
    ctx.ob("2.7-round", cname(DSF, "DesignSpace", UPDATE_NORM), ok, "__integer_components must repeat each variable's integer flag size times, in variable order", node=(ic or [upd])[0], stmt="__integer_components")


# ---------------------------------------------------------------------------
# 2.9 conversions


def check_conversions(ctx: Ctx, view: View) -> None:
    f = ctx.index.method(DSF, "DesignSpace", "convert_array_to_dict")
    con = cname(DSF, "DesignSpace", "convert_array_to_dict")
    calls = rules.calls_named(f, "split_array_to_dict_of_arrays")
    ok = len(calls) == 1 and len(calls[0].args) == 3 and dotted(calls[0].args[1]) == "self.variable_sizes" and dotted(calls[0].args[2]) in ("self", "self._variables", "self.variable_names")
    ctx.ob("2.9-order", con, ok, "array -> dict conversion must split with the sizes and the order of the space's own variables", node=(calls or [f])[0])
    f = ctx.index.method(DSF, "DesignSpace", "convert_dict_to_array")
    con = cname(DSF, "DesignSpace", "convert_dict_to_array")
    dflt = [s for s in stmts_of(f) if isinstance(s, ast.Assign) and dotted(s.targets[0]) == "variable_names"]
    ok = len(dflt) == 1 and dotted(dflt[0].value) in ("self", "self._variables", "self.variable_names")
    ctx.ob("2.9-order", con, ok, "dict -> array conversion must default to the space's own variable order", node=(dflt or [f])[0])
    from gv.cursor import check_cursor_loops

    g = ctx.index.func("utils/data_conversion.py", "split_array_to_dict_of_arrays")
    check_cursor_loops(ctx, "2.9-cursor", cname("utils/data_conversion.py", None, "split_array_to_dict_of_arrays"), g, min_loops=1)


def check_inputs_untouched(ctx: Ctx) -> None:
    """2.9: the maps never write into the vector they are given (they work on a copy or on `out`)."""
    from gv.purity import impure_writes

    ds = ctx.index.cls(DSF, "DesignSpace")
    for m in ("normalize_vect", "unnormalize_vect", "transform_vect", "untransform_vect", "normalize_grad", "unnormalize_grad", "project_into_bounds"):
        for cls in [ds, *ctx.index.subclasses(ds)]:
            f = cls.methods.get(m)
            if f is None:
                continue
            p0 = [a.arg for a in f.args.args if a.arg != "self"][0]
            res, sites = impure_writes(f, {p0})
            con = cname(cls.module.relpath, cls.qualname, m)
            for node, p_, what in res:
                ctx.ob("2.9-input-untouched", con, False, f"{m}: {what}: the caller's vector is modified (and an `out` array, if any, is not filled)", node=node, stmt=f"{norm_stmt(node, 70)} [{p_}]")
            if not res:
                ctx.ob("2.9-input-untouched", con, True, "", node=f, stmt=f"{sites} in-place site(s) examined, none reaches {p0}")
    # round_vect(copy=True) works on a copy
    from gv.shapes import specialise

    f = ds.methods["round_vect"]
    g = specialise(f, {"copy": True})
    res, sites = impure_writes(g, {[a.arg for a in f.args.args if a.arg != "self"][0]})
    ctx.ob("2.9-input-untouched", cname(DSF, "DesignSpace", "round_vect"), not res and sites >= 1, "round_vect(copy=True) must round a copy of the vector" + (f": {res[0][2]}" if res else ""), node=(res[0][0] if res else f), stmt="with copy=True no write reaches the input")
    ctx.floor("2.9-input-untouched", 7)


def check_view_selection(ctx: Ctx) -> None:
    """The vector view (cached arrays) is returned only for all the variables, as an array, while the cache is valid."""
    from gv.cfg import cfg_of
    from gv.props.shared import literal_facts

    f = ctx.index.method(DSF, "DesignSpace", "__get_values")
    con = cname(DSF, "DesignSpace", "__get_values")
    cfg = cfg_of(f)
    n = 0
    for r in [s_ for s_ in stmts_of(f) if isinstance(s_, ast.Return) and isinstance(s_.value, ast.Name)]:
        facts = literal_facts(cfg, cfg.node_of(r))
        if r.value.id == "value_as_array":
            n += 1
            ok = facts.get("self.__norm_data_is_computed") is True and facts.get("variable_names") is False and facts.get("as_dict") is False
            ctx.ob("2.3-view", con, ok, f"the cached vector of ALL the variables is returned under {facts}: it is the answer only when the cache is valid, no variable subset is requested and an array is wanted; otherwise the vector view and the per-variable view disagree", node=r, stmt="cached array only for (cache valid, all variables, array)")
        elif r.value.id == "value_as_dict":
            n += 1
            ok = facts.get("variable_names") is False and facts.get("as_dict") is True
            ctx.ob("2.3-view", con, ok, f"the dictionary of all the variables is returned under {facts}: it answers only the request for all variables as a dictionary", node=r, stmt="whole dictionary only for (all variables, dict)")
    for c in [c_ for c_ in walk_body(f) if isinstance(c_, ast.Call) and last_attr(c_) == "convert_dict_to_array"]:
        n += 1
        kw = kwarg(c, "variable_names")
        ok = dotted(c.args[0]) == "value_as_dict" and (dotted(kw) == "variable_names" or (len(c.args) > 1 and dotted(c.args[1]) == "variable_names"))
        ctx.ob("2.3-view", con, ok, "a subset (or the uncached case) is assembled from the per-variable values of exactly the requested names", node=c)
    ctx.need(n >= 3, "__get_values: the three return forms were not found")
    # the callers hand over the per-variable dictionary and the cached array of the same quantity
    for m, d, a in (("get_lower_bounds", "_lower_bounds", "__lower_bounds_array"), ("get_upper_bounds", "_upper_bounds", "__upper_bounds_array")):
        g = ctx.index.cls(DSF, "DesignSpace").methods.get(m)
        if g is None:
            continue
        calls = rules.self_calls(g, "__get_values")
        if calls:
            txt = norm_stmt(calls[0])
            low = "lower" in m
            ok = ("lower" in txt) == low and ("upper" in txt) == (not low)
            ctx.ob("2.3-view", cname(DSF, "DesignSpace", m), ok, f"{m} must combine the per-variable and the cached values of the same bound", node=calls[0])


def run(ctx: Ctx) -> None:
    ds = ctx.index.cls(DSF, "DesignSpace")
    check_view_selection(ctx)
    check_inputs_untouched(ctx)
    view = View(ctx, ds)
    check_coupdate(ctx, view)
    check_protocols(ctx, view)
    check_refresh_before_validation(ctx, view)
    check_norm_cache(ctx, view)
    check_index_shift(ctx, view)
    check_str_args(ctx, view)
    check_affine_ops(ctx, view)
    rules.rule_forwarding(ctx, "2.8-forwarding", ds, ["normalize_vect", "unnormalize_vect", "transform_vect", "untransform_vect", "round_vect", "normalize_grad", "unnormalize_grad"], "a subclass must keep the affine map of the deterministic case")
    check_conversions(ctx, view)
    rules.rule_passthrough_names(ctx, "2.8-passthrough", ds, "the options of the (un)normalisation keep their meaning from one method to the next")
    ctx.floor("2.8-passthrough", 10)
    # the sibling class: a ParameterSpace is a design space whose random variables have a second set of views (the
    # list of uncertain variables, their definitions, their marginals); an edit keeps them in one order too, and the
    # probabilistic (un)normalisation splits / concatenates in the order of the variables (rule groups 19.6, 19.2 of C19)
    from gv.props import c19
    from gv.props.c12 import _Prefixed

    c19.check_space(_Prefixed(ctx, "2.10-parameter-space/"))
    c19.check_transform_pair(_Prefixed(ctx, "2.10-parameter-space/"))
    ctx.floor("2.1-store", 6)
    ctx.floor("2.1-delete", 5)
    ctx.floor("2.2-invalidate", 7)
    ctx.floor("2.4-refresh", 7)
    ctx.floor("2.3-guard", 15)
    ctx.floor("2.5-shift", 5)
    ctx.floor("2.7-components", 4)
    ctx.floor("2.8-forwarding", 2)
    if ctx.counts.get("2.3-readers", 0) < 6:
        raise AnalysisError("fewer than 6 reader methods of the normalisation cache were recognised")


# ---------------------------------------------------------------------------
WITNESSES = [
    {"name": "normalised-current-value-survives-the-refresh", "file": DSF, "old": "        # The normalized current value depends on the bounds: it is recomputed on demand.\n        self.__norm_current_value = {}\n        self.__norm_current_value_array = array([])\n", "new": "", "expect": "2.3"},
    {"name": "seeded-C02-12", "file": "algos/parameter_space.py", "old": "        if current_name in self.uncertain_variables:\n            position = self.uncertain_variables.index(current_name)\n            self.uncertain_variables[position] = new_name\n            dict_ = self.__uncertain_variables_to_definitions\n", "new": "        if current_name in self.uncertain_variables:\n            self.uncertain_variables.remove(current_name)\n            self.uncertain_variables.append(new_name)\n            dict_ = self.__uncertain_variables_to_definitions\n", "expect": "2.10", "note": "ParameterSpace.rename_variable moves the renamed random variable to the end of u"},
    {"name": "seeded-C02-11", "file": "algos/design_space.py", "old": "\n        self.__update_current_metadata()\n        if self.__current_value:\n            self._check_current_names()\n\n", "new": "\n        if self.__current_value:\n            self._check_current_names()\n\n        # Refresh the cached data once the new value has been validated.\n        self.__update_current_metadata()\n\n", "expect": "2.4", "note": "set_current_value refreshes the cached current-value arrays only after the valid"},
    {"name": "value-check-outside-the-rollback", "file": DSF, "old": "            try:\n                array_value = atleast_1d(value)\n                self._check_value(array_value, name)\n", "new": "            array_value = atleast_1d(value)\n            self._check_value(array_value, name)\n            try:\n", "expect": "2.4"},
    {"name": "current-value-validated-before-refresh", "file": DSF, "old": "        self.__update_current_metadata()\n        if self.__current_value:\n            self._check_current_names()", "new": "        if self.__current_value:\n            self._check_current_names()\n        self.__update_current_metadata()", "expect": "2.4"},
    {"name": "seeded-C02-9", "file": "algos/design_space.py", "old": "        \"\"\"\n        return self.unnormalize_vect(vector, no_check=no_check, out=out)\n\n", "new": "        \"\"\"\n        return self.unnormalize_vect(vector, no_check, out=out)\n\n", "expect": "2.8", "note": "untransform_vect passes no_check positionally, so it lands on minus_lb"},
    {"name": "gradient-rounded-like-a-point", "file": DSF, "old": "        if minus_lb and not self.__no_integer:\n            self.round_vect(out, copy=False)", "new": "        if not self.__no_integer:\n            self.round_vect(out, copy=False)", "expect": "2.7"},
    {"name": "out-buffer-rebound-to-the-input", "file": DSF, "old": "        else:\n            out[...] = x_vect\n\n        # Unnormalize the relevant components:", "new": "        else:\n            out *= 0\n            out = x_vect\n\n        # Unnormalize the relevant components:", "expect": "2.9"},
    {"name": "normalize-in-place-on-the-input", "file": DSF, "old": "        if out is None:\n            out = x_vect.copy()\n        else:\n            out[...] = x_vect\n\n        # Normalize the relevant components:", "new": "        out = x_vect\n\n        # Normalize the relevant components:", "expect": "2.9"},
    {"name": "cached-vector-for-a-subset", "file": DSF, "old": "        if self.__norm_data_is_computed and not variable_names and not as_dict:", "new": "        if self.__norm_data_is_computed and not as_dict:", "expect": "2.3"},
    {"name": "cached-vector-without-validity", "file": DSF, "old": "        if self.__norm_data_is_computed and not variable_names and not as_dict:", "new": "        if not variable_names and not as_dict:", "expect": "2.3"},
    {"name": "whole-dictionary-for-a-subset", "file": DSF, "old": "        if not variable_names:\n            return value_as_dict\n\n        return {name: value_as_dict[name] for name in variable_names}", "new": "        return value_as_dict", "expect": "2.3"},
    {"name": "remove_variable-no-invalidate", "file": DSF, "old": "        self.__norm_data_is_computed = False\n        size = self._variables[name].size", "new": "        size = self._variables[name].size", "expect": "2.2"},
    {"name": "set_upper_bound-no-invalidate", "file": DSF, "old": "        self._variables[name].upper_bound = upper_bound\n        self._add_norm_policy(name)\n        self.__norm_data_is_computed = False", "new": "        self._variables[name].upper_bound = upper_bound\n        self._add_norm_policy(name)", "expect": "2.2"},
    {"name": "set_lower_bound-no-policy", "file": DSF, "old": "        self._variables[name].lower_bound = lower_bound\n        self._add_norm_policy(name)\n", "new": "        self._variables[name].lower_bound = lower_bound\n", "expect": "2.1"},
    {"name": "integer-normalization-setter-no-invalidate", "file": DSF, "old": "                    self._add_norm_policy(name)\n\n            self.__norm_data_is_computed = False", "new": "                    self._add_norm_policy(name)", "expect": "2.2"},
    {"name": "add_variable-conditional-invalidate", "file": DSF, "old": "        self._check_variable_name(name)\n        self.__norm_data_is_computed = False", "new": "        self._check_variable_name(name)\n        if value is not None:\n            self.__norm_data_is_computed = False", "expect": "2.2"},
    {"name": "rename-no-invalidate", "file": DSF, "old": "        # the order of the variables defines the layout of the design vector.\n        self.__norm_data_is_computed = False\n", "new": "        # the order of the variables defines the layout of the design vector.\n", "expect": "2.2"},
    {"name": "rename-no-refresh", "file": DSF, "old": "            dictionary.update(items)\n\n        self.__update_current_metadata()", "new": "            dictionary.update(items)\n", "expect": "2.4"},
    {"name": "rename-pop-idiom", "file": DSF, "old": "            items = [\n                (new_name if name == current_name else name, value)\n                for name, value in dictionary.items()\n            ]\n            dictionary.clear()\n            dictionary.update(items)", "new": "            dictionary[new_name] = dictionary.pop(current_name)", "expect": "2.1"},
    {"name": "rename-lazy-generator", "file": DSF, "old": "            items = [\n                (new_name if name == current_name else name, value)\n                for name, value in dictionary.items()\n            ]", "new": "            items = (\n                (new_name if name == current_name else name, value)\n                for name, value in dictionary.items()\n            )", "expect": "2.1"},
    {"name": "rename-skips-names_to_indices", "file": DSF, "old": "            self._variables,\n            self.__names_to_indices,\n            self.__current_value,\n        ]:", "new": "            self._variables,\n            self.__current_value,\n        ]:", "expect": "2.1"},
    {"name": "set_current_variable-no-refresh", "file": DSF, "old": "        self.__current_value[name] = current_value\n        self.__update_current_metadata()", "new": "        self.__current_value[name] = current_value", "expect": "2.4"},
    {"name": "set_current_value-refresh-before-cast", "file": DSF, "old": "                self.__current_value[name] = value\n\n        self.__update_current_metadata()\n        if self.__current_value:", "new": "                self.__current_value[name] = value\n\n        if self.__current_value:", "expect": "2.4"},
    {"name": "remove_variable-keeps-policy", "file": DSF, "old": "        del self.normalize[name]\n\n        if name in self.__current_value:", "new": "        if name in self.__current_value:", "expect": "2.1"},
    {"name": "remove_variable-keeps-value", "file": DSF, "old": "        if name in self.__current_value:\n            del self.__current_value[name]\n\n        del self._variables[name]", "new": "        del self._variables[name]", "expect": "2.1"},
    {"name": "filter_dimensions-no-policy", "file": DSF, "old": "        self._add_norm_policy(name)\n        if name in self.__current_value:\n            self.set_current_variable(", "new": "        if name in self.__current_value:\n            self.set_current_variable(", "expect": "2.1"},
    {"name": "filter_dimensions-str-arg", "file": DSF, "old": "name, self.get_current_value([name])[dimensions]", "new": "name, self.get_current_value(name)[dimensions]", "expect": "2.6"},
    {"name": "check_membership-lazy-cache", "file": DSF, "old": "                if not self.__norm_data_is_computed:\n                    self.__update_normalization_vars()\n\n                self.__check_membership_x_vect(x_vect)", "new": "                if self.__lower_bounds_array is None:\n                    self.__lower_bounds_array = self.get_lower_bounds()\n                    self.__upper_bounds_array = self.get_upper_bounds()\n\n                self.__check_membership_x_vect(x_vect)", "expect": "2.3"},
    {"name": "round_vect-no-guard", "file": DSF, "old": "        if not self.__norm_data_is_computed:\n            self.__update_normalization_vars()\n\n        if self.__no_integer:\n            return x_vect", "new": "        if self.__no_integer:\n            return x_vect", "expect": "2.3"},
    {"name": "project_into_bounds-no-guard", "file": DSF, "old": "        if not self.__norm_data_is_computed:\n            self.__update_normalization_vars()\n        if not normalized:", "new": "        if not normalized:", "expect": "2.3"},
    {"name": "get_values-ignores-flag", "file": DSF, "old": "        if self.__norm_data_is_computed and not variable_names and not as_dict:", "new": "        if not variable_names and not as_dict:", "expect": "2.3"},
    {"name": "shift-by-size-minus-one", "file": DSF, "old": "                    indices.start - size,\n                    indices.stop - size,", "new": "                    indices.start - size,\n                    indices.stop - size + 1,", "expect": "2.5"},
    {"name": "shift-only-start", "file": DSF, "old": "                    indices.start - n_removed,\n                    indices.stop - n_removed,", "new": "                    indices.start - n_removed,\n                    indices.stop,", "expect": "2.5"},
    {"name": "own-range-shifted", "file": DSF, "old": "                    indices.start,\n                    indices.stop - n_removed,", "new": "                    indices.start - n_removed,\n                    indices.stop - n_removed,", "expect": "2.5"},
    {"name": "dimension-read-after-increment", "file": DSF, "old": "        self.__names_to_indices[name] = range(self.dimension, self.dimension + size)\n        self.dimension += size\n", "new": "        self.dimension += size\n        self.__names_to_indices[name] = range(self.dimension, self.dimension + size)\n", "expect": "2.5"},
    {"name": "normalize-swap-ops", "file": DSF, "old": "        if minus_lb:\n            out[..., norm_inds] -= self.__lower_bounds_array[norm_inds]\n\n        if isinstance(out, sparse_classes):\n            # Construct a mask to only scale the required columns\n            column_mask = isin(out.indices, norm_inds)\n            # Scale the corresponding coefficients\n            out.data[column_mask] *= self._norm_factor_inv[out.indices][column_mask]\n        else:\n            out[..., norm_inds] *= self._norm_factor_inv[norm_inds]\n", "new": "        if isinstance(out, sparse_classes):\n            # Construct a mask to only scale the required columns\n            column_mask = isin(out.indices, norm_inds)\n            # Scale the corresponding coefficients\n            out.data[column_mask] *= self._norm_factor_inv[out.indices][column_mask]\n        else:\n            out[..., norm_inds] *= self._norm_factor_inv[norm_inds]\n\n        if minus_lb:\n            out[..., norm_inds] -= self.__lower_bounds_array[norm_inds]\n", "expect": "2.7"},
    {"name": "normalize-uses-factor", "file": DSF, "old": "            out[..., norm_inds] *= self._norm_factor_inv[norm_inds]", "new": "            out[..., norm_inds] *= self._norm_factor[norm_inds]", "expect": "2.7"},
    {"name": "unnormalize-sparse-uses-inverse", "file": DSF, "old": "out.data[column_mask] *= self._norm_factor[out.indices][column_mask]", "new": "out.data[column_mask] *= self._norm_factor_inv[out.indices][column_mask]", "expect": "2.7"},
    {"name": "unnormalize-shift-unconditional", "file": DSF, "old": "        if minus_lb:\n            out[..., norm_inds] += lower_bounds[norm_inds]", "new": "        out[..., norm_inds] += lower_bounds[norm_inds]", "expect": "2.7"},
    {"name": "unnormalize-all-components", "file": DSF, "old": "            out[..., norm_inds] *= self._norm_factor[norm_inds]", "new": "            out[...] *= self._norm_factor", "expect": "2.7"},
    {"name": "no-zero-range-guard", "file": DSF, "old": "self._norm_factor_inv = 1.0 / where(norm_factor_is_zero, 1, self._norm_factor)", "new": "self._norm_factor_inv = 1.0 / self._norm_factor", "expect": "2.7"},
    {"name": "factor-reversed", "file": DSF, "old": "self._norm_factor = self.__upper_bounds_array - self.__lower_bounds_array", "new": "self._norm_factor = self.__lower_bounds_array - self.__upper_bounds_array", "expect": "2.7"},
    {"name": "no-rounding", "file": DSF, "old": "        if not self.__no_integer:\n            self.round_vect(out, copy=False)", "new": "        if self.__no_integer:\n            self.round_vect(out, copy=False)", "expect": "2.7"},
    {"name": "round-other-components", "file": DSF, "old": "rounded_x_vect[..., are_integers] = np_round(x_vect[..., are_integers])", "new": "rounded_x_vect[..., are_integers] = np_round(x_vect[..., ~are_integers])", "expect": "2.7"},
    {"name": "parameter-space-drops-minus_lb", "file": "algos/parameter_space.py", "old": "x_vect, minus_lb=minus_lb, no_check=no_check, out=out", "new": "x_vect, no_check=no_check, out=out", "expect": "2.8"},
    {"name": "split-cursor-not-advanced-by-own-size", "file": "utils/data_conversion.py", "old": "        first_index += size\n\n    return result", "new": "        first_index += 1\n\n    return result", "expect": "2.9"},
    {"name": "split-cursor-advanced-before-use", "file": "utils/data_conversion.py", "old": "        size = names_to_sizes[name]\n        indices = [slice(None)] * array.ndim", "new": "        size = names_to_sizes[name]\n        first_index += size\n        indices = [slice(None)] * array.ndim", "expect": "2.9"},
    {"name": "convert_array_to_dict-other-order", "file": DSF, "old": "return split_array_to_dict_of_arrays(x_array, self.variable_sizes, self)", "new": "return split_array_to_dict_of_arrays(x_array, self.variable_sizes, sorted(self))", "expect": "2.9"},
    {"name": "subclass-writes-variables", "file": "algos/parameter_space.py", "old": "    def rename_variable(  # noqa:D102\n        self,\n        current_name: str,\n        new_name: str,\n    ) -> None:\n        super().rename_variable(current_name, new_name)", "new": "    def rename_variable(  # noqa:D102\n        self,\n        current_name: str,\n        new_name: str,\n    ) -> None:\n        self._variables[new_name] = self._variables.pop(current_name)", "expect": "2."},
]
TWINS = [
    {"name": "invalidate-after-edit", "file": DSF, "old": "        self._check_variable_name(name)\n        self.__norm_data_is_computed = False\n        self._variables[name] = Variable(\n            size=size,\n            type=type_,\n            lower_bound=lower_bound,\n            upper_bound=upper_bound,\n        )\n", "new": "        self._check_variable_name(name)\n        self._variables[name] = Variable(\n            size=size,\n            type=type_,\n            lower_bound=lower_bound,\n            upper_bound=upper_bound,\n        )\n        self.__norm_data_is_computed = False\n"},
    {"name": "rename-loop-variable", "file": DSF, "old": "        for variable_name in self:\n            if variable_name == name:\n                variable_is_reached = True\n            elif variable_is_reached:\n                indices = self.__names_to_indices[variable_name]\n                # N.B. the steps of the ranges of indices are assumed equal to 1\n                self.__names_to_indices[variable_name] = range(", "new": "        for other in self:\n            if other == name:\n                variable_is_reached = True\n            elif variable_is_reached:\n                indices = self.__names_to_indices[other]\n                # N.B. the steps of the ranges of indices are assumed equal to 1\n                self.__names_to_indices[other] = range("},
    {"name": "refresh-through-public-method", "file": DSF, "old": "        self.__check_known_variable(name)\n        self.__current_value[name] = current_value\n        self.__update_current_metadata()", "new": "        self.__check_known_variable(name)\n        self.__current_value[name] = current_value\n        self.__update_current_metadata()\n        self.__check_known_variable(name)"},
    {"name": "guard-mirrored-order", "file": "utils/data_conversion.py", "old": "indices[dimension] = slice(first_index, first_index + size)", "new": "indices[dimension] = slice(first_index, first_index + size, None)"},
]
