"""C05 -- discipline caches are transparent."""

from __future__ import annotations

import ast

from gv import rules
from gv.astutil import const_value
from gv.astutil import dotted
from gv.astutil import last_attr
from gv.astutil import mangle
from gv.astutil import names_in
from gv.astutil import norm_stmt
from gv.astutil import param_names
from gv.astutil import stmts_of
from gv.astutil import walk_body
from gv.cfg import cfg_of
from gv.props.shared import unfolded
from gv.effects import local_aliases
from gv.props import describe
from gv.props.shared import branch_conditions
from gv.props.shared import conj_literals
from gv.props.shared import lock_discipline
from gv.report import Ctx
from gv.report import cname

BD = "core/discipline/base_discipline.py"
DI = "core/discipline/discipline.py"
SCF = "caches/simple_cache.py"
BFC = "caches/base_full_cache.py"
MFC = "caches/memory_full_cache.py"
HFC = "caches/hdf5_cache.py"
HFS = "caches/_hdf5_file_singleton.py"

describe(
    "C05",
    explanation=(
        "Structure of the cache protocol decided statically: BaseDiscipline.execute looks the inputs up before "
        "running, returns on a hit without running, keeps a pristine copy of the inputs taken before the run and "
        "stores with it after the run on every normal path; every cache class deep-copies what flows from "
        "caller arrays into persistent storage; a SimpleCache entry never mixes data of two inputs; a hash match "
        "is always confirmed by comparing the inputs of the same index; the Jacobian validity flag is reset per "
        "execution and the held Jacobian is returned only under it; shared cache state is touched under the "
        "lock only; a reopened HDF5 cache rebuilds its index from the file."
    ),
    decided=["5.1 lookup/run/store ordering", "5.2 stored values are deep copies", "5.3 entry consistency", "5.4 hash match confirmed", "5.5 Jacobian flag", "5.6 lock discipline", "5.7 HDF5 index rebuilt", "5.8 HDF5 cache tables read back as written (rule group of C11)", "5.9 a hit does not edit the stored entry", "5.10 last-accessed index designates the located entry", "5.12 hash bucket grows", "5.13 tolerance setter always runs the post-set hook", "5.14 a hit loads the caller's inputs"],
    not_decided=["numerical tolerance semantics of compare_dict_of_arrays", "hash collision probability"],
)

DEEP_COPIES = {"deepcopy_dict_of_arrays", "deepcopy"}
# declared alias (one symbol, one reason)
ALIAS_OK: dict = {}  # (an earlier exemption for SimpleCache.__jacobian defended a defect: F32)


def _guarded_leaves(e: ast.AST, lits: list | None = None):
    """(arm, [(polarity, literal), ...]) for the arms of (nested) conditional expressions: the conditions that hold
    when the arm is the value.  An expression that is not conditional is its own single arm."""
    lits = list(lits or [])
    if isinstance(e, ast.IfExp):
        cl = conj_literals(e.test)
        yield from _guarded_leaves(e.body, lits + cl)
        yield from _guarded_leaves(e.orelse, lits + ([(not cl[0][0], cl[0][1])] if len(cl) == 1 else []))
    else:
        yield e, lits


def check_execute(ctx: Ctx) -> None:
    f = ctx.index.method(BD, "BaseDiscipline", "execute")
    con = cname(BD, "BaseDiscipline", "execute")
    cfg = cfg_of(f)
    run = rules.self_calls(f, "_execute_monitored")
    ctx.need(len(run) == 1, "BaseDiscipline.execute: _execute_monitored call not found")
    rn = cfg.node_of(run[0])

    def lit_text(e) -> str:
        """Text of a condition; a flag kept in a local (`has_cache = self.cache is not None`) stands for its definition."""
        if isinstance(e, ast.Name) and cfg.has(e):
            alts = unfolded(f, e)
            if alts and len(alts) == 1:
                return norm_stmt(alts[0])
        return norm_stmt(e)

    def cache_side(n, exact=False) -> bool | None:
        """The outcome of test ``n`` on which there IS a cache (None: not a test of the cache)."""
        if cfg.kind[n] != "test":
            return None
        lits = conj_literals(cfg.ast[n].test)
        if exact and len(lits) != 1:
            return None
        for p, e in lits:
            txt = lit_text(e)
            if txt in ("self.cache is not None", "self.cache"):
                if p:
                    return True
                return False if len(lits) == 1 else None
            if txt == "self.cache is None":
                if not p:
                    return True
                return False if len(lits) == 1 else None
        return None

    def is_cache_test(n, exact=False) -> bool:
        return cache_side(n, exact) is not None

    cache_false = {cfg.branch[(n, not cache_side(n, True))] for n in cfg.nodes(lambda n: is_cache_test(n, exact=True)) if (n, not cache_side(n, True)) in cfg.branch}
    look = rules.self_calls(f, "__can_load_cache", "BaseDiscipline")
    ok = len(look) == 1 and cfg.kind[cfg.node_of(look[0])] == "test"
    ctx.ob("5.1-lookup-first", con, ok, "with a cache, the inputs must be looked up (self.__can_load_cache) before the discipline runs", node=(look or [f])[0], stmt="cache lookup present")
    if ok:
        ln = cfg.node_of(look[0])
        ok = cfg.dominates(ln, rn) or cfg.must_pass(cfg.entry, {ln} | cache_false, rn)
        nested = any(cfg.under_branch(ln, n, cache_side(n)) for n in cfg.nodes(is_cache_test))
        if not nested and cfg.kind[ln] == "test":
            # `if self.cache is not None and self.__can_load_cache(x):` -- the conjunction short-circuits
            lits_ = conj_literals(cfg.ast[ln].test)
            pos = [i for i, (p_, e_) in enumerate(lits_) if (p_ and lit_text(e_) in ("self.cache is not None", "self.cache")) or (not p_ and lit_text(e_) == "self.cache is None")]
            at = [i for i, (p_, e_) in enumerate(lits_) if any(sub is look[0] for sub in ast.walk(e_))]
            nested = bool(pos) and bool(at) and min(pos) < min(at) and isinstance(cfg.ast[ln].test, ast.BoolOp) and isinstance(cfg.ast[ln].test.op, ast.And)
        ok = ok and not cfg.reachable(rn, ln) and nested
        ctx.ob("5.1-lookup-first", con, ok, "a path with a cache reaches the run without having looked the inputs up", node=look[0], stmt="every cached path passes the lookup before the run")
        hit = cfg.branch[(ln, True)]
        ok = not cfg.reachable(hit, rn) and cfg.reachable(hit, cfg.exit)
        ctx.ob("5.1-hit-returns", con, ok, "on a cache hit the discipline body must not run", node=look[0], stmt="hit path returns without _execute_monitored")
        alts_ = (unfolded(f, look[0].args[0]) or [look[0].args[0]]) if look[0].args else []
        ok = bool(alts_) and all(isinstance(a_, ast.Call) and last_attr(a_) == "prepare_input_data" for a_ in alts_)
        ctx.ob("5.1-lookup-first", con, bool(ok), "the lookup must use the prepared input data", node=look[0], stmt="lookup(input_data)")
    # pristine copy
    pc = [s for s in stmts_of(f) if isinstance(s, ast.Assign) and isinstance(s.value, ast.Call) and last_attr(s.value) in ("__create_input_data_for_cache", "_BaseDiscipline__create_input_data_for_cache")]
    ctx.ob("5.1-pristine", con, len(pc) == 1, "a pristine copy of the inputs must be kept for the cache", node=(pc or [f])[0], stmt="pristine copy present")
    pv = dotted(pc[0].targets[0]) if pc else None
    init = [c for c in walk_body(f) if isinstance(c, ast.Call) and norm_stmt(c.func) == "self.io.initialize"]
    ctx.need(len(init) == 1, "execute: self.io.initialize call not found")
    inn = cfg.node_of(init[0])
    if pc:
        pn = cfg.node_of(pc[0])
        ok = cfg.reachable(pn, inn) and not cfg.reachable(inn, pn) and not cfg.reachable(rn, pn) and cfg.must_pass(cfg.entry, {pn} | cache_false | ({cfg.branch[(cfg.node_of(look[0]), True)]} if look else set()), inn)
        ctx.ob("5.1-pristine", con, ok, "the copy of the inputs kept for the cache must be taken before io.initialize/the run can change them (in-place modified or self-coupled inputs would otherwise be stored)", node=pc[0])
        alts_ = (unfolded(f, pc[0].value.args[0]) or [pc[0].value.args[0]]) if pc[0].value.args else []
        ok = bool(alts_) and all(isinstance(a_, ast.Call) and last_attr(a_) == "prepare_input_data" for a_ in alts_)
        ctx.ob("5.1-pristine", con, bool(ok), "the pristine copy must be made from the prepared input data", node=pc[0], stmt="copy of input_data")
    st = rules.self_calls(f, "_store_cache")
    ctx.ob("5.1-store-after-run", con, len(st) == 1, "after the run the outputs must be stored in the cache", node=(st or [f])[0], stmt="store present")
    if st:
        sn = cfg.node_of(st[0])
        ok = st[0].args and dotted(st[0].args[0]) == pv
        ctx.ob("5.1-store-pristine", con, bool(ok), "the cache must be fed with the pristine copy of the inputs, not with the (possibly modified) live data", node=st[0])
        esc = cfg.escape_path(rn, {sn} | cache_false)
        ctx.ob("5.1-store-after-run", con, esc is None and cfg.reachable(rn, sn), "after the run, a normal path with a cache reaches the return without storing: " + cfg.describe_path(esc), node=st[0], stmt="every normal path after the run stores (unless there is no cache)")
    # the copy helper
    g = ctx.index.method(BD, "BaseDiscipline", "__create_input_data_for_cache")
    con2 = cname(BD, "BaseDiscipline", "__create_input_data_for_cache")
    p = g.args.args[1].arg
    fresh = [s for s in stmts_of(g) if isinstance(s, ast.Assign) and p in names_in(s.value) and ((isinstance(s.value, ast.Call) and last_attr(s.value) in ("copy", "dict", "deepcopy", "deepcopy_dict_of_arrays", "DisciplineData")) or isinstance(s.value, (ast.Dict, ast.DictComp)))]
    rets = [s for s in stmts_of(g) if isinstance(s, ast.Return)]
    # every way out (a guard clause adds returns) hands back the fresh mapping
    fresh_names = {dotted(c.targets[0]) for c in fresh} - {None}
    ok = bool(rets) and all(r.value is not None and (dotted(r.value) in fresh_names or (isinstance(r.value, ast.Call) and last_attr(r.value) in ("deepcopy", "deepcopy_dict_of_arrays"))) for r in rets)
    ctx.ob("5.1-pristine", con2, ok, "the helper must return a fresh mapping, not the mapping it was given", node=(rets or [g])[0], stmt="returns a fresh mapping")
    dc = [c for c in walk_body(g) if isinstance(c, ast.Call) and last_attr(c) in ("deepcopy", "deepcopy_dict_of_arrays")]
    ctx.ob("5.1-pristine", con2, bool(dc), "self-coupled (input and output) values must be deep-copied: the run overwrites them in place", node=(dc or [g])[0], stmt="deepcopy of auto-coupled values")


def _stored_from_params(cls_name: str, f: ast.FunctionDef):
    """(statement, attr, value expression) for stores into self attributes or into containers taken from them."""
    al = local_aliases(f)
    # ``data = self.__data[index]``: alias of an element of a self attribute
    for s in stmts_of(f):
        if isinstance(s, ast.Assign) and isinstance(s.targets[0], ast.Name) and isinstance(s.value, ast.Subscript) and isinstance(s.value.value, ast.Attribute) and dotted(s.value.value.value) == "self":
            al.setdefault(s.targets[0].id, []).append(s.value.value.attr)
    out = []
    for s in stmts_of(f):
        if not isinstance(s, ast.Assign):
            continue
        for t in s.targets:
            root = t
            while isinstance(root, ast.Subscript):
                root = root.value
            attr = None
            if isinstance(root, ast.Attribute) and dotted(root.value) == "self":
                attr = root.attr
            elif isinstance(root, ast.Name) and root.id in al and isinstance(t, ast.Subscript):
                attr = al[root.id][0]
            if attr is not None:
                pre = "_" + cls_name + "__"
                if attr.startswith(pre):
                    attr = attr[len(pre) - 2 :]
                out.append((s, attr, s.value))
    return out


def check_copies(ctx: Ctx) -> None:
    base = ctx.index.cls("caches/base_cache.py", "BaseCache")
    n = 0
    for cls in [base, *ctx.index.subclasses(base)]:
        for mname in ("cache_outputs", "cache_jacobian", "_write_data", "_cache_inputs"):
            f = cls.methods.get(mname)
            if f is None:
                continue
            params = {p for p in param_names(f) if p not in ("self", "group", "index")}
            con = cname(cls.module.relpath, cls.qualname, mname)
            for s, attr, value in _stored_from_params(cls.name, f):
                # names/sizes of the mapping (``param.keys()``, ``len(param)``) do not alias arrays
                benign = {id(a.value) for a in ast.walk(value) if isinstance(a, ast.Attribute) and a.attr == "keys"}
                benign |= {id(c.args[0]) for c in ast.walk(value) if isinstance(c, ast.Call) and dotted(c.func) in ("len", "sorted", "list", "tuple", "set", "frozenset") and len(c.args) == 1}
                used = [x for x in ast.walk(value) if isinstance(x, ast.Name) and x.id in params and id(x) not in benign]
                if not used:
                    continue
                if (cls.name, attr) in ALIAS_OK:
                    ctx.note(f"5.2 declared alias {cls.name}.{attr}: {ALIAS_OK[(cls.name, attr)]}")
                    continue
                n += 1
                ok = True
                for u in used:
                    wrapped = any(isinstance(c, ast.Call) and last_attr(c) in DEEP_COPIES and c.args and c.args[0] is u for c in ast.walk(value))
                    if not wrapped and mname != "cache_jacobian":
                        # element-wise copy of a FLAT mapping of arrays: {k: v.copy() for k, v in param.items()}
                        for dc in ast.walk(value):
                            if isinstance(dc, ast.DictComp) and len(dc.generators) == 1 and not dc.generators[0].ifs:
                                g_ = dc.generators[0]
                                if isinstance(g_.iter, ast.Call) and isinstance(g_.iter.func, ast.Attribute) and g_.iter.func.attr == "items" and g_.iter.func.value is u and isinstance(g_.target, ast.Tuple) and len(g_.target.elts) == 2:
                                    vname = dotted(g_.target.elts[1])
                                    v_ = dc.value
                                    wrapped = isinstance(v_, ast.Call) and ((isinstance(v_.func, ast.Attribute) and v_.func.attr == "copy" and dotted(v_.func.value) == vname) or (last_attr(v_) in ("deepcopy", "array", "np_array") and v_.args and dotted(v_.args[0]) == vname))
                    ok = ok and wrapped
                ctx.ob("5.2-deep-copy", con, ok, f"{cls.name}.{mname} keeps `{norm_stmt(value, 50)}` in {attr} without a deep array copy: when the caller later modifies its arrays in place the cached entry changes with them (wrong hits with a tolerance, lost hits without)", node=s)
    ctx.floor("5.2-deep-copy", 4)
    # delegation to disk for the HDF5 cache
    f = ctx.index.method(HFC, "HDF5Cache", "_write_data")
    calls = [c for c in walk_body(f) if isinstance(c, ast.Call) and last_attr(c) == "write_data"]
    ok = len(calls) == 1 and dotted(calls[0].args[0]) == f.args.args[1].arg
    ctx.ob("5.2-serialised", cname(HFC, "HDF5Cache", "_write_data"), ok, "the HDF5 cache must serialise the values to its file", node=(calls or [f])[0])


def check_simple_cache(ctx: Ctx) -> None:
    cls = ctx.index.cls(SCF, "SimpleCache")
    fields = ["__inputs", "__outputs", "__jacobian"]

    def rebinds(f, fld):
        return rules.assigns_to_self(f, fld, "SimpleCache")

    for mname, own in (("cache_outputs", "__outputs"), ("cache_jacobian", "__jacobian")):
        f = ctx.index.method(SCF, "SimpleCache", mname)
        con = cname(SCF, "SimpleCache", mname)
        cfg = cfg_of(f)
        ins = rebinds(f, "__inputs")
        ctx.need(len(ins) == 1, f"SimpleCache.{mname}: rebind of __inputs not found")
        inn = cfg.node_of(ins[0])
        cond_in = set(branch_conditions(cfg, inn))
        for fld in fields[1:]:
            rs = [s for s in rebinds(f, fld) if set(branch_conditions(cfg, cfg.node_of(s))) == cond_in]
            ctx.ob("5.3-entry", con, len(rs) == 1, f"when {mname} starts a new entry (rebinding __inputs) it must also rebind {fld}: otherwise outputs/Jacobian of the previous input are served for the new one", node=ins[0], stmt=f"new entry rebinds {fld}")
            if rs and fld != own:
                v = rs[0].value
                ok = isinstance(v, ast.Dict) and not v.keys
                ctx.ob("5.3-entry", con, ok, f"a new entry created by {mname} must start with an empty {fld}", node=rs[0])
        # the kept-entry branch fills only an empty field
        kept = [s for s in rebinds(f, own) if set(branch_conditions(cfg, cfg.node_of(s))) != cond_in]
        ctx.need(len(kept) == 1, f"SimpleCache.{mname}: fill of an existing entry not found")
        kn = cfg.node_of(kept[0])
        lits = []
        for t, v in branch_conditions(cfg, kn):
            if cfg.kind[t] != "test":
                continue
            cl = conj_literals(cfg.ast[t].test)
            if v:
                lits += cl
            elif len(cl) == 1:
                lits.append((not cl[0][0], cl[0][1]))
        is_cached = any(p and isinstance(e, ast.Call) and last_attr(e) in ("__is_cached", "_SimpleCache__is_cached") for p, e in lits)
        def is_own(e, own=own) -> bool:
            return isinstance(e, ast.Attribute) and dotted(e.value) == "self" and e.attr in (own, mangle("SimpleCache", own))

        # filled only when empty: under `if not self.<own>`, or by `self.<own> = self.<own> or <new>` / a conditional
        # expression that keeps the field itself unless it is empty
        kv = kept[0].value if isinstance(kept[0], ast.Assign) else None
        if isinstance(kv, ast.BoolOp) and isinstance(kv.op, ast.Or) and is_own(kv.values[0]):
            arms = [(x_, [(False, kv.values[0])]) for x_ in kv.values[1:]]
        else:
            arms = list(_guarded_leaves(kv)) if kv is not None else [(None, [])]
        empty = all(is_own(arm) or any((not p) and is_own(e) for p, e in lits + more) for arm, more in arms)
        ctx.ob("5.3-entry", con, is_cached and empty, f"for an input that is already cached, {own} may only be filled when it is empty (never replaced)", node=kept[0])
        for fld in fields:
            if fld == own:
                continue
            others = [s for s in rebinds(f, fld) if set(branch_conditions(cfg, cfg.node_of(s))) != cond_in]
            ctx.ob("5.3-entry", con, not others, f"keeping the cached input, {mname} must not touch {fld}", node=(others or [kept[0]])[0], stmt=f"kept entry leaves {fld}")
    # membership test compares with the stored inputs
    f = ctx.index.method(SCF, "SimpleCache", "__is_cached")
    cmp_ = [c for c in walk_body(f) if isinstance(c, ast.Call) and last_attr(c) == "compare_dict_of_arrays"]
    ok = len(cmp_) == 1 and len(cmp_[0].args) >= 2 and dotted(cmp_[0].args[0]) == f.args.args[1].arg and (dotted(cmp_[0].args[1]) or "").endswith("__inputs")
    ctx.ob("5.4-compare", cname(SCF, "SimpleCache", "__is_cached"), ok, "the single entry matches only if the given inputs compare equal to the stored inputs", node=(cmp_ or [f])[0])
    g = ctx.index.method(SCF, "SimpleCache", "__getitem__")
    cfg = cfg_of(g)
    rets = [s for s in stmts_of(g) if isinstance(s, ast.Return)]
    # the returns that serve what is stored: through last_entry, or by reading the stored outputs / Jacobian directly
    def serves(e) -> bool:
        return any(isinstance(n_, ast.Attribute) and (n_.attr == "last_entry" or n_.attr.endswith(("__outputs", "__jacobian"))) for n_ in ast.walk(e))

    le = [r for r in rets if r.value is not None and serves(r.value)]
    ok = len(le) >= 1
    for r in le:
        lits = []
        for t, v in branch_conditions(cfg, cfg.node_of(r)):
            cl = conj_literals(cfg.ast[t].test)
            lits += cl if v else ([(not cl[0][0], cl[0][1])] if len(cl) == 1 else [])
        # `return stored if cached else empty`: each arm of a conditional expression is served under its own condition
        for leaf, more in _guarded_leaves(r.value):
            if serves(leaf):
                ok = ok and any(p and isinstance(e, ast.Call) and (last_attr(e) or "").endswith("__is_cached") for p, e in lits + more)
    ctx.ob("5.4-compare", cname(SCF, "SimpleCache", "__getitem__"), ok, "the stored entry may only be served when the inputs are cached", node=(le or [g])[0])


class _Confirmed:
    """Which index expressions designate, at a program point of ``f``, an entry whose STORED INPUTS were compared equal
    with the given inputs ``p_in`` (``compare_dict_of_arrays(p_in, self._read_data(<index>, Group.INPUTS))`` is known
    to be true there).  The spelling is free: the comparison may sit in the test around the use, in an earlier guard
    (``if not equal: continue``), read the stored inputs through a local; the confirmed index may be carried out of the
    search in a local (``found = index; break`` ... ``if found is not None:``) or be the result of
    ``next((i for i in indices if <comparison on i>), None)``."""

    def __init__(self, f: ast.AST, p_in: str, need_tolerance: bool = False):
        self.f, self.p_in, self.need_tol = f, p_in, need_tolerance
        self.cfg = cfg_of(f)
        in_comp = {id(n_) for c_ in ast.walk(f) if isinstance(c_, ast.comprehension) for n_ in ast.walk(c_.target)}
        # bindings of the locals: name -> [assignment statement | None (any other kind of binding)]
        self.bind: dict[str, list] = {p_: [None] for p_ in param_names(f)}
        simple = {}
        for st in stmts_of(f):
            if isinstance(st, ast.Assign):
                for t_ in st.targets:
                    if isinstance(t_, ast.Name):
                        simple[id(t_)] = st
        for n_ in walk_body(f):
            if isinstance(n_, ast.Name) and isinstance(n_.ctx, (ast.Store, ast.Del)) and id(n_) not in in_comp:
                self.bind.setdefault(n_.id, []).append(simple.get(id(n_)))

    def literals(self, at: int) -> list[tuple[bool, ast.AST, int]]:
        """(polarity, condition, branch node) known at ``at``."""
        out = []
        for (t, v), b in self.cfg.branch.items():
            if self.cfg.kind[t] != "test" or not self.cfg.dominates(b, at):
                continue
            cl = conj_literals(self.cfg.ast[t].test)
            if v:
                out += [(p, e, b) for p, e in cl]
            elif len(cl) == 1:
                out.append((not cl[0][0], cl[0][1], b))
        return out

    def compared_index(self, c: ast.AST, ctx_func: ast.AST | None) -> str | None:
        """The index whose stored inputs the call ``c`` compares with the given inputs (None: not such a comparison)."""
        if not (isinstance(c, ast.Call) and last_attr(c) == "compare_dict_of_arrays" and len(c.args) >= 2 and dotted(c.args[0]) == self.p_in):
            return None
        if self.need_tol and len(c.args) < 3 and not any(k.arg == "tolerance" for k in c.keywords):
            return None
        other = c.args[1]
        alts = (unfolded(ctx_func, other) if ctx_func is not None and self.cfg.has(other) else None) or [other]
        idx = set()
        for o in alts:
            if isinstance(o, ast.Call) and last_attr(o) == "_read_data" and len(o.args) >= 2 and (dotted(o.args[1]) or "").endswith("Group.INPUTS"):
                idx.add(norm_stmt(o.args[0]))
            else:
                return None
        return idx.pop() if len(idx) == 1 else None

    def at(self, at: int) -> set[str]:
        """The index expressions (text) confirmed by the conditions that hold at ``at``."""
        out = set()
        for p, e, _b in self.literals(at):
            if not p:
                continue
            alts = (unfolded(self.f, e) if self.cfg.has(e) else None) or [e]
            got = {self.compared_index(a_, self.f if a_ is e else None) for a_ in alts}
            if len(got) == 1 and None not in got:
                out |= got
        return out

    def not_none_since(self, name: str, at: int) -> int | None:
        """The branch node from which ``name is not None`` is known at ``at``."""
        for p, e, b in self.literals(at):
            txt = norm_stmt(e)
            if (txt == f"{name} is not None" and p) or (txt == f"{name} is None" and not p):
                return b
        return None

    def holds(self, e: ast.AST, at: int, depth: int = 0) -> bool:
        """``e`` (evaluated at ``at``) is the index of an entry whose stored inputs compared equal."""
        if norm_stmt(e) in self.at(at):
            return True
        if not isinstance(e, ast.Name) or depth > 2:
            return False
        defs = self.bind.get(e.id, [])
        if not defs or any(d is None for d in defs):
            return False
        nones = []
        for d in defs:
            v = d.value
            if isinstance(v, ast.Constant) and v.value is None:
                nones.append(d)
            elif isinstance(v, ast.Name) and self.holds(v, self.cfg.node_of(d), depth + 1):
                pass
            elif self._next_confirmed(v):
                if len(v.args) == 2:
                    nones.append(d)
            else:
                return False
        if nones:
            b = self.not_none_since(e.id, at)
            # known not to be None, and not reset to None between that test and the use
            if b is None or any(self.cfg.dominates(b, self.cfg.node_of(d)) for d in nones if isinstance(d.value, ast.Constant)):
                return False
            if any(self.cfg.dominates(b, self.cfg.node_of(d)) for d in defs):
                return False
        return any(not isinstance(d.value, ast.Constant) for d in defs)

    def _next_confirmed(self, v: ast.AST) -> bool:
        """``next((i for i in <candidates> if <comparison on i>), None)`` (or without default: raises when none)."""
        if not (isinstance(v, ast.Call) and dotted(v.func) == "next" and 1 <= len(v.args) <= 2 and not v.keywords and isinstance(v.args[0], ast.GeneratorExp)):
            return False
        if len(v.args) == 2 and not (isinstance(v.args[1], ast.Constant) and v.args[1].value is None):
            return False
        gen = v.args[0]
        if len(gen.generators) != 1 or not isinstance(gen.generators[0].target, ast.Name) or not isinstance(gen.elt, ast.Name):
            return False
        g_ = gen.generators[0]
        if gen.elt.id != g_.target.id:
            return False
        for cond in g_.ifs:
            for p, lit in conj_literals(cond):
                if p and self.compared_index(lit, None) == g_.target.id:
                    return True
        return False

    def some_carried(self, at: int) -> bool:
        """Some local known not to be None at ``at`` carries a confirmed index (``if found is not None: return False``)."""
        names = set()
        for p, e, _b in self.literals(at):
            if isinstance(e, ast.Compare) and len(e.ops) == 1 and isinstance(e.left, ast.Name) and isinstance(e.comparators[0], ast.Constant) and e.comparators[0].value is None:
                names.add(e.left.id)
        return any(self.holds(ast.Name(id=n_, ctx=ast.Load()), at) for n_ in sorted(names))


def _is_new_index(f: ast.AST, value: ast.AST) -> bool:
    """``value`` is the (just incremented) maximum index, directly or through a local."""
    alts = (unfolded(f, value) if cfg_of(f).has(value) else None) or [value]
    return all(norm_stmt(a_) == "self._max_index.value" for a_ in alts)


def check_full_cache_compare(ctx: Ctx) -> None:
    for mname in ("_read_input_output_data", "__getitem__", "__ensure_input_data_exists"):
        f = ctx.index.method(BFC, "BaseFullCache", mname)
        con = cname(BFC, "BaseFullCache", mname)
        cfg = cfg_of(f)
        p_in = f.args.args[-1].arg if mname == "_read_input_output_data" else f.args.args[1].arg
        reads = [c for c in walk_body(f) if isinstance(c, ast.Call) and last_attr(c) == "_read_data" and len(c.args) == 2 and (dotted(c.args[1]) or "").endswith(("Group.OUTPUTS", "Group.JACOBIAN"))]
        hits = list(reads)
        if mname == "__ensure_input_data_exists":
            hits = [s for s in stmts_of(f) if isinstance(s, ast.Return) and isinstance(s.value, ast.Constant) and s.value.value is False]
            # (the index of a NEW entry, `self._max_index.value` possibly through a local, is not a candidate)
            hits += [s for s in stmts_of(f) if isinstance(s, ast.Assign) and (dotted(s.targets[0]) or "") == "self._last_accessed_index.value" and isinstance(s.value, ast.Name) and not _is_new_index(f, s.value)]
        ctx.need(hits, f"BaseFullCache.{mname}: no hit construct found")
        # exact lookups of __getitem__ go through _read_input_output_data; its tolerance search must pass the tolerance
        conf = _Confirmed(f, p_in, need_tolerance=mname == "__getitem__")
        for h in hits:
            hn = cfg.node_of(h)
            # the compared inputs are those of the very index whose outputs are served
            if isinstance(h, ast.Call):
                ok = conf.holds(h.args[0], hn)
            elif isinstance(h, ast.Assign):
                ok = conf.holds(h.value, hn)
            else:
                ok = bool(conf.at(hn)) or conf.some_carried(hn)
            ctx.ob("5.4-compare", con, ok, f"{mname}: a hash (or tolerance) candidate is used without comparing the given inputs with the stored inputs of the same index: two inputs with colliding hashes would share outputs", node=h)
    ctx.floor("5.4-compare", 8)
    # exact lookups go through the hash of the inputs and the confirming routine
    g = ctx.index.method(BFC, "BaseFullCache", "__getitem__")
    calls = rules.self_calls(g, "_read_input_output_data")
    ok = len(calls) == 1 and dotted(calls[0].args[1]) == g.args.args[1].arg
    ctx.ob("5.4-compare", cname(BFC, "BaseFullCache", "__getitem__"), ok, "an exact lookup must confirm the hash match through _read_input_output_data(indices, input_data)", node=(calls or [g])[0], stmt="exact lookup confirmed")
    # new entries: inputs are written first (the entry hash is the hash of the inputs)
    h = ctx.index.method(BFC, "BaseFullCache", "_cache_inputs")
    cfg = cfg_of(h)
    wr = rules.self_calls(h, "_write_data")
    def _a(c, i, name):
        return c.args[i] if len(c.args) > i else next((k.value for k in c.keywords if k.arg == name), None)

    ok = len(wr) == 1 and dotted(_a(wr[0], 0, "values")) == h.args.args[1].arg and (dotted(_a(wr[0], 1, "group")) or "").endswith("Group.INPUTS") and dotted(_a(wr[0], 2, "index")) in ("self._max_index.value", "self._last_accessed_index.value")
    if ok:
        conds = branch_conditions(cfg, cfg.node_of(wr[0]))
        ok = len(conds) == 1 and conds[0][1] and isinstance(cfg.ast[conds[0][0]].test, ast.Call) and last_attr(cfg.ast[conds[0][0]].test).endswith("__ensure_input_data_exists")
    ctx.ob("5.7-inputs-first", cname(BFC, "BaseFullCache", "_cache_inputs"), ok, "a new entry must first receive its inputs (at the new index): the entry hash written to the file is the hash of the first group written", node=(wr or [h])[0])


def _entry_field_locals(ctx: Ctx, f: ast.AST, entry: str) -> dict[str, str]:
    """{local: field} for the locals of ``f`` whose ONLY binding unpacks the CacheEntry ``entry`` (a named tuple):
    ``inputs, outputs, jacobian = entry`` binds each local to the field at its position."""
    cls = ctx.index.cls("caches/cache_entry.py", "CacheEntry")
    fields = [b.target.id for b in cls.node.body if isinstance(b, ast.AnnAssign) and isinstance(b.target, ast.Name)]
    bound: dict[str, list] = {}
    for n in walk_body(f):
        if isinstance(n, ast.Name) and isinstance(n.ctx, (ast.Store, ast.Del)):
            bound.setdefault(n.id, []).append(None)
    out: dict[str, str] = {}
    for st in stmts_of(f):
        if isinstance(st, ast.Assign) and len(st.targets) == 1 and isinstance(st.targets[0], (ast.Tuple, ast.List)) and dotted(st.value) == entry:
            elts = st.targets[0].elts
            if len(elts) != len(fields) or any(not isinstance(e, ast.Name) for e in elts):
                continue
            for e, fld in zip(elts, fields):
                if len(bound.get(e.id, [])) == 1:
                    out[e.id] = fld
    # the entry itself must not be re-bound
    return {} if entry in bound else out


def check_jacobian_flag(ctx: Ctx) -> None:
    f = ctx.index.method(DI, "Discipline", "execute")
    con = cname(DI, "Discipline", "execute")
    cfg = cfg_of(f)
    resets = [s for s in stmts_of(f) if isinstance(s, ast.Assign) and dotted(s.targets[0]) == "self._has_jacobian" and isinstance(s.value, ast.Constant) and s.value.value is False]
    sup = rules.super_calls(f, "execute")
    ok = len(resets) == 1 and len(sup) == 1 and cfg.dominates(cfg.node_of(resets[0]), cfg.node_of(sup[0])) and not branch_conditions(cfg, cfg.node_of(resets[0]))
    ctx.ob("5.5-flag-reset", con, ok, "every execution must start by invalidating the held Jacobian (_has_jacobian = False): otherwise linearize returns the Jacobian of the previous input", node=(resets or [f])[0])
    g = ctx.index.method(DI, "Discipline", "linearize")
    con2 = cname(DI, "Discipline", "linearize")
    cfg2 = cfg_of(g)
    comp = [c for c in walk_body(g) if isinstance(c, ast.Attribute) and c.attr.endswith("__compute_jacobian")]
    ctx.need(comp, "linearize: the Jacobian computation was not found")
    cn = cfg2.node_of(comp[0])
    early = [s for s in stmts_of(g) if isinstance(s, ast.Return) and dotted(s.value) == "self.jac" and not cfg2.reachable(cn, cfg2.node_of(s))]
    held = []
    for r in early:
        lits = []
        for t, v in branch_conditions(cfg2, cfg2.node_of(r)):
            if v and cfg2.kind[t] == "test":
                lits += conj_literals(cfg2.ast[t].test)
        names = {dotted(e) for p, e in lits if p}
        if "self._has_jacobian" in names or "self.jac" in names:
            held.append((r, names))
    ctx.need(held, "linearize: the early return of the held Jacobian was not found")
    for r, names in held:
        ctx.ob("5.5-flag-guard", con2, "self._has_jacobian" in names, "the held Jacobian may be returned without recomputation only when the flag `self._has_jacobian` says it belongs to the current inputs", node=r, slots={"conditions": sorted(str(n) for n in names)})
    # the execution precedes the test of the flag
    ex = rules.self_calls(g, "execute")
    ok = len(ex) == 1 and all(cfg2.reachable(cfg2.node_of(ex[0]), cfg2.node_of(r)) for r, _ in held)
    ctx.ob("5.5-flag-guard", con2, ok, "linearize must (re-)execute before trusting the flag", node=(ex or [g])[0], stmt="execute before the flag test")
    cj = [c for c in walk_body(g) if isinstance(c, ast.Call) and last_attr(c) == "cache_jacobian"]
    ok = len(cj) == 1 and len(cj[0].args) >= 2
    if ok:
        # the inputs given to the cache are the prepared inputs the Jacobian was computed at
        alts_ = unfolded(g, cj[0].args[0]) or [cj[0].args[0]]
        ok = all(isinstance(a_, ast.Call) and last_attr(a_) == "prepare_input_data" for a_ in alts_) and dotted(cj[0].args[1]) == "self.jac" and cfg2.reachable(cn, cfg2.node_of(cj[0]))
    ctx.ob("5.5-jacobian-cached", con2, ok, "a computed Jacobian must be cached with the inputs it was computed at", node=(cj or [g])[0])
    # Discipline._set_data_from_cache
    s = ctx.index.method(DI, "Discipline", "_set_data_from_cache")
    jac_sets = [x for x in stmts_of(s) if isinstance(x, ast.Assign) and any(dotted(t_) == "self.jac" for t_ in x.targets)]
    entry = s.args.args[1].arg
    from_entry = _entry_field_locals(ctx, s, entry)

    def kinds(e) -> set | None:
        """{"cached"} / {"empty"} / both for an expression that is the Jacobian of the entry or an empty one (None: other)."""
        if dotted(e) == entry + ".jacobian" or (isinstance(e, ast.Name) and from_entry.get(e.id) == "jacobian"):
            return {"cached"}
        if (isinstance(e, ast.Dict) and not e.keys) or (isinstance(e, ast.Call) and dotted(e.func) == "dict" and not e.args and not e.keywords):
            return {"empty"}
        parts = e.values if isinstance(e, ast.BoolOp) and isinstance(e.op, ast.Or) else ([e.body, e.orelse] if isinstance(e, ast.IfExp) else [])
        if len(parts) == 2:
            ks = [kinds(x) for x in parts]
            return None if None in ks else ks[0] | ks[1]
        return None

    cfg_s = cfg_of(s)
    # every way through installs a Jacobian, and what is installed is the cached one or an empty one whatever the
    # spelling (two branches, `a or {}`, a conditional expression, a local re-bound when empty)
    seen = set()
    ok = bool(jac_sets) and cfg_s.must_pass(cfg_s.entry, {cfg_s.node_of(x) for x in jac_sets})
    for x in jac_sets:
        for a_ in unfolded(s, x.value) or [x.value]:
            k_ = kinds(a_)
            ok = ok and k_ is not None
            seen |= k_ or set()
    ok = ok and seen == {"cached", "empty"}
    ctx.ob("5.5-restore", cname(DI, "Discipline", "_set_data_from_cache"), ok, "restoring from the cache must install the cached Jacobian or an empty one (never keep the previous Jacobian)", node=(jac_sets or [s])[0])


def _enclosing(tree, node) -> str:
    best = "<module>"
    for f in ast.walk(tree):
        if isinstance(f, (ast.FunctionDef, ast.AsyncFunctionDef)) and any(s is node for s in ast.walk(f)):
            best = f.name
    return best


def check_hdf5_index(ctx: Ctx) -> None:
    f = ctx.index.method(HFC, "HDF5Cache", "__init__")
    cfg = cfg_of(f)
    rh = rules.self_calls(f, "_read_hashes")
    ok = len(rh) == 1 and cfg.must_pass(cfg.entry, {cfg.node_of(rh[0])})
    sup = rules.super_calls(f, "__init__")
    ok = ok and len(sup) == 1 and cfg.reachable(cfg.node_of(sup[0]), cfg.node_of(rh[0])) and not cfg.reachable(cfg.node_of(rh[0]), cfg.node_of(sup[0]))
    ctx.ob("5.7-reopen", cname(HFC, "HDF5Cache", "__init__"), ok, "opening an HDF5 cache must rebuild the hash index from the file (after the base initialisation that creates the empty index)", node=(rh or [f])[0])
    g = ctx.index.method(HFC, "HDF5Cache", "__setstate__")
    calls = [c for c in walk_body(g) if isinstance(c, ast.Call) and last_attr(c) == "__init__"]
    ok = len(calls) == 1 and any(k.arg is None and dotted(k.value) == g.args.args[1].arg for k in calls[0].keywords)
    ctx.ob("5.7-reopen", cname(HFC, "HDF5Cache", "__setstate__"), ok, "unpickling an HDF5 cache must re-run __init__ (which re-reads the index from the file)", node=(calls or [g])[0])
    r = ctx.index.method(HFC, "HDF5Cache", "_read_hashes")
    sets = [s for s in stmts_of(r) if isinstance(s, ast.Assign) and (dotted(s.targets[0]) or "") in ("self._max_index.value", "self._last_accessed_index.value")]
    ok = any(isinstance(s, ast.Assign) and any((dotted(t) or "") == "self._max_index.value" for t in s.targets) for s in stmts_of(r))
    ctx.ob("5.7-reopen", cname(HFC, "HDF5Cache", "_read_hashes"), ok, "the maximum index must be restored from the file so that new entries do not overwrite existing ones", node=(sets or [r])[0])
    w = ctx.index.method(HFS, "HDF5FileSingleton", "write_data")
    hashes = [c for c in walk_body(w) if isinstance(c, ast.Call) and last_attr(c) == "hash_data"]
    ok = len(hashes) == 1 and dotted(hashes[0].args[0]) == w.args.args[1].arg
    ctx.ob("5.7-reopen", cname(HFS, "HDF5FileSingleton", "write_data"), ok, "the entry hash written to the file must be computed from the data being written at entry creation (the inputs)", node=(hashes or [w])[0])


def _entry_edits(m: ast.AST):
    """(sites that edit what was read from ``self.cache[...]``, number of candidate sites) in the function ``m``."""
    from gv.dataflow import Forward

    cfg = cfg_of(m)
    n_sites = 0

    def ev(e, env):
        if isinstance(e, ast.Subscript) and dotted(e.value) == "self.cache":
            return frozenset({"E"})
        if isinstance(e, ast.Name):
            return env.get(e.id, frozenset())
        if isinstance(e, ast.Attribute):
            b = ev(e.value, env)
            if "E" in b and e.attr in ("inputs", "outputs", "jacobian"):
                return frozenset({"D"})
            return b & {"A"}
        if isinstance(e, ast.Subscript):
            b = ev(e.value, env)
            return frozenset({"A"}) if b & {"D", "C"} else (frozenset({"D"}) if "E" in b else b & {"A"})
        if isinstance(e, ast.Call):
            la = last_attr(e)
            recv = ev(e.func.value, env) if isinstance(e.func, ast.Attribute) else frozenset()
            if la == "copy" and recv & {"D", "C"}:
                return frozenset({"C"})
            if la in ("dict",) and e.args and ev(e.args[0], env) & {"D", "C"}:
                return frozenset({"C"})
            if la in ("get", "pop", "setdefault") and recv & {"D", "C"}:
                return frozenset({"A"})
            return frozenset()
        if isinstance(e, ast.IfExp):
            return ev(e.body, env) | ev(e.orelse, env)
        return frozenset()

    def loop_elem(it, env):
        if isinstance(it, ast.Call) and isinstance(it.func, ast.Attribute) and it.func.attr in ("items", "values") and ev(it.func.value, env) & {"D", "C"}:
            return frozenset({"A"})
        return frozenset()

    def unpack(value_expr, env, i, n):
        # (name, value) pairs of .items(): the value is a stored array
        if isinstance(value_expr, ast.Call) and isinstance(value_expr.func, ast.Attribute) and value_expr.func.attr == "items" and ev(value_expr.func.value, env) & {"D", "C"}:
            return frozenset({"A"}) if i == 1 else frozenset()
        return frozenset()

    fw = Forward(cfg, ev, init={}, loop_elem=loop_elem, unpack=unpack)
    bad = []
    for n in walk_body(m):
        if isinstance(n, ast.Subscript) and isinstance(n.ctx, (ast.Store, ast.Del)):
            t = fw.tags(n.value) if cfg.has(n) else frozenset()
            n_sites += 1
            if t & {"D", "A"}:
                bad.append((n, "item assignment into " + ("a mapping of the stored entry" if "D" in t else "a stored array")))
        elif isinstance(n, ast.AugAssign) and isinstance(n.target, ast.Name) and cfg.has(n):
            t = fw.at(n).get(n.target.id, frozenset())
            n_sites += 1
            if "A" in t:
                bad.append((n, "in-place operation on a stored array"))
        elif isinstance(n, ast.Call) and isinstance(n.func, ast.Attribute) and n.func.attr in ("update", "pop", "clear", "setdefault", "popitem", "fill", "resize", "sort") and cfg.has(n):
            t = fw.tags(n.func.value)
            n_sites += 1
            if t & {"D"} or (n.func.attr in ("fill", "resize", "sort") and "A" in t):
                bad.append((n, f".{n.func.attr}() on the stored entry"))
    return bad, n_sites


def _stable_facts(m: ast.AST, node: ast.AST) -> dict[str, bool]:
    """The conditions that hold at ``node`` AND have the same value wherever they are evaluated in one call of ``m``:
    a flag kept in a local that is bound once (outside any loop) or a parameter never re-bound, and ``isinstance`` of
    such a local / of a ``self`` attribute that ``m`` does not assign."""
    from gv.props.shared import literal_facts

    cfg = cfg_of(m)
    if not cfg.has(node):
        return {}
    par = {}
    for p_ in ast.walk(m):
        for c_ in ast.iter_child_nodes(p_):
            par[id(c_)] = p_
    stores: dict[str, list] = {}
    attr_stores = set()
    for x in walk_body(m):
        if isinstance(x, ast.Name) and isinstance(x.ctx, (ast.Store, ast.Del)):
            stores.setdefault(x.id, []).append(x)
        elif isinstance(x, ast.Attribute) and isinstance(x.ctx, (ast.Store, ast.Del)):
            attr_stores.add(dotted(x))
    params = set(param_names(m))

    def in_loop(x) -> bool:
        while id(x) in par:
            x = par[id(x)]
            if isinstance(x, (ast.For, ast.While, ast.AsyncFor, ast.comprehension)):
                return True
        return False

    def stable_name(e) -> bool:
        if not isinstance(e, ast.Name):
            return False
        ss = stores.get(e.id, [])
        if e.id in params:
            return not ss
        return len(ss) == 1 and not in_loop(ss[0]) and isinstance(par.get(id(ss[0])), ast.Assign)

    def stable(e) -> bool:
        if stable_name(e):
            return True
        if isinstance(e, ast.Call) and dotted(e.func) == "isinstance" and len(e.args) == 2 and not e.keywords:
            x = e.args[0]
            d = dotted(x)
            return stable_name(x) or (isinstance(x, ast.Attribute) and d is not None and d.startswith("self.") and not any(d == a_ or d.startswith((a_ or "?") + ".") for a_ in attr_stores))
        return False

    out = {}
    for txt, val in literal_facts(cfg, cfg.node_of(node)).items():
        try:
            e = ast.parse(txt, mode="eval").body
        except SyntaxError:
            continue
        if stable(e):
            out[txt] = val
    return out


def _safe_under_its_conditions(m: ast.AST, site: ast.AST) -> bool:
    """The edit at ``site`` does not touch the stored entry once the conditions under which it runs are taken into
    account everywhere in the function: ``out = entry.outputs if simple else entry.outputs.copy()`` followed by
    ``if not simple: out[k] = ...`` only ever edits the copy.  Only conditions that cannot change during the call
    are used (see _stable_facts); the function is specialised on them and analysed again."""
    from gv.shapes import specialise

    facts = _stable_facts(m, site)
    if not facts:
        return False
    for k_, n_ in enumerate(ast.walk(m)):
        if not hasattr(n_, "_gv_uid"):
            n_._gv_uid = (id(m), k_)
    g = specialise(m, facts)
    bad, _ = _entry_edits(g)
    uid = site._gv_uid
    twin = [n_ for n_ in ast.walk(g) if getattr(n_, "_gv_uid", None) == uid]
    return bool(twin) and cfg_of(g).has(twin[0]) and not any(getattr(n_, "_gv_uid", None) == uid for n_, _w in bad)


def check_hit_untouched(ctx: Ctx) -> None:
    """5.9: serving a hit does not edit the stored entry.

    A full cache hands out its own entry (MemoryFullCache without shared memory returns the stored dictionaries): a
    hit that converts / renames / scales values inside them changes what the next hit returns.  Tags: D = a mapping of
    the entry, C = a shallow copy of one (its values are still the stored arrays), A = a stored array.
    """
    n_sites = 0
    for rel, clsn in ((BD, "BaseDiscipline"), ("core/discipline/discipline.py", "Discipline")):
        cls = ctx.index.cls(rel, clsn)
        for mname, m in sorted(cls.methods.items()):
            reads = [n for n in walk_body(m) if isinstance(n, ast.Subscript) and isinstance(n.ctx, ast.Load) and dotted(n.value) == "self.cache"]
            if not reads:
                continue
            con = cname(rel, clsn, mname)
            bad, k_ = _entry_edits(m)
            n_sites += k_
            bad = [(n, what) for n, what in bad if not _safe_under_its_conditions(m, n)]
            for n, what in bad:
                ctx.ob("5.9-hit-untouched", con, False, f"{what}: serving a hit edits the entry kept by the cache (a full cache without shared memory returns its own dictionaries), so the next hit returns something else", node=n)
            if not bad:
                ctx.ob("5.9-hit-untouched", con, True, "", node=reads[0], stmt="the entry read from the cache is only read")
    ctx.floor("5.9-hit-untouched", 2)
    ctx.counts["5.9-sites"] = n_sites


def check_last_accessed(ctx: Ctx) -> None:
    """5.10: after the inputs of an entry have been located or created, the 'last accessed' index designates THAT entry.

    cache_outputs / cache_jacobian write into the entry designated by _last_accessed_index: every way out of
    BaseFullCache.__ensure_input_data_exists must have set it (to the matching index, or to the new one).
    """
    f = ctx.index.method(BFC, "BaseFullCache", "__ensure_input_data_exists")
    con = cname(BFC, "BaseFullCache", "__ensure_input_data_exists")
    cfg = cfg_of(f)
    sets = [s_ for s_ in stmts_of(f) if isinstance(s_, ast.Assign) and norm_stmt(s_.targets[0]) == "self._last_accessed_index.value"]
    set_nodes = {cfg.node_of(s_) for s_ in sets}
    rets = [r for r in stmts_of(f) if isinstance(r, ast.Return)]
    ctx.need(rets, "__ensure_input_data_exists: no return")
    conf = _Confirmed(f, f.args.args[1].arg)
    # the ways out with what they answer (False: found, True: created): a `return <constant>`, or the assignment of
    # the constant to the flag that a common `return flag` hands back (nothing sets the index in between)
    ways = []
    for r in rets:
        rn = cfg.node_of(r)
        if isinstance(r.value, ast.Constant) and isinstance(r.value.value, bool):
            ways.append((r, r.value.value is False))
            continue
        defs = conf.bind.get(r.value.id, []) if isinstance(r.value, ast.Name) else []
        flag = bool(defs) and all(d is not None and isinstance(d.value, ast.Constant) and isinstance(d.value.value, bool) for d in defs)
        flag = flag and cfg.must_pass(cfg.entry, {cfg.node_of(d) for d in defs}, rn)
        flag = flag and not any(sn != cfg.node_of(d) and cfg.reachable(cfg.node_of(d), sn) and cfg.reachable(sn, rn) for d in defs for sn in set_nodes)
        if flag:
            ways += [(d, d.value.value is False) for d in defs]
        else:
            ways.append((r, None))
    ctx.need(any(w[1] is True for w in ways) and any(w[1] is False for w in ways), "__ensure_input_data_exists: the found / created ways out were not recognised")
    ok = cfg.must_pass(cfg.entry, set_nodes)
    ctx.ob("5.10-last-accessed", con, ok, "a way out of the routine leaves the last-accessed index as it was: the outputs / Jacobian cached next are written into ANOTHER entry (the one accessed before), and a later hit on that entry returns them", node=f, stmt="every way out sets the last accessed index")
    for w, found in ways:
        wn = cfg.node_of(w)
        # the index in force on this way out: set on every path to it, and not set again before it
        dom = [s_ for s_ in sets if cfg.dominates(cfg.node_of(s_), wn)]
        dom = [s_ for s_ in dom if not any(o is not s_ and cfg.reachable(cfg.node_of(s_), cfg.node_of(o)) and cfg.reachable(cfg.node_of(o), wn) for o in sets)]
        ok = bool(dom) and found is not None
        if ok and found:
            # the index stored is the one whose inputs were compared equal
            ok = any(conf.holds(s_.value, cfg.node_of(s_)) for s_ in dom)
        elif ok:
            ok = any(_is_new_index(f, s_.value) for s_ in dom)
        ctx.ob("5.10-last-accessed", con, ok, ("an existing entry was found" if found else "a new entry was created") + " but the last-accessed index is not set to it on this way out: the outputs / Jacobian cached next are written into ANOTHER entry (the one accessed before), and a later hit on that entry returns them", node=w, stmt=("found" if found else "created") + ": last accessed index designates the entry")
    ctx.floor("5.10-last-accessed", 3)


def check_approximation_bypasses_tolerance(ctx: Ctx) -> None:
    """5.11: linearising by approximation evaluates the discipline at points closer to each other than a tolerance-based
    cache distinguishes: the cache in use must be made exact (tolerance 0) for the time of the approximation, else
    every perturbed point is served the nominal outputs and the Jacobian is zero (rule 16.6 of C16)."""
    from gv.props import c16
    from gv.props.c12 import _Prefixed

    c16.check_zero_tolerance(_Prefixed(ctx, "5.11-approximation/"))


def check_hash_bucket(ctx: Ctx) -> None:
    """5.12 two different inputs may share a hash (same names and bytes, other shape): the index list kept under the
    hash GROWS when a second such input is stored; overwriting it makes the first entry unreachable (the body re-runs
    for it and duplicates pile up)."""
    from gv.dataflow import SymValues
    from gv.props.shared import literal_facts

    f = ctx.index.method(BFC, "BaseFullCache", "__ensure_input_data_exists")
    con = cname(BFC, "BaseFullCache", "__ensure_input_data_exists")
    cfg = cfg_of(f)
    sv = SymValues(f)
    stores = [s_ for s_ in stmts_of(f) if isinstance(s_, ast.Assign) and isinstance(s_.targets[0], ast.Subscript) and norm_stmt(s_.targets[0].value) == "self._hashes_to_indices"]
    ctx.need(stores, "__ensure_input_data_exists: no store into _hashes_to_indices")
    for st in stores:
        key = norm_stmt(st.targets[0].slice)
        keys = {key, *sv.texts(st.targets[0].slice)}
        bucket = tuple(f"self._hashes_to_indices.get({k_}" for k_ in keys) + tuple(f"self._hashes_to_indices[{k_}]" for k_ in keys)
        # the store happens when the hash is known to be new ...
        fresh = False
        for k_, v_ in literal_facts(cfg, cfg.node_of(st)).items():
            try:
                e = ast.parse(k_, mode="eval").body
            except SyntaxError:
                continue
            left = e.left if isinstance(e, ast.Compare) and len(e.ops) == 1 and isinstance(e.ops[0], (ast.Is, ast.IsNot)) and isinstance(e.comparators[0], ast.Constant) and e.comparators[0].value is None else None
            if left is not None and isinstance(left, ast.Name):
                defs = [d for d in stmts_of(f) if isinstance(d, ast.Assign) and dotted(d.targets[0]) == left.id]
                is_bucket = bool(defs) and all(any(t.startswith(b) for b in bucket for t in sv.texts(d.value)) for d in defs)
                if is_bucket and ((isinstance(e.ops[0], ast.Is) and v_) or (isinstance(e.ops[0], ast.IsNot) and not v_)):
                    fresh = True
            if (k_.startswith(f"{key} not in self._hashes_to_indices") and v_) or (k_.startswith(f"{key} in self._hashes_to_indices") and not v_):
                fresh = True
        # ... or the new list is made from the list already there
        keeps = all(any(b in t for b in bucket) for t in sv.texts(st.value))
        ctx.ob("5.12-hash-bucket", con, fresh or keeps, "the index list of a hash that may already have entries is replaced by a new one-element list: the entries stored before under the same hash (same bytes, other shapes) can no longer be found, the discipline runs again for them and duplicates accumulate", node=st, stmt="the bucket of a known hash grows" if not fresh else "the bucket of a new hash is created")
    ctx.floor("5.12-hash-bucket", 2)


def check_tolerance_propagates(ctx: Ctx) -> None:
    """5.13 setting the tolerance of a cache always runs the post-set hook: a process discipline uses it to push the
    tolerance down to the caches of its sub-disciplines (the approximation of a Jacobian relies on `tolerance = 0`
    reaching them even when the process's own tolerance already is 0)."""
    cls = ctx.index.cls("caches/base_cache.py", "BaseCache")
    setter = next((st for st in cls.node.body if isinstance(st, ast.FunctionDef) and st.name == "tolerance" and any(isinstance(d, ast.Attribute) and d.attr == "setter" for d in st.decorator_list)), None)
    ctx.need(setter is not None, "BaseCache.tolerance setter not found")
    con = cname("caches/base_cache.py", "BaseCache", "tolerance")
    cfg = cfg_of(setter)
    hooks = [c for c in walk_body(setter) if isinstance(c, ast.Call) and norm_stmt(c.func) == "self._post_set_tolerance"]
    stores = [st for st in stmts_of(setter) if isinstance(st, ast.Assign) and norm_stmt(st.targets[0]) == "self._tolerance"]
    ok = bool(hooks) and bool(stores) and cfg.escape_path(cfg.entry, {cfg.node_of(h) for h in hooks}) is None
    ok = ok and all(any(cfg.reachable(cfg.node_of(st), cfg.node_of(h)) for h in hooks) for st in stores)
    ctx.ob("5.13-tolerance-propagates", con, bool(ok), "every normal way out of the tolerance setter passes self._post_set_tolerance(), after the value is stored: an early return (e.g. 'value unchanged') leaves the sub-disciplines' caches with their own tolerance, and perturbed points are served from them", node=(hooks or [setter])[0], stmt="the setter always runs the post-set hook")


def check_hit_inputs(ctx: Ctx) -> None:
    """5.14 on a hit the discipline's data are the inputs it was CALLED with plus the cached outputs: with a tolerance the
    cached entry belongs to another (close) input, and a chain hands the returned data to the next discipline."""
    from gv.dataflow import SymValues

    f = ctx.index.method(BD, "BaseDiscipline", "__can_load_cache")
    con = cname(BD, "BaseDiscipline", "__can_load_cache")
    param = [a.arg for a in f.args.args if a.arg != "self"][0]
    cfg = cfg_of(f)
    sets = [c for c in walk_body(f) if isinstance(c, ast.Call) and norm_stmt(c.func) == "self._set_data_from_cache" and c.args]
    ok = bool(sets)
    sv = SymValues(f, max_len=600)
    for c in sets:
        for alt in sv.exprs(c.args[0]):
            ok = ok and isinstance(alt, ast.Call) and dotted(alt.func) == "CacheEntry" and alt.args and norm_stmt(alt.args[0]) == param
    ctx.ob("5.14-hit-inputs", con, bool(ok), f"on every branch the entry loaded into the discipline is CacheEntry({param}, <cached outputs>, ...): with a tolerance-based hit the inputs of the cached entry are those of the earlier, close-by call; putting them back makes the discipline (and the chain it belongs to) return and forward an input value nobody passed", node=(sets or [f])[0], stmt="the data of a hit are the caller's inputs + the cached outputs")


def run(ctx: Ctx) -> None:
    check_approximation_bypasses_tolerance(ctx)
    check_execute(ctx)
    check_last_accessed(ctx)
    check_hash_bucket(ctx)
    check_hit_inputs(ctx)
    check_tolerance_propagates(ctx)
    check_hit_untouched(ctx)
    check_copies(ctx)
    check_simple_cache(ctx)
    check_full_cache_compare(ctx)
    check_jacobian_flag(ctx)
    lock_discipline(ctx, "5.6-lock")
    check_hdf5_index(ctx)
    # an entry served from the HDF5 cache is what was stored only if the file tables are read back as written
    # (names, groups, sparse layout): the writer/reader agreement of C11 is part of "a hit returns the stored entry"
    from gv.props import c11
    from gv.props.c12 import _Prefixed

    c11.check_cache_tables(_Prefixed(ctx, "5.8-stored-entry/"))


# ---------------------------------------------------------------------------
WITNESSES = [
    {"name": "seeded-C05-12", "file": "caches/base_full_cache.py", "old": "\nfrom numpy import append\nfrom numpy import array\nfrom numpy import concatenate\nfrom numpy import vstack\n\nfrom gemseo.caches.base_cache import BaseCache\nfrom gemseo.caches.cache_entry import CacheEntry\nfrom gemseo.caches.utils import hash_data\nfrom gemseo.utils.data_conversion import flatten_nested_bilevel_dict\nfrom gemseo.utils.ggobi_export import save_data_arrays_to_xml\nfrom gemseo.utils.locks import synchronized\nfrom gemseo.utils.locks import synchronized_hashes\nfrom gemseo.utils.multiprocessing.manager import get_multi_processing_manager\n\nif TYPE_CHECKING:\n    from collections.abc import Iterable\n    from collections.abc import Iterator\n    from multiprocessing.managers import DictProxy\n    from multiprocessing.sharedctypes import Synchronized\n    from multiprocessing.synchronize import RLock as RLockType\n\n    from gemseo.typing import IntegerArray\n    from gemseo.typing import JacobianData\n    from gemseo.typing import StrKeyMapping\n\n\nclass BaseFullCache(BaseCache):\n    \"\"\"Base cache to store all the data, either in memory or on the disk.\n\n    See Also:\n        :class:`.MemoryFullCache`: store all the data in memory.\n        :class:`.HDF5Cache`: store all the data in an HDF5 file.\n    \"\"\"\n\n    _JACOBIAN_SEPARATOR: ClassVar[str] = \"!d$_$d!\"\n    \"\"\"The string separating the input and output names in a derivative name.\n\n    E.g. ``\"output!d$_$d!input\"``.\n    \"\"\"\n\n    lock: RLockType\n    \"\"\"The lock used for both multithreading and multiprocessing.\n\n    Ensure safe multiprocessing and multithreading concurrent access to the cache.\n    \"\"\"\n\n    lock_hashes: RLockType\n    \"\"\"The lock used for both multithreading and multiprocessing.\n\n    Ensure safe multiprocessing and multithreading concurrent access to the cache.\n    \"\"\"\n\n    _hashes_to_indices: DictProxy[int, IntegerArray]\n    \"\"\"The indices associated with the hashes.\"\"\"\n\n    _max_index: Synchronized[int]\n    \"\"\"The maximum index of the data stored in the cache.\"\"\"\n\n    _last_accessed_index: Synchronized[int]\n    \"\"\"The index of the last accessed data.\"\"\"\n\n    def __init__(  # noqa: D107\n        self,\n        tolerance: float = 0.0,\n        name: str = \"\",\n    ) -> None:\n        super().__init__(tolerance, name)\n        self.lock_hashes = RLock()\n        self._hashes_to_indices = get_multi_processing_manager().dict()\n        self._max_index = cast(\"Synchronized[int]\", Value(\"i\", 0))\n        self._last_accessed_index = cast(\"Synchronized[int]\", Value(\"i\", 0))\n        self.lock = self._set_lock()\n\n    @abstractmethod\n    def _set_lock(self) -> RLockType:\n        \"\"\"Set a lock for multithreading.\n\n        Either from an external object or internally by using RLock().\n        \"\"\"\n\n    def __ensure_input_data_exists(\n        self,\n        input_data: StrKeyMapping,\n    ) -> bool:\n        \"\"\"Ensure ``input_data`` associated with ``data_hash`` exists.\n\n        If ``input_data`` is cached,\n        return ``True``.\n        If ``data_hash`` is missing,\n        store this hash and index ``input_data`` before caching later at this index.\n        If ``data_hash`` exists but ``input_data`` is not cached,\n        add ``data_hash`` and then index ``input_data``.\n\n        Args:\n            input_data: The input data to cache.\n\n        Returns:\n            Whether ``input_data`` was missing.\n        \"\"\"\n        data_hash = hash_data(input_data)\n\n        # Check if there is an entry with this hash in the cache.\n        indices = self._hashes_to_indices.get(data_hash)\n\n        # If no, initialize a new entry.\n        if indices is None:\n            self._max_index.value += 1\n            self._last_accessed_index.value = self._max_index.value\n            self._hashes_to_indices[data_hash] = array([self._max_index.value])\n            self._initialize_entry(self._max_index.value)\n            return True\n\n        # If yes, look if there is a corresponding input data equal to ``input_data``.\n        for index in indices:\n            if self.compare_dict_of_arrays(\n                input_data, self._read_data(index, self.Group.INPUTS)\n            ):\n                # The input data is already cached => we don't store it again.\n                self._last_accessed_index.value = index\n                return False\n\n        # If there is no an input data equal ``input_data``,\n        # update the indices related to the ``data_hash``.\n        self._max_index.value += 1\n        self._last_accessed_index.value = self._max_index.value\n        self._hashes_to_indices[data_hash] = append(indices, self._max_index.value)\n        self._initialize_entry(self._max_index.value)\n", "new": "\nfrom numpy import array\nfrom numpy import concatenate\nfrom numpy import vstack\n\nfrom gemseo.caches.base_cache import BaseCache\nfrom gemseo.caches.cache_entry import CacheEntry\nfrom gemseo.caches.utils import hash_data\nfrom gemseo.utils.data_conversion import flatten_nested_bilevel_dict\nfrom gemseo.utils.ggobi_export import save_data_arrays_to_xml\nfrom gemseo.utils.locks import synchronized\nfrom gemseo.utils.locks import synchronized_hashes\nfrom gemseo.utils.multiprocessing.manager import get_multi_processing_manager\n\nif TYPE_CHECKING:\n    from collections.abc import Iterable\n    from collections.abc import Iterator\n    from multiprocessing.managers import DictProxy\n    from multiprocessing.sharedctypes import Synchronized\n    from multiprocessing.synchronize import RLock as RLockType\n\n    from gemseo.typing import IntegerArray\n    from gemseo.typing import JacobianData\n    from gemseo.typing import StrKeyMapping\n\n\nclass BaseFullCache(BaseCache):\n    \"\"\"Base cache to store all the data, either in memory or on the disk.\n\n    See Also:\n        :class:`.MemoryFullCache`: store all the data in memory.\n        :class:`.HDF5Cache`: store all the data in an HDF5 file.\n    \"\"\"\n\n    _JACOBIAN_SEPARATOR: ClassVar[str] = \"!d$_$d!\"\n    \"\"\"The string separating the input and output names in a derivative name.\n\n    E.g. ``\"output!d$_$d!input\"``.\n    \"\"\"\n\n    lock: RLockType\n    \"\"\"The lock used for both multithreading and multiprocessing.\n\n    Ensure safe multiprocessing and multithreading concurrent access to the cache.\n    \"\"\"\n\n    lock_hashes: RLockType\n    \"\"\"The lock used for both multithreading and multiprocessing.\n\n    Ensure safe multiprocessing and multithreading concurrent access to the cache.\n    \"\"\"\n\n    _hashes_to_indices: DictProxy[int, IntegerArray]\n    \"\"\"The indices associated with the hashes.\"\"\"\n\n    _max_index: Synchronized[int]\n    \"\"\"The maximum index of the data stored in the cache.\"\"\"\n\n    _last_accessed_index: Synchronized[int]\n    \"\"\"The index of the last accessed data.\"\"\"\n\n    def __init__(  # noqa: D107\n        self,\n        tolerance: float = 0.0,\n        name: str = \"\",\n    ) -> None:\n        super().__init__(tolerance, name)\n        self.lock_hashes = RLock()\n        self._hashes_to_indices = get_multi_processing_manager().dict()\n        self._max_index = cast(\"Synchronized[int]\", Value(\"i\", 0))\n        self._last_accessed_index = cast(\"Synchronized[int]\", Value(\"i\", 0))\n        self.lock = self._set_lock()\n\n    @abstractmethod\n    def _set_lock(self) -> RLockType:\n        \"\"\"Set a lock for multithreading.\n\n        Either from an external object or internally by using RLock().\n        \"\"\"\n\n    def __ensure_input_data_exists(\n        self,\n        input_data: StrKeyMapping,\n    ) -> bool:\n        \"\"\"Ensure ``input_data`` associated with ``data_hash`` exists.\n\n        If ``input_data`` is cached,\n        return ``True``.\n        If ``data_hash`` is missing,\n        store this hash and index ``input_data`` before caching later at this index.\n        If ``data_hash`` exists but ``input_data`` is not cached,\n        add ``data_hash`` and then index ``input_data``.\n\n        Args:\n            input_data: The input data to cache.\n\n        Returns:\n            Whether ``input_data`` was missing.\n        \"\"\"\n        data_hash = hash_data(input_data)\n\n        # Look if there is an entry with this hash in the cache\n        # whose input data is equal to ``input_data``.\n        for index in self._hashes_to_indices.get(data_hash, ()):\n            if self.compare_dict_of_arrays(\n                input_data, self._read_data(index, self.Group.INPUTS)\n            ):\n                # The input data is already cached => we don't store it again.\n                self._last_accessed_index.value = index\n                return False\n\n        # Otherwise, initialize a new entry and index it with ``data_hash``.\n        self._max_index.value += 1\n        self._last_accessed_index.value = self._max_index.value\n        self._hashes_to_indices[data_hash] = array([self._max_index.value])\n        self._initialize_entry(self._max_index.value)\n", "expect": "5.12", "note": "Refactoring of BaseFullCache.__ensure_input_data_exists merges the 'new hash' an"},
    {"name": "seeded-C05-11", "file": "caches/base_cache.py", "old": "            raise ValueError(msg)\n        self._tolerance = value\n", "new": "            raise ValueError(msg)\n        if value == self._tolerance:\n            # Nothing changes: no need to notify the processes.\n            return\n        self._tolerance = value\n", "expect": "5.13", "note": "Cache tolerance setter skips the post-set hook when the value is unchanged, so a"},
    {"name": "hash-bucket-overwritten", "file": BFC, "old": "        self._hashes_to_indices[data_hash] = append(indices, self._max_index.value)", "new": "        self._hashes_to_indices[data_hash] = array([self._max_index.value])", "expect": "5.12"},
    {"name": "seeded-C05-9", "file": "utils/derivatives/derivatives_approx.py", "old": "        self.discipline = discipline\n        self.approx_method = approx_method\n        self.step = step\n        self.generator = self.generator_class(discipline)\n        self.func = None\n        self.approximator = None\n        self.auto_steps = {}\n        self.__par_args = {\n            \"n_processes\": n_processes,\n            \"use_threading\": use_threading,\n            \"wait_time_between_fork\": wait_time_between_fork,\n        }\n        self.__parallel = parallel\n\n    def _create_approximator(\n        self,\n        output_names: Sequence[str],\n        input_names: Sequence[str],\n    ) -> None:\n        \"\"\"Create the Jacobian approximation class.\n\n        Args:\n            input_names: The names of the inputs used to differentiate the outputs.\n            output_names: The names of the outputs to be differentiated.\n\n        Raises:\n            ValueError: If the Jacobian approximation method is unknown.\n        \"\"\"\n        self.func = self.generator.get_function(input_names, output_names)\n        self.approximator = GradientApproximatorFactory().create(\n            self.approx_method,\n            self.func.evaluate,\n            step=self.step,\n            parallel=self.__parallel,\n            **self.__par_args,\n        )\n\n    def auto_set_step(\n        self,\n        output_names: Sequence[str],\n        input_names: Sequence[str],\n        print_errors: bool = True,\n        numerical_error: float = EPSILON,\n    ) -> tuple[ndarray, dict[str, ndarray]]:\n        r\"\"\"Compute the optimal step.\n\n        Require a first evaluation of the perturbed functions values.\n\n        The optimal step is reached when the truncation error\n        (cut in the Taylor development),\n        and the numerical cancellation errors\n        (round-off when doing :math:`f(x+step)-f(x))` are equal.\n\n        Args:\n            input_names: The names of the inputs used to differentiate the outputs.\n            output_names: The names of the outputs to be differentiated.\n            print_errors: Whether to log the cancellation\n                and truncation error estimates.\n            numerical_error: The numerical error\n                associated to the calculation of :math:`f`.\n                By default, Machine epsilon (appx 1e-16),\n                but can be higher.\n                when the calculation of :math:`f` requires a numerical resolution.\n\n        See Also:\n            https://en.wikipedia.org/wiki/Numerical_differentiation\n            and *Numerical Algorithms and Digital Representation*,\n            Knut Morken, Chapter 11, \"Numerical Differentiation\"\n\n        Returns:\n            The Jacobian of the function.\n        \"\"\"\n        self._create_approximator(output_names, input_names)\n\n        x_vect = self._prepare_xvect(\n            input_names, self.discipline.io.input_grammar.defaults\n        )\n        with self.__set_zero_cache_tol():\n            steps_opt, errors = self.approximator.compute_optimal_step(\n                x_vect, numerical_error=numerical_error\n            )\n\n        if print_errors:\n            LOGGER.info(\n                \"Set optimal step for finite differences. \"\n                \"Estimated approximation errors =\"\n            )\n            LOGGER.info(errors)\n\n        data = self.discipline.io.input_grammar.defaults or self.discipline.io.data\n        names_to_slices = (\n            self.discipline.io.input_grammar.data_converter.compute_names_to_slices(\n                input_names,\n                data,\n            )[0]\n        )\n\n        self.auto_steps = (\n            self.discipline.io.input_grammar.data_converter.convert_array_to_data(\n                steps_opt, names_to_slices\n            )\n        )\n\n        return errors, self.auto_steps\n\n    @contextmanager\n    def __set_zero_cache_tol(self) -> None:\n        \"\"\"A context manager to temporary set the discipline cache tolerance to zero.\"\"\"\n        if self.discipline.cache is not None:\n            old_cache_tol = self.discipline.cache.tolerance\n            self.discipline.cache.tolerance = 0.0\n            yield\n            self.discipline.cache.tolerance = old_cache_tol\n        else:\n", "new": "        self.discipline = discipline\n        self.__cache = discipline.cache\n        self.approx_method = approx_method\n        self.step = step\n        self.generator = self.generator_class(discipline)\n        self.func = None\n        self.approximator = None\n        self.auto_steps = {}\n        self.__par_args = {\n            \"n_processes\": n_processes,\n            \"use_threading\": use_threading,\n            \"wait_time_between_fork\": wait_time_between_fork,\n        }\n        self.__parallel = parallel\n\n    def _create_approximator(\n        self,\n        output_names: Sequence[str],\n        input_names: Sequence[str],\n    ) -> None:\n        \"\"\"Create the Jacobian approximation class.\n\n        Args:\n            input_names: The names of the inputs used to differentiate the outputs.\n            output_names: The names of the outputs to be differentiated.\n\n        Raises:\n            ValueError: If the Jacobian approximation method is unknown.\n        \"\"\"\n        self.func = self.generator.get_function(input_names, output_names)\n        self.approximator = GradientApproximatorFactory().create(\n            self.approx_method,\n            self.func.evaluate,\n            step=self.step,\n            parallel=self.__parallel,\n            **self.__par_args,\n        )\n\n    def auto_set_step(\n        self,\n        output_names: Sequence[str],\n        input_names: Sequence[str],\n        print_errors: bool = True,\n        numerical_error: float = EPSILON,\n    ) -> tuple[ndarray, dict[str, ndarray]]:\n        r\"\"\"Compute the optimal step.\n\n        Require a first evaluation of the perturbed functions values.\n\n        The optimal step is reached when the truncation error\n        (cut in the Taylor development),\n        and the numerical cancellation errors\n        (round-off when doing :math:`f(x+step)-f(x))` are equal.\n\n        Args:\n            input_names: The names of the inputs used to differentiate the outputs.\n            output_names: The names of the outputs to be differentiated.\n            print_errors: Whether to log the cancellation\n                and truncation error estimates.\n            numerical_error: The numerical error\n                associated to the calculation of :math:`f`.\n                By default, Machine epsilon (appx 1e-16),\n                but can be higher.\n                when the calculation of :math:`f` requires a numerical resolution.\n\n        See Also:\n            https://en.wikipedia.org/wiki/Numerical_differentiation\n            and *Numerical Algorithms and Digital Representation*,\n            Knut Morken, Chapter 11, \"Numerical Differentiation\"\n\n        Returns:\n            The Jacobian of the function.\n        \"\"\"\n        self._create_approximator(output_names, input_names)\n\n        x_vect = self._prepare_xvect(\n            input_names, self.discipline.io.input_grammar.defaults\n        )\n        with self.__set_zero_cache_tol():\n            steps_opt, errors = self.approximator.compute_optimal_step(\n                x_vect, numerical_error=numerical_error\n            )\n\n        if print_errors:\n            LOGGER.info(\n                \"Set optimal step for finite differences. \"\n                \"Estimated approximation errors =\"\n            )\n            LOGGER.info(errors)\n\n        data = self.discipline.io.input_grammar.defaults or self.discipline.io.data\n        names_to_slices = (\n            self.discipline.io.input_grammar.data_converter.compute_names_to_slices(\n                input_names,\n                data,\n            )[0]\n        )\n\n        self.auto_steps = (\n            self.discipline.io.input_grammar.data_converter.convert_array_to_data(\n                steps_opt, names_to_slices\n            )\n        )\n\n        return errors, self.auto_steps\n\n    @contextmanager\n    def __set_zero_cache_tol(self) -> None:\n        \"\"\"A context manager to temporary set the discipline cache tolerance to zero.\"\"\"\n        cache = self.__cache\n        if cache is not None:\n            old_cache_tol = cache.tolerance\n            cache.tolerance = 0.0\n            yield\n            cache.tolerance = old_cache_tol\n        else:\n", "expect": "5.11", "note": "DisciplineJacApprox zeroes the tolerance of the cache captured at construction, "},
    {"name": "hit-converts-inside-the-stored-entry", "file": BD, "old": "            cache_output = cache_entry.outputs.copy()\n", "new": "            cache_output = cache_entry.outputs\n", "expect": "5.9"},
    {"name": "simple-cache-keeps-the-callers-jacobian", "file": "caches/simple_cache.py", "old": "        self.__inputs = deepcopy_dict_of_arrays(input_data)\n        self.__jacobian = deepcopy_dict_of_arrays(jacobian_data)", "new": "        self.__inputs = deepcopy_dict_of_arrays(input_data)\n        self.__jacobian = jacobian_data", "expect": "5.2"},
    {"name": "simple-cache-keeps-the-callers-jacobian", "file": "caches/simple_cache.py", "old": "        self.__inputs = deepcopy_dict_of_arrays(input_data)\n        self.__jacobian = deepcopy_dict_of_arrays(jacobian_data)", "new": "        self.__inputs = deepcopy_dict_of_arrays(input_data)\n        self.__jacobian = jacobian_data", "expect": "5.2"},
    {"name": "lookup-after-run", "file": BD, "old": "        if self.cache is not None:\n            if self.__can_load_cache(input_data):\n                self.io.output_grammar.validate(self.io.data)\n                return self.io.data\n\n            # Keep a pristine copy of the input data before it is eventually changed.\n            input_data_for_cache = self.__create_input_data_for_cache(input_data)\n", "new": "        if self.cache is not None:\n            # Keep a pristine copy of the input data before it is eventually changed.\n            input_data_for_cache = self.__create_input_data_for_cache(input_data)\n", "expect": "5.1"},
    {"name": "hit-still-runs", "file": BD, "old": "            if self.__can_load_cache(input_data):\n                self.io.output_grammar.validate(self.io.data)\n                return self.io.data\n", "new": "            if self.__can_load_cache(input_data):\n                self.io.output_grammar.validate(self.io.data)\n", "expect": "5.1"},
    {"name": "store-live-inputs", "file": BD, "old": "            self._store_cache(input_data_for_cache)", "new": "            self._store_cache(self.io.data)", "expect": "5.1"},
    {"name": "pristine-copy-after-initialize", "file": BD, "old": "            # Keep a pristine copy of the input data before it is eventually changed.\n            input_data_for_cache = self.__create_input_data_for_cache(input_data)\n\n        self.io.initialize(input_data, self.validate_input_data)\n", "new": "        self.io.initialize(input_data, self.validate_input_data)\n        if self.cache is not None:\n            input_data_for_cache = self.__create_input_data_for_cache(input_data)\n", "expect": "5.1"},
    {"name": "store-only-when-validated", "file": BD, "old": "        if self.cache is not None:\n            self._store_cache(input_data_for_cache)", "new": "        if self.cache is not None and self.validate_output_data:\n            self._store_cache(input_data_for_cache)", "expect": "5.1"},
    {"name": "helper-returns-original", "file": BD, "old": "                input_data_[input_name] = to_array(input_name, value)\n\n        return input_data_", "new": "                input_data_[input_name] = to_array(input_name, value)\n\n        return input_data", "expect": "5.1"},
    {"name": "no-deepcopy-of-coupled", "file": BD, "old": "                input_data_[auto_coupled_name] = deepcopy(value)", "new": "                input_data_[auto_coupled_name] = value", "expect": "5.1"},
    {"name": "simple-cache-shallow-outputs", "file": SCF, "old": "        self.__inputs = deepcopy_dict_of_arrays(input_data)\n        self.__outputs = deepcopy_dict_of_arrays(output_data)\n        self.__jacobian = {}", "new": "        self.__inputs = deepcopy_dict_of_arrays(input_data)\n        self.__outputs = dict(output_data)\n        self.__jacobian = {}", "expect": "5.2"},
    {"name": "simple-cache-alias-inputs", "file": SCF, "old": "        self.__inputs = deepcopy_dict_of_arrays(input_data)\n        self.__jacobian = jacobian_data", "new": "        self.__inputs = input_data\n        self.__jacobian = jacobian_data", "expect": "5.2"},
    {"name": "memory-cache-shallow-copy", "file": MFC, "old": "data[group] = deepcopy_dict_of_arrays(values)", "new": "data[group] = dict(values)", "expect": "5.2"},
    {"name": "new-entry-keeps-jacobian", "file": SCF, "old": "        self.__outputs = deepcopy_dict_of_arrays(output_data)\n        self.__jacobian = {}\n", "new": "        self.__outputs = deepcopy_dict_of_arrays(output_data)\n", "expect": "5.3"},
    {"name": "new-jacobian-entry-keeps-outputs", "file": SCF, "old": "        self.__jacobian = jacobian_data\n        self.__outputs = {}", "new": "        self.__jacobian = jacobian_data", "expect": "5.3"},
    {"name": "kept-entry-replaces-outputs", "file": SCF, "old": "        if self.__is_cached(input_data):\n            if not self.__outputs:\n                self.__outputs = deepcopy_dict_of_arrays(output_data)\n            return", "new": "        if self.__is_cached(input_data):\n            self.__outputs = deepcopy_dict_of_arrays(output_data)\n            return", "expect": "5.3"},
    {"name": "simple-cache-serves-without-compare", "file": SCF, "old": "        if not self.__is_cached(input_data):\n            return CacheEntry(input_data, {}, {})\n        return self.last_entry", "new": "        if not self.__inputs:\n            return CacheEntry(input_data, {}, {})\n        return self.last_entry", "expect": "5.4"},
    {"name": "hash-match-not-compared", "file": BFC, "old": "        for index in indices:\n            if self.compare_dict_of_arrays(\n                input_data, self._read_data(index, self.Group.INPUTS)\n            ):\n                output_data = self._read_data(index, self.Group.OUTPUTS)", "new": "        for index in indices:\n            if True:\n                output_data = self._read_data(index, self.Group.OUTPUTS)", "expect": "5.4"},
    {"name": "compare-other-index", "file": BFC, "old": "            if self.compare_dict_of_arrays(\n                input_data, self._read_data(index, self.Group.INPUTS)\n            ):\n                output_data = self._read_data(index, self.Group.OUTPUTS)", "new": "            if self.compare_dict_of_arrays(\n                input_data, self._read_data(indices[0], self.Group.INPUTS)\n            ):\n                output_data = self._read_data(index, self.Group.OUTPUTS)", "expect": "5.4"},
    {"name": "tolerance-not-passed", "file": BFC, "old": "                if self.compare_dict_of_arrays(\n                    input_data, cached_input_data, self._tolerance\n                ):", "new": "                if self.compare_dict_of_arrays(input_data, cached_input_data):", "expect": "5.4"},
    {"name": "ensure-exists-trusts-hash", "file": BFC, "old": "        for index in indices:\n            if self.compare_dict_of_arrays(\n                input_data, self._read_data(index, self.Group.INPUTS)\n            ):\n                # The input data is already cached => we don't store it again.", "new": "        for index in indices:\n            if index:\n                # The input data is already cached => we don't store it again.", "expect": "5.4"},
    {"name": "inputs-written-at-last-accessed", "file": BFC, "old": "self._write_data(input_data, self.Group.INPUTS, self._max_index.value)", "new": "self._write_data(input_data, self.Group.OUTPUTS, self._max_index.value)", "expect": "5.7"},
    {"name": "no-flag-reset", "file": DI, "old": "        self._has_jacobian = False\n        return super().execute(input_data)", "new": "        return super().execute(input_data)", "expect": "5.5"},
    {"name": "held-jacobian-without-flag", "file": DI, "old": "        if self._has_jacobian and self.jac:", "new": "        if self.jac:", "expect": "5.5"},
    {"name": "jacobian-cached-with-live-data", "file": DI, "old": "            self.cache.cache_jacobian(input_data, self.jac)\n\n        return self.jac\n\n    def __compute_jacobian", "new": "            self.cache.cache_jacobian(self.io.data, self.jac)\n\n        return self.jac\n\n    def __compute_jacobian", "expect": "5.5"},
    {"name": "restore-keeps-old-jacobian", "file": DI, "old": "            self.jac = cache_entry.jacobian\n        else:\n            # TODO: This is required to pass all the tests instead of self.jac.clear(),\n            #  there is an implicit side effect in how this attr is used,\n            #  this should be made explicit.\n            self.jac = {}", "new": "            self.jac = cache_entry.jacobian", "expect": "5.5"},
    {"name": "unlocked-cache_outputs", "file": BFC, "old": "    @synchronized\n    def cache_outputs(", "new": "    def cache_outputs(", "expect": "5.6"},
    {"name": "unlocked-getitem", "file": BFC, "old": "    @synchronized\n    def __getitem__(", "new": "    def __getitem__(", "expect": "5.6"},
    {"name": "decorator-does-not-lock", "file": "utils/locks.py", "old": "        with args[0].lock:\n            return wrapped(*args, **kwargs)", "new": "        return wrapped(*args, **kwargs)", "expect": "5.6"},
    {"name": "hdf5-no-index-on-open", "file": HFC, "old": "        super().__init__(tolerance, name or hdf_node_path)\n        self._read_hashes()", "new": "        super().__init__(tolerance, name or hdf_node_path)", "expect": "5.7"},
    {"name": "hdf5-max-index-not-restored", "file": HFC, "old": "        self._last_accessed_index.value = max_index\n        self._max_index.value = max_index", "new": "        self._last_accessed_index.value = max_index", "expect": "5.7"},
]
TWINS = [
    {"name": "cache-test-truthiness", "file": BD, "old": "        if self.cache is not None:\n            self._store_cache(input_data_for_cache)", "new": "        if self.cache is not None:\n            self._store_cache(input_data_for_cache)\n        else:\n            pass"},
    {"name": "deepcopy-instead-of-helper", "file": SCF, "old": "        self.__inputs = deepcopy_dict_of_arrays(input_data)\n        self.__jacobian = jacobian_data", "new": "        self.__inputs = deepcopy(input_data)\n        self.__jacobian = jacobian_data"},
    {"name": "compare-into-local", "file": BFC, "old": "            if self.compare_dict_of_arrays(\n                input_data, self._read_data(index, self.Group.INPUTS)\n            ):\n                output_data = self._read_data(index, self.Group.OUTPUTS)", "new": "            cached_inputs = self._read_data(index, self.Group.INPUTS)\n            if self.compare_dict_of_arrays(input_data, cached_inputs):\n                output_data = self._read_data(index, self.Group.OUTPUTS)"},
]
