"""C15 -- grammars stay well-formed under edits and validate their current definition."""

from __future__ import annotations

import ast

from gv import rules
from gv.astutil import as_update
from gv.astutil import dotted
from gv.astutil import last_attr
from gv.astutil import const_value
from gv.astutil import mangle
from gv.astutil import names_in
from gv.astutil import norm_stmt
from gv.astutil import stmts_of
from gv.astutil import walk_body
from gv.cfg import cfg_of
from gv.props.shared import unfolded
from gv.effects import writes_in
from gv.props import describe
from gv.props.shared import branch_conditions
from gv.props.shared import conj_literals
from gv.props.shared import literal_facts
from gv.report import Ctx
from gv.report import cname

BG = "core/grammars/base_grammar.py"
JG = "core/grammars/json_grammar.py"
PG = "core/grammars/pydantic_grammar.py"
SG = "core/grammars/simple_grammar.py"
RN = "core/grammars/required_names.py"
DF = "core/grammars/defaults.py"

describe(
    "C15",
    explanation=(
        "Equivalence with a reference JSON-schema validator and JSON/simple agreement are NOT decided. Decided: "
        "the derived artefacts of a grammar never outlive an edit (every mutation of the JSON schema builder is "
        "followed by __init_dependencies(), every mutation of the pydantic model fields by the rebuild flag, and "
        "the model is rebuilt before every use); the validator is compiled only when absent; required names and "
        "defaults follow every structural edit of BaseGrammar; only existing names can become required or get a "
        "default; the missing-required test precedes and short-circuits type validation; read-only queries write "
        "no grammar state (lazy caches and the paired required-names window excepted)."
    ),
    decided=["15.1 JSON validator/schema invalidation", "15.1b pydantic model rebuild", "15.2 required names and defaults follow edits", "15.3 only existing names", "15.4 validation order", "15.5 queries do not edit", "15.6 a copy owns its elements", "15.8 the required set of the schema builder is empty between calls", "15.11 rename hooks move the element", "15.8 also for the builder of a copy"],
    not_decided=["equivalence with a reference JSON-schema validator", "agreement of JSON and simple grammars on common definitions"],
    trusted=["fastjsonschema / pydantic validate what their compiled schema says"],
)

BUILDER = "__schema_builder"
BUILDER_MUTATORS = {"add_schema", "add_object", "pop", "popitem", "clear", "update", "setdefault"}
EXEMPT_SUB = {"required"}  # synchronised separately (paired window / explicit clear)


def _alternatives(f: ast.AST, e: ast.AST, facts: dict[str, bool] | None = None) -> list[ast.AST]:
    """The values ``e`` can have in ``f``: locals replaced by their definitions, conditional expressions split."""
    try:
        alts = unfolded(f, e, facts) or [e]
    except Exception:  # noqa: BLE001 - the node is not part of the CFG (e.g. inside a comprehension)
        alts = [e]
    out: list[ast.AST] = []

    def split(a: ast.AST) -> None:
        if isinstance(a, ast.IfExp):
            known = (facts or {}).get(norm_stmt(a.test))
            if known is not False:
                split(a.body)
            if known is not True:
                split(a.orelse)
        else:
            out.append(a)

    for a in alts:
        split(a)
    return out


def _objects(f: ast.AST, name: ast.Name, facts: dict[str, bool] | None = None) -> list[ast.AST]:
    """The objects the local ``name`` (a Name node read in ``f``) can denote where it is read: the values of the
    definitions that reach the statement (each unfolded where it is made), the name itself when it can still be a
    parameter.  An edit in place of the local between the definition and the read (``del b[k]``, ``b.add(x)``) does
    not change WHICH object it is, which is what an ownership / aliasing rule asks."""
    cfg = cfg_of(f)
    if not cfg.has(name):
        return [name]
    here = cfg.node_of(name)
    defs_ = {cfg.node_of(d): d for d in stmts_of(f) if isinstance(d, ast.Assign) and len(d.targets) == 1 and dotted(d.targets[0]) == name.id and cfg.has(d)}
    others = [x for x in ast.walk(f) if isinstance(x, ast.Name) and x.id == name.id and isinstance(x.ctx, (ast.Store, ast.Del)) and not any(x is d.targets[0] for d in defs_.values())]
    if others:
        return [name]  # bound by something else than a plain assignment (loop variable, with ... as, augmented)
    out: list[ast.AST] = []
    for n_, d in defs_.items():
        if n_ == here:  # the read is in the definition itself (`b = deepcopy(b)`): reached only around a loop
            reaches = any(cfg.path(sx, here, avoid=set(defs_)) is not None for sx in cfg.g.successors(n_))
        else:
            reaches = cfg.path(n_, here, avoid=set(defs_) - {n_}) is not None
        if reaches:
            out += _alternatives(f, d.value, facts)
    if cfg.path(cfg.entry, here, avoid=set(defs_)) is not None:
        out.append(name)  # a parameter (or not bound yet)
    return out or [name]


def _feeds(f: ast.AST, is_target) -> list[tuple[ast.AST, list[ast.AST]]]:
    """What ``f`` puts into the set / mapping T (``is_target(text)`` recognises the text of T, local aliases of T are
    looked through), whatever the spelling:

    ``T.update(E)``, ``T |= E``, ``T = T | E`` and, element by element, ``for x in E: [if c:] T.add(x)`` and
    ``for k, v in E.items(): [if c:] T[k] = v``.  One record per feeding statement: (the statement or call, the
    expressions that decide what is fed: E -- or the element when it is not the loop variable -- and the filters c).
    """
    out: list[tuple[ast.AST, list[ast.AST]]] = []

    def denotes(e: ast.AST) -> bool:
        alts = _objects(f, e) if isinstance(e, ast.Name) else [e]
        return bool(alts) and all(is_target(norm_stmt(a, 300)) for a in alts)

    def loop_vars(lp: ast.For | None) -> list[str]:
        if lp is None:
            return []
        t = lp.target
        return [x.id for x in (t.elts if isinstance(t, ast.Tuple) else [t]) if isinstance(x, ast.Name)]

    def element_sources(lp: ast.For | None, conds: list[ast.AST], elems: list[ast.AST]) -> list[ast.AST]:
        vs = loop_vars(lp)
        src: list[ast.AST] = []
        through_loop = False
        over = lp.iter if lp is not None else None
        if isinstance(over, ast.Call) and isinstance(over.func, ast.Attribute) and over.func.attr in ("keys", "items") and not over.args:
            over = over.func.value
        for e in elems:
            if isinstance(e, ast.Name) and e.id in vs:
                through_loop = True
            elif isinstance(e, ast.Subscript) and isinstance(e.slice, ast.Name) and e.slice.id in vs and over is not None and norm_stmt(e.value) == norm_stmt(over):
                through_loop = True  # `for k in M: T[k] = M[k]` enumerates M
            else:
                src.append(e)
                through_loop = through_loop or bool(names_in(e) & set(vs))
        if lp is not None and through_loop:
            it = lp.iter
            # `for k, v in M.items()` enumerates M
            if isinstance(it, ast.Call) and isinstance(it.func, ast.Attribute) and it.func.attr == "items" and not it.args and isinstance(lp.target, ast.Tuple):
                it = it.func.value
            src.append(it)
            src += conds
        return src

    def visit(stmts: list[ast.stmt], lp: ast.For | None, conds: list[ast.AST]) -> None:
        for s in stmts:
            if isinstance(s, (ast.FunctionDef, ast.AsyncFunctionDef, ast.ClassDef)):
                continue
            if isinstance(s, ast.For):
                visit(s.body, s, [])
                visit(s.orelse, lp, conds)
                continue
            if isinstance(s, ast.If):
                visit(s.body, lp, [*conds, s.test])
                visit(s.orelse, lp, [*conds, s.test])
                continue
            up = as_update(s)
            if up is not None and isinstance(up[1], ast.BitOr) and denotes(up[0]):
                out.append((s, [up[2]]))
                continue
            if isinstance(s, ast.Assign) and len(s.targets) == 1 and isinstance(s.targets[0], ast.Subscript) and denotes(s.targets[0].value):
                out.append((s, element_sources(lp, conds, [s.targets[0].slice, s.value])))
                continue
            if isinstance(s, ast.Expr) and isinstance(s.value, ast.Call) and isinstance(s.value.func, ast.Attribute) and denotes(s.value.func.value):
                c = s.value
                if c.func.attr in ("update", "__ior__") and len(c.args) == 1 and not c.keywords:
                    out.append((c, [c.args[0]]))
                elif c.func.attr in ("add", "__setitem__", "setdefault") and c.args and not c.keywords:
                    out.append((c, element_sources(lp, conds, list(c.args))))
                continue
            for field in ("body", "orelse", "finalbody"):
                sub = getattr(s, field, None)
                if isinstance(sub, list) and sub and isinstance(sub[0], ast.stmt):
                    visit(sub, lp, conds)
            for h in getattr(s, "handlers", []):
                visit(h.body, lp, conds)

    visit(f.body, None, [])
    return out


def _fresh_container(v: ast.AST) -> bool:
    """``v`` builds a new container: copy(x) / deepcopy(x) / dict(x) / list(x) / set(x) / x.copy(), a display
    (``{**x}``, ``[*x]``) or a comprehension (``{k: e for k, e in x.items()}``)."""
    if isinstance(v, ast.Dict):
        return bool(v.keys) and all(k is None for k in v.keys)  # {"a": x} HOLDS x, {**x} copies it
    if isinstance(v, (ast.List, ast.Set)):
        return bool(v.elts) and all(isinstance(e, ast.Starred) for e in v.elts)
    if isinstance(v, (ast.DictComp, ast.ListComp, ast.SetComp)):
        return True
    return isinstance(v, ast.Call) and (dotted(v.func) in ("copy", "deepcopy", "copy.copy", "copy.deepcopy", "dict", "list", "set") or (isinstance(v.func, ast.Attribute) and v.func.attr == "copy" and not v.args))


def _builder_mutations(cls_name: str, f: ast.FunctionDef) -> list[ast.AST]:
    """Statements/calls of ``f`` that change what ``self.__schema_builder`` describes."""
    names = {BUILDER, mangle(cls_name, BUILDER)}
    out: list[ast.AST] = []

    def rooted(e: ast.AST) -> tuple[bool, list[str]]:
        path = []
        cur = e
        while True:
            if isinstance(cur, ast.Attribute):
                if cur.attr in names and dotted(cur.value) == "self":
                    return True, list(reversed(path))
                path.append(cur.attr)
                cur = cur.value
            elif isinstance(cur, ast.Subscript):
                path.append("[]")
                cur = cur.value
            elif isinstance(cur, ast.Call):
                path.append("()")
                cur = cur.func
            else:
                return False, []

    # aliases: loop variables over self.__schema_builder.<x>.items()/values()
    alias = set()
    for s in stmts_of(f):
        if isinstance(s, ast.For) and isinstance(s.iter, ast.Call) and last_attr(s.iter) in ("items", "values"):
            ok, path = rooted(s.iter.func.value)
            if ok and not (path and path[0] in EXEMPT_SUB):
                tgt = s.target.elts[-1] if isinstance(s.target, ast.Tuple) else s.target
                if isinstance(tgt, ast.Name):
                    alias.add(tgt.id)
    for s in stmts_of(f):
        targets = []
        if isinstance(s, ast.Assign):
            targets = s.targets
        elif isinstance(s, (ast.AugAssign, ast.AnnAssign)):
            targets = [s.target]
        elif isinstance(s, ast.Delete):
            targets = s.targets
        for t in targets:
            ok, path = rooted(t)
            if ok and not (path and path[0] in EXEMPT_SUB):
                out.append(s)
    for c in walk_body(f):
        if isinstance(c, ast.Call) and isinstance(c.func, ast.Attribute) and c.func.attr in BUILDER_MUTATORS:
            ok, path = rooted(c.func.value)
            if ok and not (path and path[0] in EXEMPT_SUB):
                out.append(c)
            elif isinstance(c.func.value, ast.Name) and c.func.value.id in alias and c.func.attr in ("add_schema", "add_object", "update"):
                out.append(c)
    return out


def check_json(ctx: Ctx) -> None:
    cls = ctx.index.cls(JG, "JSONGrammar")
    n = 0
    for name, f in sorted(cls.methods.items()):
        if name in ("__init__", "__setstate__", "__getstate__", "_copy"):
            continue
        muts = _builder_mutations("JSONGrammar", f)
        if not muts:
            continue
        n += 1
        con = cname(JG, "JSONGrammar", name)
        cfg = cfg_of(f)
        acts = {cfg.node_of(c) for c in rules.self_calls(f, "__init_dependencies", "JSONGrammar")}
        for m in muts:
            mn = cfg.node_of(m)
            esc = cfg.escape_path(mn, acts) if mn not in acts else None
            ctx.ob("15.1-invalidate", con, esc is None, f"{name} edits the schema builder (`{norm_stmt(m, 60)}`) and can return without __init_dependencies(): the compiled validator and the cached schema of the previous definition keep being used [{cfg.describe_path(esc)}]", node=m if isinstance(m, ast.stmt) else rules.enclosing_stmt(f, m))
    ctx.floor("15.1-invalidate", 10)
    # who writes the derived artefacts
    allowed = {"__init_dependencies", "_create_validator", "schema", "_copy", "__setstate__", "__getstate__", "__init__", "_handle_required_names_change"}
    for name, f in sorted(cls.methods.items()):
        for w in writes_in(f, "JSONGrammar"):
            if w.attr in ("__validator", "__schema") and w.kind in ("rebind", "item", "del", "call"):
                ctx.ob("15.1-derived-writers", cname(JG, "JSONGrammar", name), name in allowed, f"{name} writes the derived artefact {w.attr}; only the invalidation, the lazy builders and the copy/pickle hooks may", node=w.node)
    init_dep = cls.methods.get("__init_dependencies")
    ctx.need(init_dep is not None, "JSONGrammar.__init_dependencies not found")
    ws = {w.attr: w for w in writes_in(init_dep, "JSONGrammar") if w.kind == "rebind"}
    ok = "__validator" in ws and "__schema" in ws and isinstance(ws["__validator"].node.value, ast.Constant) and ws["__validator"].node.value.value is None and isinstance(ws["__schema"].node.value, ast.Dict) and not ws["__schema"].node.value.keys
    ctx.ob("15.1-invalidate", cname(JG, "JSONGrammar", "__init_dependencies"), ok, "__init_dependencies must drop both the compiled validator (None) and the cached schema ({})", node=init_dep, stmt="validator = None and schema = {}")
    v = cls.methods["_validate"]
    cfg = cfg_of(v)
    cv = rules.self_calls(v, "_create_validator")
    ok = len(cv) == 1
    if ok:
        # the one condition of the call, whatever its spelling and the order of the branches (the validator is a
        # function or None: `not v` and `v is None` are the same test)
        fv = {k.replace("_JSONGrammar", ""): val for k, val in literal_facts(cfg, cfg.node_of(cv[0])).items()}
        ntests = len({t for t, _ in branch_conditions(cfg, cfg.node_of(cv[0])) if cfg.kind[t] == "test"})
        ok = ntests == 1 and fv in ({"self.__validator is None": True}, {"self.__validator is not None": False}, {"self.__validator": False}, {"self.__validator == None": True}, {"self.__validator != None": False})
    ctx.ob("15.1-lazy-validator", cname(JG, "JSONGrammar", "_validate"), ok, "the validator is compiled exactly when it is absent (after an invalidation)", node=(cv or [v])[0])
    use = [c for c in walk_body(v) if isinstance(c, ast.Call) and isinstance(c.func, ast.Attribute) and c.func.attr.endswith("__validator")]
    ok = len(use) == 1 and cv and cfg.reachable(cfg.node_of(cv[0]), cfg.node_of(use[0])) and not cfg.reachable(cfg.node_of(use[0]), cfg.node_of(cv[0]))
    ctx.ob("15.1-lazy-validator", cname(JG, "JSONGrammar", "_validate"), bool(ok), "the data must be checked by the (re)compiled validator", node=(use or [v])[0], stmt="validate with self.__validator after compiling")
    s = cls.methods["schema"]
    cfgs = cfg_of(s)
    asg = [x for x in stmts_of(s) if isinstance(x, ast.Assign) and isinstance(x.targets[0], ast.Attribute) and x.targets[0].attr.endswith("__schema")]
    built = _alternatives(s, asg[0].value) if len(asg) == 1 else []  # possibly through a local
    ok = len(asg) == 1 and bool(built) and all("to_schema" in norm_stmt(b_) for b_ in built)
    if ok:
        from gv.props.shared import literal_facts as _lf

        fs = {k.replace("_JSONGrammar", ""): v for k, v in _lf(cfgs, cfgs.node_of(asg[0])).items()}
        ok = fs == {"self.__schema": False}
    ctx.ob("15.1-lazy-validator", cname(JG, "JSONGrammar", "schema"), ok, "the schema is rebuilt from the builder exactly when the cache is empty", node=(asg or [s])[0])
    # the cached schema embeds the required names: they must invalidate it too
    exports = [c for c in walk_body(s) if isinstance(c, ast.Call) and last_attr(c) == "to_schema"]
    in_window = asg and any(isinstance(w, ast.With) and any("__sync_required_names" in norm_stmt(i.context_expr) for i in w.items) and any(sub is asg[0] or any(sub is c for c in exports) for sub in ast.walk(w)) for w in ast.walk(s))
    rn = ctx.index.cls(RN, "RequiredNames")
    notifies = all(any(isinstance(c, ast.Call) and dotted(c.func) and "__grammar" in dotted(c.func) and last_attr(c) not in ("_check_name",) for c in walk_body(rn.methods[m])) for m in ("add", "discard") if m in rn.methods)
    ctx.ob("15.1-schema-required", cname(JG, "JSONGrammar", "schema"), (not in_window) or notifies, "the cached schema embeds the required names (it is built inside the required-names window) but adding/discarding a required name does not invalidate it: JSONGrammar.schema keeps the old 'required' list until the next structural edit", node=(asg or [s])[0], stmt="cached schema depends on required names, RequiredNames.add/discard do not invalidate")
    hook = cls.methods.get("_handle_required_names_change")
    if notifies:
        ok = hook is not None and any(w_.attr == "__schema" and w_.kind == "rebind" and isinstance(w_.node.value, ast.Dict) and not w_.node.value.keys for w_ in writes_in(hook, "JSONGrammar"))
        ctx.ob("15.1-schema-required", cname(JG, "JSONGrammar", "_handle_required_names_change"), ok, "RequiredNames notifies the grammar of a change, but JSONGrammar does not drop its cached schema in the notification hook", node=hook or cls.node, stmt="hook drops the cached schema")
    # compiling the validator must not alter the cached schema
    cvf = cls.methods["_create_validator"]
    bad = [c for c in walk_body(cvf) if isinstance(c, ast.Call) and isinstance(c.func, ast.Attribute) and c.func.attr in ("pop", "clear", "update", "popitem", "setdefault") and norm_stmt(c.func.value).replace("_JSONGrammar", "") in ("self.schema", "self.__schema")]
    bad += [d for d in stmts_of(cvf) if isinstance(d, ast.Delete) and any(norm_stmt(t.value).replace("_JSONGrammar", "") in ("self.schema", "self.__schema") for t in d.targets if isinstance(t, ast.Subscript))]
    ctx.ob("15.5-validator-copy", cname(JG, "JSONGrammar", "_create_validator"), not bad, "compiling the validator edits the cached schema in place (`self.schema.pop(...)`): after the first validation JSONGrammar.schema no longer has the entries that were removed ('required', 'id')", node=(bad or [cvf])[0], stmt="validator compiled from a copy of the schema")
    # the paired window
    w = cls.methods.get("__sync_required_names")
    ctx.need(w is not None, "JSONGrammar.__sync_required_names not found")
    ys = [x for x in walk_body(w) if isinstance(x, ast.Yield)]
    fedw = _feeds(w, lambda t_: t_.replace("_JSONGrammar", "") == "self.__schema_builder.required")
    up = [n_ for n_, _ in fedw]
    cl = [c for c in walk_body(w) if isinstance(c, ast.Call) and last_attr(c) == "clear" and "required" in norm_stmt(c.func)]
    cw = cfg_of(w)
    ok = len(ys) == 1 and len(up) == 1 and len(cl) == 1 and cw.reachable(cw.node_of(up[0]), cw.node_of(ys[0])) and cw.reachable(cw.node_of(ys[0]), cw.node_of(cl[0])) and not cw.reachable(cw.node_of(cl[0]), cw.node_of(ys[0])) and any("self._required_names" in norm_stmt(e_) for e_ in fedw[0][1])
    ctx.ob("15.5-window", cname(JG, "JSONGrammar", "__sync_required_names"), ok, "the required names are copied into the builder before the yield and removed after it (the builder's own list stays empty outside the window)", node=w)


def _field_mutations(f: ast.FunctionDef) -> list[ast.AST]:
    out = []
    alias = set()
    for s in stmts_of(f):
        if isinstance(s, ast.Assign) and isinstance(s.targets[0], ast.Name) and isinstance(s.value, ast.Attribute) and s.value.attr == "model_fields" and "__model" in norm_stmt(s.value.value):
            alias.add(s.targets[0].id)
    field_alias = set()
    for s in stmts_of(f):
        if isinstance(s, ast.For) and isinstance(s.iter, ast.Call) and last_attr(s.iter) in ("items", "values") and "model_fields" in norm_stmt(s.iter.func.value) and "self" in norm_stmt(s.iter.func.value):
            tgt = s.target.elts[-1] if isinstance(s.target, ast.Tuple) else s.target
            if isinstance(tgt, ast.Name):
                field_alias.add(tgt.id)

    def is_fields(e: ast.AST) -> bool:
        return (isinstance(e, ast.Attribute) and e.attr == "model_fields" and dotted(e.value) is not None and dotted(e.value).startswith("self.") and "__model" in dotted(e.value)) or (isinstance(e, ast.Name) and e.id in alias)

    for s in stmts_of(f):
        targets = s.targets if isinstance(s, (ast.Assign, ast.Delete)) else ([s.target] if isinstance(s, (ast.AugAssign, ast.AnnAssign)) else [])
        for t in targets:
            if isinstance(t, ast.Subscript) and is_fields(t.value):
                out.append(s)
            elif isinstance(t, ast.Attribute) and t.attr == "model_fields" and dotted(t.value).startswith("self.") and "__model" in dotted(t.value):
                out.append(s)
            elif isinstance(t, ast.Attribute) and isinstance(t.value, ast.Name) and t.value.id in field_alias:
                out.append(s)
    for c in walk_body(f):
        if isinstance(c, ast.Call) and isinstance(c.func, ast.Attribute) and c.func.attr in ("pop", "update", "clear", "popitem", "setdefault") and is_fields(c.func.value):
            out.append(c)
    return out


def check_pydantic(ctx: Ctx) -> None:
    cls = ctx.index.cls(PG, "PydanticGrammar")
    flag = {"__model_needs_rebuild", mangle("PydanticGrammar", "__model_needs_rebuild")}

    def sets_flag(f, value=True):
        return [s for s in stmts_of(f) if isinstance(s, ast.Assign) and isinstance(s.targets[0], ast.Attribute) and s.targets[0].attr in flag and dotted(s.targets[0].value) == "self" and isinstance(s.value, ast.Constant) and s.value.value is value]

    def bare_(a: str) -> str:
        return a.replace("_PydanticGrammar", "") if a.startswith("_PydanticGrammar__") else a

    # the methods that (transitively) lower the flag
    lowering = {n_ for n_, g_ in cls.methods.items() if any(isinstance(s_, (ast.Assign, ast.AugAssign, ast.AnnAssign)) and any(isinstance(t_, ast.Attribute) and t_.attr in flag for t_ in (s_.targets if isinstance(s_, ast.Assign) else [s_.target])) and s_ not in sets_flag(g_) for s_ in stmts_of(g_))}
    grew = True
    while grew:
        grew = False
        for n_, g_ in cls.methods.items():
            if n_ not in lowering and any(isinstance(c_, ast.Call) and isinstance(c_.func, ast.Attribute) and bare_(c_.func.attr) in lowering for c_ in walk_body(g_)):
                lowering.add(n_)
                grew = True

    def flagged(f, cfg, mn: int, obj: str) -> bool:
        """The flag of ``obj`` is raised when the mutation ``mn`` is reached, or is raised on every path from it to the
        exit: either way no path leaves the method with edited fields and a lowered flag.  Raised when reached: every
        path from the entry, and from anything that may lower the flag (an assignment of something else than True,
        a call of a method that lowers it), passes `obj.<flag> = True` before the mutation; and nothing lowers the
        flag by hand afterwards (a later __rebuild_model() is fine: it rebuilds the model from the edited fields)."""
        ups = [s_ for s_ in stmts_of(f) if isinstance(s_, ast.Assign) and isinstance(s_.targets[0], ast.Attribute) and s_.targets[0].attr in flag and dotted(s_.targets[0].value) == obj and isinstance(s_.value, ast.Constant) and s_.value.value is True]
        up_nodes = {cfg.node_of(s_) for s_ in ups}
        if cfg.escape_path(mn, up_nodes) is None:
            return True
        by_hand = [s_ for s_ in stmts_of(f) if isinstance(s_, (ast.Assign, ast.AugAssign, ast.AnnAssign, ast.Delete)) and not any(s_ is u_ for u_ in ups) and any(isinstance(t_, ast.Attribute) and t_.attr in flag for t_ in (s_.targets if isinstance(s_, (ast.Assign, ast.Delete)) else [s_.target]))]
        by_call = [c_ for c_ in walk_body(f) if isinstance(c_, ast.Call) and isinstance(c_.func, ast.Attribute) and bare_(c_.func.attr) in lowering]
        # a method of the object that is not one of this class (inherited, e.g. clear()) may call one that lowers it
        by_call += [c_ for c_ in walk_body(f) if isinstance(c_, ast.Call) and isinstance(c_.func, ast.Attribute) and (dotted(c_.func.value) in (obj, "self") or norm_stmt(c_.func.value).startswith("super(")) and bare_(c_.func.attr) not in cls.methods]
        # an unknown writer of the instance dictionary may lower it too
        by_call += [c_ for c_ in walk_body(f) if isinstance(c_, ast.Call) and isinstance(c_.func, ast.Attribute) and c_.func.attr in ("update", "__setattr__") and "__dict__" in norm_stmt(c_.func.value)] + [c_ for c_ in walk_body(f) if isinstance(c_, ast.Call) and dotted(c_.func) == "setattr"]
        lower_nodes = ({cfg.node_of(x_) for x_ in by_hand + by_call if cfg.has(x_)} - up_nodes) - {mn}
        if not up_nodes or any(cfg.path(src_, mn, avoid=up_nodes) is not None for src_ in [cfg.entry, *lower_nodes]):
            return False
        return not any(cfg.reachable(mn, cfg.node_of(s_)) for s_ in by_hand if cfg.has(s_))

    for name, f in sorted(cls.methods.items()):
        if name in ("__init__", "_clear", "_copy"):
            continue
        muts = _field_mutations(f)
        if not muts:
            continue
        con = cname(PG, "PydanticGrammar", name)
        cfg = cfg_of(f)
        acts = {cfg.node_of(s) for s in sets_flag(f)}
        for m in muts:
            mn = cfg.node_of(m)
            esc = cfg.escape_path(mn, acts)
            if esc is not None and flagged(f, cfg, mn, "self"):
                esc = None  # the flag is already raised when the fields are edited, and stays so
            ctx.ob("15.1b-flag", con, esc is None, f"{name} edits the model fields (`{norm_stmt(m, 60)}`) and can return without setting __model_needs_rebuild: validation keeps using the model compiled for the previous definition [{cfg.describe_path(esc)}]", node=m if isinstance(m, ast.stmt) else rules.enclosing_stmt(f, m))
    # _copy gives the COPY a model with fields of its own: the model just derived was compiled from its base class, not
    # from those fields (which may have been edited since), so the copy must be flagged for rebuild, whatever the
    # flag of the original
    cp_ = cls.methods.get("_copy")
    if cp_ is not None:
        other = cp_.args.args[1].arg
        writes = [s_ for s_ in stmts_of(cp_) if isinstance(s_, ast.Assign) and isinstance(s_.targets[0], ast.Attribute) and s_.targets[0].attr == "model_fields" and (dotted(s_.targets[0].value) or "").startswith(other + ".")]
        flags_ = [s_ for s_ in stmts_of(cp_) if isinstance(s_, ast.Assign) and isinstance(s_.targets[0], ast.Attribute) and s_.targets[0].attr in flag and dotted(s_.targets[0].value) == other]
        if writes:
            cfgc = cfg_of(cp_)
            ok = len(flags_) >= 1 and all(isinstance(s_.value, ast.Constant) and s_.value.value is True for s_ in flags_) and all(flagged(cp_, cfgc, cfgc.node_of(w_), other) for w_ in writes)
            ctx.ob("15.1b-flag", cname(PG, "PydanticGrammar", "_copy"), ok, "_copy installs fields in the model of the copy: the copy must be flagged for rebuild (True), not given the flag of the original (False after a validation, although the derived model was not compiled from these fields): the copy would validate a stale definition", node=(flags_ or writes)[0], stmt="the copy is flagged for rebuild after its fields are installed")
    ctx.floor("15.1b-flag", 6)
    # the model is rebuilt before every use
    uses = {"_validate": "model_validate", "schema": "model_json_schema", "__getstate__": "model_fields"}
    for name, what in uses.items():
        f = cls.methods[name]
        con = cname(PG, "PydanticGrammar", name)
        cfg = cfg_of(f)
        rb = rules.self_calls(f, "__rebuild_model", "PydanticGrammar")
        use = [n for n in walk_body(f) if isinstance(n, ast.Attribute) and n.attr == what and "__model" in norm_stmt(n.value)]
        ok = len(rb) >= 1 and bool(use) and all(cfg.dominates(cfg.node_of(rb[0]), cfg.node_of(u)) and cfg.node_of(rb[0]) != cfg.node_of(u) for u in use)
        ctx.ob("15.1b-rebuild-before-use", con, ok, f"{name} uses the compiled model (.{what}) without calling __rebuild_model() first: after an edit it sees the model of the previous definition", node=(use or [f])[0], stmt=f"{name} uses the model without rebuilding it" if not ok else f"__rebuild_model() dominates .{what}")
    r = cls.methods["__rebuild_model"]
    cfg = cfg_of(r)
    reb = [c for c in walk_body(r) if isinstance(c, ast.Call) and last_attr(c) == "model_rebuild"]
    clr = sets_flag(r, False)
    ok = len(reb) == 1 and len(clr) == 1 and cfg.reachable(cfg.node_of(reb[0]), cfg.node_of(clr[0])) and not cfg.reachable(cfg.node_of(clr[0]), cfg.node_of(reb[0])) and any(k.arg == "force" and getattr(k.value, "value", None) is True for k in reb[0].keywords)
    if ok:
        conds = [(norm_stmt(cfg.ast[t].test).replace("_PydanticGrammar", ""), v) for t, v in branch_conditions(cfg, cfg.node_of(reb[0])) if cfg.kind[t] == "test"]
        ok = conds == [("self.__model_needs_rebuild", True)]
    ctx.ob("15.1b-rebuild", cname(PG, "PydanticGrammar", "__rebuild_model"), ok, "__rebuild_model must force the rebuild when the flag is set and clear the flag only afterwards", node=r)


def check_base(ctx: Ctx) -> None:
    cls = ctx.index.cls(BG, "BaseGrammar")

    def calls(f, pred):
        return [c for c in walk_body(f) if isinstance(c, ast.Call) and pred(c)]

    # __copy__: the copy owns its required names
    f = cls.methods["__copy__"]
    con = cname(BG, "BaseGrammar", "__copy__")
    new_g = [s_ for s_ in stmts_of(f) if isinstance(s_, ast.Assign) and isinstance(s_.value, ast.Call) and norm_stmt(s_.value.func) == "self.__class__"]
    ctx.need(len(new_g) == 1, "BaseGrammar.__copy__: creation of the copy not found")
    gname = dotted(new_g[0].targets[0])
    rq = [s_ for s_ in stmts_of(f) if isinstance(s_, ast.Assign) and dotted(s_.targets[0]) == f"{gname}._required_names"]
    ok = len(rq) == 1 and isinstance(rq[0].value, ast.Call) and dotted(rq[0].value.func) == "RequiredNames" and dotted(rq[0].value.args[0]) == gname and len(rq[0].value.args) == 2 and "_required_names" in norm_stmt(rq[0].value.args[1])
    ctx.ob("15.6-copy-owns-required", con, ok, "the copy must get new RequiredNames bound to the copy (RequiredNames(<copy>, <names>)): a shallow copy shares the set of names, so editing the copy changes the required names of the original", node=(rq or [f])[0])
    cp = [c for c in walk_body(f) if isinstance(c, ast.Call) and norm_stmt(c.func) == "self._copy"]
    ok = len(cp) == 1 and rq and cfg_of(f).reachable(cfg_of(f).node_of(cp[0]), cfg_of(f).node_of(rq[0])) and not cfg_of(f).reachable(cfg_of(f).node_of(rq[0]), cfg_of(f).node_of(cp[0]))
    ctx.ob("15.6-copy-owns-required", con, bool(ok), "the elements must be copied before the required names are bound (the names are checked against the copy)", node=(cp or [f])[0], stmt="_copy before binding the required names")
    du = _feeds(f, lambda t_: t_ == f"{gname}._defaults")
    ctx.ob("15.6-copy-owns-required", con, len(du) == 1 and [norm_stmt(e_) for e_ in du[0][1]] == ["self._defaults"], "the copy gets its own defaults mapping, filled from the original", node=du[0][0] if du else f, stmt="defaults copied into the copy's own mapping")
    for attr in ("to_namespaced", "from_namespaced"):
        a = [s_ for s_ in stmts_of(f) if isinstance(s_, ast.Assign) and dotted(s_.targets[0]) == f"{gname}.{attr}"]
        ok = len(a) == 1 and all(_fresh_container(v_) for v_ in _alternatives(f, a[0].value))
        ctx.ob("15.6-copy-owns-required", con, ok, f"the copy must own its {attr} mapping", node=(a or [f])[0], stmt=f"{attr} copied")
    # the elements themselves: each back-end's _copy gives the copy a container of its own
    for rel_, cn_ in ((SG, "SimpleGrammar"), (JG, "JSONGrammar"), (PG, "PydanticGrammar")):
        sub = ctx.index.cls(rel_, cn_)
        cp_ = sub.methods.get("_copy")
        ctx.need(cp_ is not None, f"{cn_}._copy not found")
        other = cp_.args.args[1].arg
        mod_ = ctx.index.module(rel_)
        annotations = {st.target.id: norm_stmt(st.annotation) for st in sub.node.body if isinstance(st, ast.AnnAssign) and isinstance(st.target, ast.Name)}
        for st in stmts_of(cp_):
            if not (isinstance(st, ast.Assign) and isinstance(st.targets[0], ast.Attribute) and dotted(st.targets[0].value) == other):
                continue
            attr = st.targets[0].attr
            bare = attr.replace(f"_{cn_}", "") if attr.startswith(f"_{cn_}__") else attr
            v_ = st.value
            vals = _alternatives(cp_, v_)  # the value may come through a local
            src_self = any(isinstance(n_, ast.Attribute) and dotted(n_.value) == "self" and n_.attr in (attr, bare, mangle(cn_, bare)) for a_ in vals for n_ in ast.walk(a_))
            if not src_self:
                continue
            ann = annotations.get(bare, annotations.get(attr, ""))
            alias = norm_stmt(mod_.assigns[ann]) if ann in mod_.assigns else ann
            is_class_valued = alias.startswith(("type[", "Type["))
            copies = all(_fresh_container(a_) for a_ in vals)
            bare_ann = " | ".join(p_ for p_ in (q_.strip() for q_ in alias.split("|")) if p_ != "None")
            if bare_ann.startswith(("Callable", "collections.abc.Callable", "typing.Callable")):
                continue  # a function has no elements to own (copy(f) is f itself): sharing it is what a copy does
            fresh_class = all(isinstance(a_, ast.Call) and dotted(a_.func) == "create_model" for a_ in vals)
            if all(isinstance(a_, (ast.Name, ast.Constant)) for a_ in vals) or (isinstance(v_, ast.Attribute) and attr.endswith("needs_rebuild")):
                continue  # flags and scalars
            ok_ = fresh_class if is_class_valued else (copies or fresh_class)
            why = "copy()/deepcopy() of a CLASS return the class itself: the copy and the original then edit the same `model_fields`" if is_class_valued else "the container of the elements is shared with the original"
            ctx.ob("15.6-copy-owns-elements", cname(rel_, cn_, "_copy"), ok_, f"the copy gets `{norm_stmt(v_, 50)}` as its {bare}: {why}, so deleting / renaming / updating an element of the copy changes the original grammar", node=st, stmt=f"{bare} of the copy is its own")
    ctx.floor("15.6-copy-owns-elements", 3)
    # __delitem__
    f = cls.methods["__delitem__"]
    con = cname(BG, "BaseGrammar", "__delitem__")
    p = f.args.args[1].arg
    d = calls(f, lambda c: norm_stmt(c.func) == "self._defaults.pop" and dotted(c.args[0]) == p)
    r = calls(f, lambda c: norm_stmt(c.func) in ("self._required_names.discard", "self._required_names.remove") and dotted(c.args[0]) == p)
    h = calls(f, lambda c: norm_stmt(c.func) == "self._delitem" and dotted(c.args[0]) == p)
    ctx.ob("15.2-delete", con, len(d) == 1, "deleting an element must drop its default value", node=(d or [f])[0], stmt="defaults.pop(name)")
    ctx.ob("15.2-delete", con, len(r) == 1, "deleting an element must drop it from the required names: validation would otherwise demand a name that no longer exists", node=(r or [f])[0], stmt="required_names.discard(name)")
    ctx.ob("15.2-delete", con, len(h) == 1, "the element itself must be deleted", node=(h or [f])[0], stmt="_delitem(name)")
    # restrict_to
    f = cls.methods["restrict_to"]
    con = cname(BG, "BaseGrammar", "restrict_to")
    p = f.args.args[1].arg
    dl = [s for s in stmts_of(f) if isinstance(s, ast.Delete) and "_defaults" in norm_stmt(s.targets[0])]
    loops = [s for s in stmts_of(f) if isinstance(s, ast.For) and norm_stmt(s.iter) == f"self._defaults.keys() - {p}"]
    ctx.ob("15.2-restrict", con, len(dl) == 1 and len(loops) == 1 and any(sub is dl[0] for sub in ast.walk(loops[0])), "restricting must delete the defaults of the removed names", node=(dl or [f])[0])
    rq = [s for s in stmts_of(f) if isinstance(s, ast.AugAssign) and dotted(s.target) == "self._required_names" and isinstance(s.op, ast.BitAnd) and p in names_in(s.value)]
    ctx.ob("15.2-restrict", con, len(rq) == 1, "restricting must intersect the required names with the kept names", node=(rq or [f])[0], stmt="required_names &= names")
    h = calls(f, lambda c: norm_stmt(c.func) == "self._restrict_to" and dotted(c.args[0]) == p)
    ctx.ob("15.2-restrict", con, len(h) == 1, "the elements themselves must be restricted", node=(h or [f])[0], stmt="_restrict_to(names)")
    ck = calls(f, lambda c: norm_stmt(c.func) == "self._check_name")
    cfg = cfg_of(f)
    ok = len(ck) == 1 and h and cfg.dominates(cfg.node_of(ck[0]), cfg.node_of(h[0]))
    ctx.ob("15.2-restrict", con, bool(ok), "the names must be checked before anything is removed", node=(ck or [f])[0], stmt="_check_name before the edit")
    # rename_element
    f = cls.methods["rename_element"]
    con = cname(BG, "BaseGrammar", "rename_element")
    cur, new = f.args.args[1].arg, f.args.args[2].arg
    h = calls(f, lambda c: norm_stmt(c.func) == "self._rename_element" and [dotted(a) for a in c.args] == [cur, new])
    ctx.ob("15.2-rename", con, len(h) == 1, "the element must be renamed from the current to the new name", node=(h or [f])[0])
    rm = calls(f, lambda c: norm_stmt(c.func) in ("self._required_names.remove", "self._required_names.discard") and dotted(c.args[0]) == cur)
    ad = calls(f, lambda c: norm_stmt(c.func) == "self._required_names.add" and dotted(c.args[0]) == new)
    ok = len(rm) == 1 and len(ad) == 1 and h and cfg_of(f).reachable(cfg_of(f).node_of(h[0]), cfg_of(f).node_of(ad[0]))
    ctx.ob("15.2-rename", con, bool(ok), "a required element stays required under its new name (the add comes after the rename, it checks that the name exists)", node=(ad or [f])[0], stmt="required: remove(current), add(new)")
    dp = [s for s in stmts_of(f) if isinstance(s, ast.Assign) and isinstance(s.value, ast.Call) and norm_stmt(s.value.func) == "self._defaults.pop" and dotted(s.value.args[0]) == cur]
    ds = [s for s in stmts_of(f) if isinstance(s, ast.Assign) and isinstance(s.targets[0], ast.Subscript) and dotted(s.targets[0].value) == "self._defaults" and dotted(s.targets[0].slice) == new]
    ok = len(dp) == 1 and len(ds) == 1 and dotted(ds[0].value) == dotted(dp[0].targets[0])
    if not ok:
        # direct form: self._defaults[new] = self._defaults.pop(current), under a membership test
        ok = len(ds) == 1 and isinstance(ds[0].value, ast.Call) and norm_stmt(ds[0].value.func) == "self._defaults.pop" and ds[0].value.args and dotted(ds[0].value.args[0]) == cur
    ctx.ob("15.2-rename", con, ok, "the default value moves to the new name", node=(ds or [f])[0], stmt="defaults: pop(current) -> [new]")
    if ok and ds:
        # F44: the move is decided by the presence of the name, not by the value of the default (None is a value)
        from gv.props.shared import literal_facts
        cfg = cfg_of(f)
        popped = dotted(dp[0].targets[0]) if len(dp) == 1 else None
        bad = []
        for text, _pol in literal_facts(cfg, cfg.node_of(ds[0])).items():
            try:
                t = ast.parse(text, mode="eval").body
            except SyntaxError:
                continue
            if isinstance(t, ast.Compare) and isinstance(t.ops[0], (ast.In, ast.NotIn)):
                continue
            if (popped and popped in names_in(t)) or any(isinstance(n, ast.Call) and norm_stmt(n.func) in ("self._defaults.get", "self._defaults.pop") for n in ast.walk(t)):
                bad.append(text)
        ctx.ob("15.2-rename", con, not bad, "the default moves whatever its value (a default that is None is a default): the move depends on the value through " + "; ".join(bad), node=ds[0], stmt="defaults: moved by presence, not by value")
    # clear
    f = cls.methods["clear"]
    con = cname(BG, "BaseGrammar", "clear")
    h = calls(f, lambda c: norm_stmt(c.func) == "self._clear")
    nd = rules.assigns_to_self(f, "_defaults")
    nr = rules.assigns_to_self(f, "_required_names")
    ok = len(h) == 1 and len(nd) == 1 and len(nr) == 1 and norm_stmt(nd[0].value) == "Defaults(self, {})" and norm_stmt(nr[0].value) == "RequiredNames(self)"
    ctx.ob("15.2-clear", con, ok, "clearing a grammar must also empty its defaults and its required names", node=(nd or [f])[0])
    # update
    f = cls.methods["update"]
    con = cname(BG, "BaseGrammar", "update")
    h = calls(f, lambda c: norm_stmt(c.func) == "self._update")
    # whatever the spelling of the bulk operation (update / |= / element by element in a loop)
    fd = _feeds(f, lambda t_: t_ == "self._defaults")
    du = [n_ for n_, _ in fd]
    ok = len(h) == 1 and len(fd) == 1 and any("excluded_names" in names_in(e_) for e_ in fd[0][1]) and any("grammar._defaults" in norm_stmt(e_, 300) for e_ in fd[0][1])
    ctx.ob("15.2-update", con, ok, "updating from a grammar brings its defaults, except for the excluded names", node=(du or [f])[0])
    fr = _feeds(f, lambda t_: t_ == "self._required_names")
    rq = [n_ for n_, _ in fr]
    ok = len(fr) == 1 and any("excluded_names" in names_in(e_) for e_ in fr[0][1]) and any("grammar._required_names" in norm_stmt(e_, 300) for e_ in fr[0][1])
    ctx.ob("15.2-update", con, ok, "updating from a grammar adds its required names, except for the excluded names", node=(rq or [f])[0], stmt="required_names |= other's required minus excluded")
    # ... *except*: the excluded names filter OUT (`k not in excluded`, `names - excluded`), they do not select
    def selects_excluded(e: ast.AST, pos: bool = True) -> bool:
        if isinstance(e, ast.UnaryOp) and isinstance(e.op, ast.Not):
            return selects_excluded(e.operand, not pos)
        if isinstance(e, ast.Compare) and len(e.ops) == 1 and isinstance(e.ops[0], (ast.In, ast.NotIn)) and "excluded_names" in names_in(e.comparators[0]):
            return (isinstance(e.ops[0], ast.In)) == pos
        def is_excl(x: ast.AST) -> bool:
            return dotted(x) == "excluded_names" or (isinstance(x, ast.Call) and dotted(x.func) in ("set", "frozenset", "list", "tuple") and len(x.args) == 1 and dotted(x.args[0]) == "excluded_names")

        if isinstance(e, ast.BinOp) and isinstance(e.op, ast.BitAnd) and (is_excl(e.left) or is_excl(e.right)):
            return pos
        if isinstance(e, ast.Call) and isinstance(e.func, ast.Attribute) and e.func.attr in ("intersection", "intersection_update") and any(is_excl(a_) for a_ in e.args):
            return pos
        return any(selects_excluded(ch, pos) for ch in ast.iter_child_nodes(e) if isinstance(ch, ast.expr) or isinstance(ch, ast.comprehension)) if not isinstance(e, ast.comprehension) else any(selects_excluded(x, pos) for x in [e.iter, *e.ifs])

    for what, recs in (("defaults", fd), ("required names", fr)):
        for node_, exprs in recs:
            bad = [norm_stmt(e_, 80) for e_ in exprs if selects_excluded(e_)]
            ctx.ob("15.2-update", con, not bad, f"the {what} of the excluded names are the ones brought in ({'; '.join(bad)}): the exclusion is inverted", node=node_, stmt=f"{what}: the excluded names are filtered out, not selected")
    ok = h and du and rq and cfg_of(f).reachable(cfg_of(f).node_of(h[0]), cfg_of(f).node_of(du[0])) and cfg_of(f).reachable(cfg_of(f).node_of(h[0]), cfg_of(f).node_of(rq[0])) and not cfg_of(f).reachable(cfg_of(f).node_of(du[0]), cfg_of(f).node_of(h[0]))
    ctx.ob("15.2-update", con, bool(ok), "the elements must be added before their defaults and required names are (both are checked against the elements)", node=(h or [f])[0], stmt="_update before defaults/required")
    # 15.4 validate
    f = cls.methods["validate"]
    con = cname(BG, "BaseGrammar", "validate")
    cfg = cfg_of(f)
    miss = [s for s in stmts_of(f) if isinstance(s, ast.Assign) and isinstance(s.value, ast.Call) and norm_stmt(s.value.func) == "self._required_names.get_names_difference" and dotted(s.value.args[0]) == f.args.args[1].arg]
    tv = calls(f, lambda c: norm_stmt(c.func) == "self._validate")
    ok = len(miss) == 1 and len(tv) == 1
    if ok:
        mv = dotted(miss[0].targets[0])
        conds = [(norm_stmt(cfg.ast[t].test), v) for t, v in branch_conditions(cfg, cfg.node_of(tv[0])) if cfg.kind[t] == "test"]
        ok = conds in ([(mv, False)], [(f"not {mv}", True)])
    # (whether the type validation also runs when a name is missing does not change the accept/reject verdict: no obligation)
    fl = [s for s in stmts_of(f) if isinstance(s, ast.Assign) and dotted(s.targets[0]) == "data_is_valid" and isinstance(s.value, ast.Constant)]
    ok = len(fl) == 1 and fl[0].value.value is False and miss and any(v and norm_stmt(cfg.ast[t].test) == dotted(miss[0].targets[0]) for t, v in branch_conditions(cfg, cfg.node_of(fl[0])) if cfg.kind[t] == "test")
    ctx.ob("15.4-order", con, bool(ok), "data with a missing required name is invalid", node=(fl or [f])[0])
    ra = [s for s in stmts_of(f) if isinstance(s, ast.Raise)]
    ok = len(ra) == 1
    if ok:
        from gv.props.shared import literal_facts as _lf

        ok = _lf(cfg, cfg.node_of(ra[0])) == {"data_is_valid": False, "raise_exception": True}
    ctx.ob("15.4-order", con, ok, "an exception is raised iff the data is invalid and raise_exception is set", node=(ra or [f])[0])


def check_membership(ctx: Ctx) -> None:
    rn = ctx.index.cls(RN, "RequiredNames")
    f = rn.methods["add"]
    cfg = cfg_of(f)
    ck = [c for c in walk_body(f) if isinstance(c, ast.Call) and last_attr(c) == "_check_name" and dotted(c.args[0]) == f.args.args[1].arg]
    ad = [c for c in walk_body(f) if isinstance(c, ast.Call) and last_attr(c) == "add" and "__names" in norm_stmt(c.func)]
    ok = len(ck) == 1 and len(ad) == 1 and cfg.dominates(cfg.node_of(ck[0]), cfg.node_of(ad[0])) and cfg.node_of(ck[0]) != cfg.node_of(ad[0])
    ctx.ob("15.3-existing", cname(RN, "RequiredNames", "add"), ok, "a name can become required only after the grammar has checked that it exists", node=(ad or [f])[0])
    init = rn.methods["__init__"]
    ck = [c for c in walk_body(init) if isinstance(c, ast.Call) and last_attr(c) == "_check_name"]
    ctx.ob("15.3-existing", cname(RN, "RequiredNames", "__init__"), len(ck) == 1 and any(isinstance(a, ast.Starred) and "__names" in norm_stmt(a.value) for a in ck[0].args), "initial required names are checked against the grammar", node=(ck or [init])[0])
    fi = rn.methods.get("_from_iterable")
    ok = fi is not None and any(isinstance(c, ast.Call) and norm_stmt(c.func) == "self.__class__" and "__grammar" in norm_stmt(c.args[0]) for c in walk_body(fi))
    ctx.ob("15.3-existing", cname(RN, "RequiredNames", "_from_iterable"), ok, "set operations (|, &, -) must go through the checking constructor, bound to the same grammar", node=fi or rn.node)
    # no other writer of the private set
    for name, g in rn.methods.items():
        for c in walk_body(g):
            if isinstance(c, ast.Call) and isinstance(c.func, ast.Attribute) and "__names" in norm_stmt(c.func.value) and c.func.attr in ("add", "update", "__ior__"):
                ctx.ob("15.3-existing", cname(RN, "RequiredNames", name), name == "add", f"RequiredNames.{name} adds names to the private set without the existence check", node=c, stmt=f"{name}: {norm_stmt(c, 50)}")
    df = ctx.index.cls(DF, "Defaults")
    f = df.methods["__setitem__"]
    cfg = cfg_of(f)
    st = [s for s in stmts_of(f) if isinstance(s, ast.Assign) and isinstance(s.targets[0], ast.Subscript) and "__data" in norm_stmt(s.targets[0].value)]
    ok = len(st) == 1
    if ok:
        raises = [s for s in stmts_of(f) if isinstance(s, ast.Raise)]
        ok = len(raises) >= 1
        if ok:
            conds = [(norm_stmt(cfg.ast[t].test).replace("_Defaults", ""), v) for t, v in branch_conditions(cfg, cfg.node_of(raises[0])) if cfg.kind[t] == "test"]
            nm = f.args.args[1].arg
            ok = conds == [(f"{nm} not in self.__grammar", True)] and not cfg.reachable(cfg.node_of(raises[0]), cfg.node_of(st[0])) and cfg.dominates(conds and [t for t, v in branch_conditions(cfg, cfg.node_of(raises[0]))][0], cfg.node_of(st[0]))
    ctx.ob("15.3-existing", cname(DF, "Defaults", "__setitem__"), ok, "a default value can be set only for a name of the grammar (test before the store, KeyError otherwise)", node=(st or [f])[0])
    for name, g in df.methods.items():
        if name in ("__setitem__", "__init__", "__copy__", "__delitem__"):
            continue
        for s in stmts_of(g):
            if isinstance(s, ast.Assign) and isinstance(s.targets[0], ast.Subscript) and "__data" in norm_stmt(s.targets[0].value):
                ctx.ob("15.3-existing", cname(DF, "Defaults", name), False, f"Defaults.{name} stores a default without the membership test", node=s)
    bases = [b.split(".")[-1] for b in df.base_exprs]
    ctx.ob("15.3-existing", cname(DF, "Defaults"), any("MutableMapping" in b or "MutableStrKeyMapping" in b for b in bases) and "update" not in df.methods, "bulk updates must go through __setitem__ (MutableMapping.update): Defaults must not define its own unchecked update", node=df.node, stmt="update inherited from MutableMapping")


QUERY_METHODS = ("__getitem__", "__len__", "__iter__", "__contains__", "keys", "names", "names_without_namespace", "has_names", "required_names", "defaults", "to_json", "_get_names_to_types", "__repr__", "__str__", "data_converter")
LAZY_OK = {("JSONGrammar", "schema"): "lazy cache of the schema", ("JSONGrammar", "_create_validator"): "lazy compilation of the validator", ("JSONGrammar", "_validate"): "compiles the validator when absent", ("PydanticGrammar", "_validate"): "rebuilds the model when flagged", ("PydanticGrammar", "schema"): "rebuilds the model when flagged"}


def check_queries(ctx: Ctx) -> None:
    n = 0
    for rel, cn in ((BG, "BaseGrammar"), (JG, "JSONGrammar"), (SG, "SimpleGrammar"), (PG, "PydanticGrammar")):
        cls = ctx.index.cls(rel, cn)
        for name in QUERY_METHODS:
            f = cls.methods.get(name)
            if f is None:
                continue
            ws = [w for w in writes_in(f, cn) if not (w.kind == "call" and w.method in ("get",))]
            # the paired required-names window is entered through a with statement, not written here
            n += 1
            ctx.ob("15.5-readonly", cname(rel, cn, name), not ws, f"the query {cn}.{name} writes grammar state ({[f'{w.attr}:{w.kind}' for w in ws]}): reading a grammar must not change it", node=(ws[0].node if ws else f), stmt=f"{name} writes no attribute of self")
    ctx.floor("15.5-readonly", 20)
    for (cn, m), why in LAZY_OK.items():
        ctx.note(f"15.5 lazy exception {cn}.{m}: {why}")


def check_update_source_untouched(ctx: Ctx) -> None:
    """15.7: updating a grammar from another one never edits the other one: what `_update` removes from is a deep copy."""
    from gv.cfg import cfg_of

    for rel, cname_ in ((JG, "JSONGrammar"), (PG, "PydanticGrammar"), (SG, "SimpleGrammar")):
        cls = ctx.index.cls(rel, cname_)
        f = cls.methods.get("_update")
        if f is None:
            continue
        con = cname(rel, cname_, "_update")
        src = [a.arg for a in f.args.args if a.arg != "self"][0]
        cfg = cfg_of(f)
        edits = []
        for st in stmts_of(f):
            if isinstance(st, ast.Delete):
                edits += [(st, t.value) for t in st.targets if isinstance(t, ast.Subscript)]
            elif isinstance(st, ast.Expr) and isinstance(st.value, ast.Call) and isinstance(st.value.func, ast.Attribute) and st.value.func.attr in ("pop", "clear", "remove", "discard", "popitem") :
                edits.append((st, st.value.func.value))
        n = 0
        for st, tgt in edits:
            root = tgt
            while isinstance(root, (ast.Attribute, ast.Subscript)):
                root = root.value
            if not isinstance(root, ast.Name) or root.id == "self":
                continue
            if root.id == src:
                n += 1
                ctx.ob("15.7-source-untouched", con, False, f"`{norm_stmt(st, 60)}` edits the grammar given as argument: `g.update(other, excluded_names=...)` must leave `other` as it was", node=st)
                continue
            # what the local holds where it is edited: its definitions unfolded through other locals (`b = src.x;
            # b = deepcopy(b)`), under the conditions of the edit (`b = deepcopy(src.x) if c else src.x; if c: del b[k]`)
            vals = _objects(f, root, literal_facts(cfg, cfg.node_of(st)))
            from_src = [v_ for v_ in vals if not (isinstance(v_, ast.Name) and v_.id == root.id) and src in names_in(v_)]
            if not from_src:
                continue
            n += 1
            ok = all(isinstance(v_, ast.Call) and dotted(v_.func) in ("deepcopy", "copy.deepcopy") for v_ in from_src)
            ctx.ob("15.7-source-untouched", con, ok, f"`{norm_stmt(st, 50)}` removes names from `{root.id}`, which is taken from the other grammar without a deep copy ({', '.join(norm_stmt(v_, 40) for v_ in from_src)}): a shallow copy shares the tables of properties, so the OTHER grammar loses the excluded names while its required names and defaults still list them", node=st, stmt=f"{root.id} edited in _update is a deep copy of the source's")
        if cname_ == "JSONGrammar":
            ctx.ob("15.7-source-untouched", con, n >= 1, "the exclusion of names in JSONGrammar._update was not recognised", node=f, stmt="exclusion recognised")


def check_builder_required(ctx: Ctx) -> None:
    """15.8: the required names live in ``_required_names`` only; the schema builder's own ``required`` set is empty
    whenever a method of the grammar returns.

    genson fills it on every add_object (all the keys) and add_schema (the schema's ``required``); __sync_required_names
    fills it for the time of an export.  What stays there is added to the next exported schema (stale required names:
    the pickled state, to_json and the validator then require names that are optional or no longer exist).
    """
    cls = ctx.index.cls(JG, "JSONGrammar")
    sb = {"__schema_builder", mangle("JSONGrammar", "__schema_builder")}

    def is_builder(e) -> bool:
        return isinstance(e, ast.Attribute) and e.attr in sb

    n = 0
    for mname, m in sorted(cls.methods.items()):
        cfg = cfg_of(m)
        clears = [c for c in walk_body(m) if isinstance(c, ast.Call) and isinstance(c.func, ast.Attribute) and c.func.attr == "clear" and isinstance(c.func.value, ast.Attribute) and c.func.value.attr == "required" and is_builder(c.func.value.value) and isinstance(c.func.value.value.value, ast.Name)]
        # the builder of this grammar, or of another grammar the method is filling (the copy made by _copy)
        clear_nodes_of = {}
        for c in clears:
            clear_nodes_of.setdefault(c.func.value.value.value.id, set()).add(cfg.node_of(c))
        clear_nodes = clear_nodes_of.get("self", set())
        for c in walk_body(m):
            if not (isinstance(c, ast.Call) and isinstance(c.func, ast.Attribute)):
                continue
            recv = c.func.value
            if isinstance(recv, ast.Name) and c.func.attr in ("update", "add", "add_object", "add_schema"):
                # a local alias of the builder / of its `required` set
                ra = _objects(m, recv)
                if len(ra) == 1 and isinstance(ra[0], ast.Attribute):
                    recv = ra[0]
            feeds = None
            if c.func.attr == "add_object" and is_builder(recv) and dotted(recv.value) == "self":
                feeds = "add_object makes every key required"
            elif c.func.attr == "add_schema" and is_builder(recv) and isinstance(recv.value, ast.Name) and c.args:
                # under the conditions of the call (a conditional expression decided by the same test is resolved)
                alts = (_objects if isinstance(c.args[0], ast.Name) else _alternatives)(m, c.args[0], literal_facts(cfg, cfg.node_of(c)))
                harmless = all(
                    is_builder(a_)
                    or (isinstance(a_, ast.Call) and last_attr(a_) in ("deepcopy", "copy") and a_.args and is_builder(a_.args[0]))
                    or (isinstance(a_, ast.Dict) and all(isinstance(k_, ast.Constant) for k_ in a_.keys) and "required" not in [k_.value for k_ in a_.keys])
                    for a_ in alts
                )
                if not harmless:
                    feeds = "add_schema takes over the `required` of the schema"
            elif c.func.attr in ("update", "add") and isinstance(recv, ast.Attribute) and recv.attr == "required" and is_builder(recv.value) and dotted(recv.value.value) == "self":
                feeds = "the required names are copied into the builder"
            if feeds is None:
                continue
            n += 1
            cn = cfg.node_of(c)
            owner = recv.value.id if isinstance(recv, ast.Attribute) and isinstance(recv.value, ast.Name) else (recv.value.value.id if isinstance(recv, ast.Attribute) and isinstance(recv.value, ast.Attribute) and isinstance(recv.value.value, ast.Name) else "self")
            own_clears = clear_nodes_of.get(owner, set())
            esc = cfg.escape_path(cn, own_clears) if own_clears else [cn]
            ctx.ob("15.8-builder-required", cname(JG, "JSONGrammar", mname), esc is None, f"{feeds}, and a path leaves {mname} without `self.__schema_builder.required.clear()`: the names stay in the builder and are exported as required by every later schema / to_json / pickled state, whatever `required_names` says", node=c)
    ctx.floor("15.8-builder-required", 5)
    # the required names of an imported schema are read from the schema: the builder intersects them with its own
    # (emptied) set, so that only the first import would contribute any
    f = ctx.index.method(JG, "JSONGrammar", "update_from_schema")
    con = cname(JG, "JSONGrammar", "update_from_schema")
    par = f.args.args[1].arg
    fed = _feeds(f, lambda t_: t_ == "self._required_names")
    upd = [n_ for n_, _ in fed]
    # any other operation on the required names (an operator other than |, a method that is not a feed) is not understood
    other_ops = [s_ for s_ in stmts_of(f) if (as_update(s_) and dotted(as_update(s_)[0]) == "self._required_names" and not any(n_ is s_ for n_ in upd)) or (isinstance(s_, ast.Expr) and isinstance(s_.value, ast.Call) and norm_stmt(s_.value.func).startswith("self._required_names.") and not any(n_ is s_.value for n_ in upd))]
    ok = len(fed) == 1 and not other_ops
    if ok:
        srcs = [a_ for e_ in fed[0][1] for a_ in _alternatives(f, e_)]
        ok = any(par in names_in(e_) for e_ in srcs) and any("required" in norm_stmt(e_, 300) for e_ in srcs) and not any(is_builder(n_) for e_ in srcs for n_ in ast.walk(e_))
    ctx.ob("15.8-builder-required", con, ok, "the required names added by update_from_schema must be those listed by the schema given (schema['required']): the builder's own `required` is the INTERSECTION with what it already holds, i.e. nothing once a first schema has been processed", node=(upd or [f])[0], stmt="required names of the imported schema")


def check_update_switch(ctx: Ctx) -> None:
    """15.9: ``merge=False`` REPLACES the definition of an element.  genson merges by default; the grammar's object
    strategy passes its update switch to the schema nodes around each of genson's two ways in -- ``add_schema`` (from a
    schema: update_from_types / update_from_schema / update) and ``add_object`` (from data: update_from_data /
    update_from_names).  Both are overridden, each running the inherited method inside the switch's context; and the
    context resets the switch afterwards (the node class is shared)."""
    rel = "core/grammars/json_schema.py"
    cls = ctx.index.cls(rel, "_MergeStrategy")
    cm = cls.methods.get("__handle_update") or cls.methods.get(mangle("_MergeStrategy", "__handle_update"))
    ctx.need(cm is not None, "_MergeStrategy.__handle_update not found")
    for entry in ("add_schema", "add_object"):
        m = cls.methods.get(entry)
        ok = m is not None
        node = m or cls.node
        if ok:
            sup = [c for c in walk_body(m) if isinstance(c, ast.Call) and isinstance(c.func, ast.Attribute) and c.func.attr == entry and isinstance(c.func.value, ast.Call) and dotted(c.func.value.func) == "super"]
            withs = [w for w in ast.walk(m) if isinstance(w, ast.With) and any(isinstance(it.context_expr, ast.Call) and (last_attr(it.context_expr) or "").endswith("__handle_update") for it in w.items)]
            ok = len(sup) == 1 and any(any(x is sup[0] for x in ast.walk(w)) for w in withs)
            node = (sup or [m])[0]
        ctx.ob("15.9-update-switch", cname(rel, "_MergeStrategy", entry), ok, f"_MergeStrategy.{entry} must run genson's {entry} inside the update-switch context: without it `merge=False` merges the new definition of an element with the old one (both types accepted) on this way in", node=node, stmt=f"{entry} runs under the update switch")
    cfg = cfg_of(cm)
    ys = [n_ for n_ in walk_body(cm) if isinstance(n_, ast.Yield)]
    sets = [s_ for s_ in stmts_of(cm) if isinstance(s_, ast.Assign) and (dotted(s_.targets[0]) or "").endswith("node_class.update")]
    before = [s_ for s_ in sets if ys and cfg.dominates(cfg.node_of(s_), cfg.node_of(ys[0])) and dotted(s_.value) == "self.update"]
    after = [s_ for s_ in sets if ys and cfg.reachable(cfg.node_of(ys[0]), cfg.node_of(s_))]
    ctx.ob("15.9-update-switch", cname(rel, "_MergeStrategy", "__handle_update"), len(ys) == 1 and bool(before) and bool(after), "the context passes the strategy's switch to the node class before the body and sets it back after", node=cm, stmt="switch passed, then set back")
    # the contexts nest (an object property has a strategy of its own, entered while its parent's is open): leaving the
    # inner one must give the outer one its switch back, i.e. restore the value read on entry -- a constant (False)
    # makes the parent merge every property that comes after a nested object (F46)
    saved = {dotted(s_.targets[0]) for s_ in stmts_of(cm) if isinstance(s_, ast.Assign) and isinstance(s_.targets[0], ast.Name) and (dotted(s_.value) or "").endswith("node_class.update") and before and cfg.dominates(cfg.node_of(s_), cfg.node_of(before[0]))}
    ok = bool(after) and all(dotted(s_.value) in saved for s_ in after)
    ctx.ob("15.9-update-switch", cname(rel, "_MergeStrategy", "__handle_update"), ok, "leaving the context must restore the switch as it was on entry (the contexts of nested objects nest): reset to a constant, the strategy of a nested object switches its parent back to merging, and with merge=False the properties after a nested object keep their old types as well", node=(after or [cm])[0], stmt="switch restored to its value on entry")


def check_required_accessor(ctx: Ctx) -> None:
    """15.10: the grammar writes its required names into the builder through ``builder.required`` right before it
    exports the schema (``__sync_required_names``), and empties it after: the accessor must hand out the builder's OWN
    set -- creating it when genson has not yet -- and never a temporary one while there is a strategy to hold it (F52:
    the schema of a grammar built from types had no ``required``)."""
    rel = "core/grammars/json_schema.py"
    cls = ctx.index.cls(rel, "MutableMappingSchemaBuilder")
    f = cls.properties.get("required") if hasattr(cls, "properties") and isinstance(cls.properties, dict) else None
    f = f or cls.methods.get("required")
    ctx.need(f is not None, "MutableMappingSchemaBuilder.required not found")
    con = cname(rel, "MutableMappingSchemaBuilder", "required")
    handlers = [h for t in ast.walk(f) if isinstance(t, ast.Try) for h in t.handlers]
    in_handler = {id(x) for h in handlers for x in ast.walk(h)}
    n = 0
    for r in [s_ for s_ in stmts_of(f) if isinstance(s_, ast.Return) and s_.value is not None]:
        v = r.value
        while isinstance(v, ast.Call) and dotted(v.func) == "cast" and len(v.args) == 2:
            v = v.args[1]
        fresh = (isinstance(v, ast.Call) and dotted(v.func) in ("set", "frozenset") and not v.args) or (isinstance(v, ast.Set) and not v.elts)
        n += 1
        if fresh:
            ctx.ob("15.10-required-accessor", con, id(r) in in_handler, "a temporary empty set is returned although the builder has a strategy that can hold the required names: what the grammar adds to it before exporting the schema is lost, and the published schema has no `required`", node=r, stmt="no temporary set while there is a strategy")
        else:
            alts = unfolded(f, r, get=lambda s_: s_.value) or [r.value]
            own = all(any(isinstance(x, ast.Attribute) and x.attr == "_required" for x in ast.walk(a_)) for a_ in alts)
            if not own and isinstance(v, ast.Name):
                # a local that is (also) stored back into the strategy: `required = strategy._required = set()`
                own = any(isinstance(s_, ast.Assign) and any(dotted(t) == v.id for t in s_.targets) and any(isinstance(t, ast.Attribute) and t.attr == "_required" for t in s_.targets) for s_ in stmts_of(f)) and any(isinstance(s_, ast.Assign) and any(dotted(t) == v.id for t in s_.targets) and any(isinstance(x, ast.Attribute) and x.attr == "_required" for x in ast.walk(s_.value)) for s_ in stmts_of(f))
            ctx.ob("15.10-required-accessor", con, own, "the accessor must return the strategy's own set of required names", node=r, stmt="the builder's own set is returned")
    ctx.need(n >= 2, "MutableMappingSchemaBuilder.required: returns not found")


def check_rename_hooks(ctx: Ctx) -> None:
    """15.11 every grammar class renames an element by MOVING it (`m[new] = m.pop(current)`): "assign, then delete the old
    key" deletes the element itself when the two names are equal (an identity entry of a renaming table), silently for an
    optional element."""
    from gv.props.shared import literal_facts

    base = ctx.index.cls(BG, "BaseGrammar")
    n = 0
    for cls, f in ctx.index.overriders(base, "_rename_element"):
        if cls == base:
            continue
        n += 1
        con = cname(cls.module.relpath, cls.qualname, "_rename_element")
        cur, new_ = [a.arg for a in f.args.args if a.arg != "self"][:2]
        cfg = cfg_of(f)
        stores = [st for st in stmts_of(f) if isinstance(st, ast.Assign) and isinstance(st.targets[0], ast.Subscript) and dotted(st.targets[0].slice) == new_]
        removals = [st for st in stmts_of(f) if (isinstance(st, ast.Delete) and any(isinstance(t, ast.Subscript) and dotted(t.slice) == cur for t in st.targets)) or (isinstance(st, ast.Expr) and isinstance(st.value, ast.Call) and last_attr(st.value) == "pop" and st.value.args and dotted(st.value.args[0]) == cur)]
        bad = []
        for r in removals:
            guarded = any(((f"{cur} != {new_}" in k_ or f"{new_} != {cur}" in k_) and v_) or ((f"{cur} == {new_}" in k_ or f"{new_} == {cur}" in k_) and not v_) for k_, v_ in literal_facts(cfg, cfg.node_of(r)).items())
            if not guarded and any(cfg.reachable(cfg.node_of(st), cfg.node_of(r)) for st in stores):
                bad.append(r)
        moved = any(isinstance(st.value, ast.Call) and last_attr(st.value) == "pop" and st.value.args and dotted(st.value.args[0]) == cur for st in stores) or bool(removals)
        ctx.ob("15.11-rename-moves", con, not bad and moved and bool(stores), f"{cls.qualname}._rename_element stores the element under the new name and then removes the old key: when the names are equal the element it has just stored is removed (the other grammar classes keep it, so the same history gives different grammars)", node=(bad or stores or [f])[0], stmt="the element is moved: m[new] = m.pop(current)")
    ctx.floor("15.11-rename-moves", 3)


def run(ctx: Ctx) -> None:
    check_required_accessor(ctx)
    check_rename_hooks(ctx)
    check_update_switch(ctx)
    check_update_source_untouched(ctx)
    check_builder_required(ctx)
    check_json(ctx)
    check_pydantic(ctx)
    check_base(ctx)
    check_membership(ctx)
    check_queries(ctx)


# ---------------------------------------------------------------------------
WITNESSES = [
    {"name": "seeded-C15-12", "file": "core/grammars/json_grammar.py", "old": "    def _rename_element(self, current_name: str, new_name: str) -> None:  # noqa: D102\n        self.__schema_builder.properties[new_name] = (\n            self.__schema_builder.properties.pop(current_name)\n        )\n        self.__init_dependencies()\n", "new": "    def _rename_element(self, current_name: str, new_name: str) -> None:  # noqa: D102\n        # Look for the properties only once: they are stored deeply.\n        properties = self.__schema_builder.properties\n        properties[new_name] = properties[current_name]\n        del properties[current_name]\n        self.__init_dependencies()\n", "expect": "15.11", "note": "JSONGrammar._rename_element assigns then deletes instead of popping: renaming an"},
    {"name": "seeded-C15-11", "file": "core/grammars/json_grammar.py", "old": "    def _copy(self, grammar: Self) -> None:\n        # Updating is much faster than deep copying a schema builder.\n        grammar.__schema_builder.add_schema(self.__schema_builder, True)\n        grammar.__schema = self.__schema.copy()\n", "new": "    def _copy(self, grammar: Self) -> None:\n        # Updating is much faster than deep copying a schema builder,\n        # and the cached schema avoids serializing the schema builder again.\n        grammar.__schema_builder.add_schema(self.schema, True)\n        grammar.__schema = self.__schema.copy()\n", "expect": "15.8", "note": "JSONGrammar._copy feeds the copy's schema builder from the cached schema (with i"},
    {"name": "seeded-C15-10", "file": "core/grammars/json_schema.py", "old": "\n    def add_object(self, obj: StrKeyMapping) -> None:\n        with self.__handle_update():\n            super().add_object(obj)\n\n\n", "new": "\n\n", "expect": "15.9", "note": "genson object strategy no longer applies the update switch in add_object (remove"},
    {"name": "update-brings-the-defaults-of-the-excluded-names", "file": BG, "old": "k: v for k, v in grammar._defaults.items() if k not in excluded_names", "new": "k: v for k, v in grammar._defaults.items() if k in excluded_names", "expect": "15.2"},
    {"name": "update-requires-the-excluded-names", "file": BG, "old": "(grammar.keys() - excluded_names).intersection(", "new": "(grammar.keys() & set(excluded_names)).intersection(", "expect": "15.2"},
    {"name": "setstate-leaves-required-in-the-builder", "file": JG, "old": "        # The required names are handled by _required_names.\n        self.__schema_builder.required.clear()\n", "new": "", "expect": "15.8"},
    {"name": "required-of-the-import-read-from-the-builder", "file": JG, "old": "        self._required_names |= set(schema.get(\"required\", ()))\n", "new": "        self._required_names |= self.__schema_builder.required\n", "expect": "15.8"},
    {"name": "update-excludes-on-a-shallow-copy", "file": JG, "old": "            schema_builder = deepcopy(grammar.__schema_builder)", "new": "            schema_builder = copy(grammar.__schema_builder)", "expect": "15.7"},
    {"name": "update-excludes-on-the-source", "file": JG, "old": "            schema_builder = deepcopy(grammar.__schema_builder)", "new": "            schema_builder = grammar.__schema_builder", "expect": "15.7"},
    {"name": "delitem-no-invalidate", "file": JG, "old": "        del self.__schema_builder[name]\n        self.__init_dependencies()", "new": "        del self.__schema_builder[name]", "expect": "15.1"},
    {"name": "rename-no-invalidate", "file": JG, "old": "            self.__schema_builder.properties.pop(current_name)\n        )\n        self.__init_dependencies()", "new": "            self.__schema_builder.properties.pop(current_name)\n        )", "expect": "15.1"},
    {"name": "restrict-invalidate-inside-loop-only", "file": JG, "old": "        for element_name in self.__schema_builder.keys() - names:\n            del self.__schema_builder[element_name]\n        self.__init_dependencies()", "new": "        for element_name in self.__schema_builder.keys() - names:\n            self.__init_dependencies()\n            del self.__schema_builder[element_name]", "expect": "15.1"},
    {"name": "update-from-names-invalidate-before-edit", "file": JG, "old": "        for name in names:\n            self.__schema_builder.add_object({name: [0.0]}, not merge)\n        self.__schema_builder.required.clear()\n        self.__init_dependencies()", "new": "        self.__init_dependencies()\n        for name in names:\n            self.__schema_builder.add_object({name: [0.0]}, not merge)\n        self.__schema_builder.required.clear()", "expect": "15.1"},
    {"name": "set-descriptions-no-invalidate", "file": JG, "old": "                property_schema.add_schema(schema)\n\n        self.__init_dependencies()", "new": "                property_schema.add_schema(schema)\n", "expect": "15.1"},
    {"name": "init-dependencies-keeps-validator", "file": JG, "old": "        self.__validator = None\n        self.__schema = {}", "new": "        self.__schema = {}", "expect": "15.1"},
    {"name": "validator-compiled-once", "file": JG, "old": "        if self.__validator is None:\n            self._create_validator()", "new": "        if self.__validator is None and not self.__schema:\n            self._create_validator()", "expect": "15.1"},
    {"name": "validator-pops-from-cache", "file": JG, "old": "        schema = dict(self.schema)\n        schema.pop(\"id\", None)\n        schema.pop(\"required\", None)\n        self.__validator = compile_schema(schema)", "new": "        self.schema.pop(\"id\", None)\n        self.schema.pop(\"required\", None)\n        self.__validator = compile_schema(self.schema)", "expect": "15.5"},
    {"name": "required-change-not-notified", "file": RN, "old": "        self.__names.discard(name)\n        self.__grammar._handle_required_names_change()", "new": "        self.__names.discard(name)", "expect": "15.1"},
    {"name": "hook-keeps-schema", "file": JG, "old": "        # The required names are part of the cached schema.\n        self.__schema = {}", "new": "        # The required names are part of the cached schema.\n        pass", "expect": "15.1"},
    {"name": "pydantic-delitem-no-flag", "file": PG, "old": "        del self.__model.model_fields[name]\n        self.__model_needs_rebuild = True\n\n    def _copy", "new": "        del self.__model.model_fields[name]\n\n    def _copy", "expect": "15.1b"},
    {"name": "pydantic-update-no-flag", "file": PG, "old": "            fields[name] = FieldInfo(annotation=annotation)\n        self.__model_needs_rebuild = True\n", "new": "            fields[name] = FieldInfo(annotation=annotation)\n", "expect": "15.1b"},
    {"name": "pydantic-validate-no-rebuild", "file": PG, "old": "        self.__rebuild_model()\n        try:", "new": "        try:", "expect": "15.1b"},
    {"name": "pydantic-schema-no-rebuild", "file": PG, "old": "        self.__rebuild_model()\n        return self.__model.model_json_schema()", "new": "        return self.__model.model_json_schema()", "expect": "15.1b"},
    {"name": "pydantic-flag-cleared-before-rebuild", "file": PG, "old": "            self.__model.model_rebuild(force=True)\n            self.__model_needs_rebuild = False", "new": "            self.__model_needs_rebuild = False\n            self.__model.model_rebuild(force=True)", "expect": "15.1b"},
    {"name": "delitem-keeps-required", "file": BG, "old": "        self._defaults.pop(name, None)\n        self._required_names.discard(name)\n        self._delitem(name)", "new": "        self._defaults.pop(name, None)\n        self._delitem(name)", "expect": "15.2"},
    {"name": "delitem-keeps-default", "file": BG, "old": "        self._defaults.pop(name, None)\n        self._required_names.discard(name)\n        self._delitem(name)", "new": "        self._required_names.discard(name)\n        self._delitem(name)", "expect": "15.2"},
    {"name": "restrict-keeps-required", "file": BG, "old": "        self._required_names &= set(names)\n", "new": "", "expect": "15.2"},
    {"name": "rename-drops-required", "file": BG, "old": "            self._required_names.remove(current_name)\n            self._required_names.add(new_name)", "new": "            self._required_names.remove(current_name)", "expect": "15.2"},
    {"name": "rename-default-under-old-name", "file": BG, "old": "            self._defaults[new_name] = self._defaults.pop(current_name)", "new": "            self._defaults[current_name] = self._defaults.pop(current_name)", "expect": "15.2"},
    {"name": "rename-moves-the-default-by-value", "file": BG, "old": "        if current_name in self._defaults:\n            self._defaults[new_name] = self._defaults.pop(current_name)", "new": "        default_value = self._defaults.pop(current_name, None)\n        if default_value is not None:\n            self._defaults[new_name] = default_value", "expect": "15.2"},
    {"name": "rename-moves-the-default-if-truthy", "file": BG, "old": "        if current_name in self._defaults:\n            self._defaults[new_name] = self._defaults.pop(current_name)", "new": "        if self._defaults.get(current_name):\n            self._defaults[new_name] = self._defaults.pop(current_name)", "expect": "15.2"},
    {"name": "clear-keeps-required", "file": BG, "old": "        self._defaults = Defaults(self, {})\n        self._required_names = RequiredNames(self)", "new": "        self._defaults = Defaults(self, {})", "expect": "15.2"},
    {"name": "update-required-ignores-exclusions", "file": BG, "old": "        self._required_names |= (grammar.keys() - excluded_names).intersection(\n            grammar._required_names.get_names_difference(excluded_names)\n        )", "new": "        self._required_names |= set(grammar._required_names)", "expect": "15.2"},
    {"name": "required-add-unchecked", "file": RN, "old": "        self.__grammar._check_name(name)\n        self.__names.add(name)", "new": "        self.__names.add(name)", "expect": "15.3"},
    {"name": "defaults-set-unchecked", "file": DF, "old": "        if name not in self.__grammar:\n            msg = f\"The name {name} is not in the grammar.\"\n            raise KeyError(msg)\n        self.__data[name] = value", "new": "        self.__data[name] = value", "expect": "15.3"},
    {"name": "missing-names-accepted", "file": BG, "old": "            error_message.add(f\"Missing required names: {pretty_str(missing_names)}.\")\n            data_is_valid = False", "new": "            error_message.add(f\"Missing required names: {pretty_str(missing_names)}.\")\n            data_is_valid = True", "expect": "15.4"},
    {"name": "getitem-writes-state", "file": JG, "old": "    def __getitem__(self, name: str) -> Any:\n        return self.__schema_builder[name]", "new": "    def __getitem__(self, name: str) -> Any:\n        self.__schema = {}\n        return self.__schema_builder[name]", "expect": "15.5"},
    {"name": "copy-shares-required-names", "file": BG, "old": "        grammar._required_names = RequiredNames(grammar, self._required_names)", "new": "        grammar._required_names = copy(self._required_names)", "expect": "15.6"},
    {"name": "copy-binds-to-original", "file": BG, "old": "        grammar._required_names = RequiredNames(grammar, self._required_names)", "new": "        grammar._required_names = RequiredNames(self, self._required_names)", "expect": "15.6"},
    {"name": "copy-holds-the-original-table", "file": SG, "old": "grammar.__names_to_types = self.__names_to_types.copy()", "new": "grammar.__names_to_types = {\"all\": self.__names_to_types}", "expect": "15.6"},
    {"name": "copy-defaults-loop-over-its-own", "file": BG, "old": "        grammar._defaults.update(self._defaults)\n", "new": "        for name, value in grammar._defaults.items():\n            grammar._defaults[name] = value\n", "expect": "15.6"},
    {"name": "setstate-flag-raised-then-lowered-by-clear", "file": PG, "old": "            self._clear()\n            self.__model.model_fields = cast(\"dict[str, FieldInfo]\", fields_info)\n            self.__model_needs_rebuild = True\n", "new": "            self.__model_needs_rebuild = True\n            self._clear()\n            self.__model.model_fields = cast(\"dict[str, FieldInfo]\", fields_info)\n", "expect": "15.1b"},
    {"name": "delitem-flag-raised-on-one-branch", "file": PG, "old": "        del self.__model.model_fields[name]\n        self.__model_needs_rebuild = True\n\n    def _copy", "new": "        if name:\n            self.__model_needs_rebuild = True\n        del self.__model.model_fields[name]\n\n    def _copy", "expect": "15.1b"},
    {"name": "update-local-then-shallow-copy", "file": JG, "old": "        if excluded_names:\n            schema_builder = deepcopy(grammar.__schema_builder)\n", "new": "        schema_builder = grammar.__schema_builder\n        if excluded_names:\n            schema_builder = copy(schema_builder)\n", "expect": "15.7"},
    {"name": "import-loop-reads-the-builder", "file": JG, "old": "        self._required_names |= set(schema.get(\"required\", ()))\n", "new": "        for required_name in self.__schema_builder.required:\n            self._required_names.add(required_name)\n", "expect": "15.8"},
    {"name": "update-defaults-loop-ignores-exclusions", "file": BG, "old": "        self._defaults.update({\n            k: v for k, v in grammar._defaults.items() if k not in excluded_names\n        })\n", "new": "        for k, v in grammar._defaults.items():\n            self._defaults[k] = v\n", "expect": "15.2"},
    {"name": "sync-window-never-closed", "file": JG, "old": "        self.__schema_builder.required.update(self._required_names)\n        yield\n        self.__schema_builder.required.clear()", "new": "        self.__schema_builder.required.update(self._required_names)\n        yield", "expect": "15.5"},
]
TWINS = [
    {"name": "invalidate-through-local-alias", "file": JG, "old": "        del self.__schema_builder[name]\n        self.__init_dependencies()", "new": "        del self.__schema_builder[name]\n        if True:\n            self.__init_dependencies()"},
    {"name": "delitem-order", "file": BG, "old": "        self._defaults.pop(name, None)\n        self._required_names.discard(name)\n        self._delitem(name)", "new": "        self._required_names.discard(name)\n        self._defaults.pop(name, None)\n        self._delitem(name)"},
    {"name": "rename-default-with-a-local", "file": BG, "old": "        if current_name in self._defaults:\n            self._defaults[new_name] = self._defaults.pop(current_name)", "new": "        if current_name in self._defaults:\n            moved = self._defaults.pop(current_name)\n            self._defaults[new_name] = moved"},
    {"name": "copy-table-by-unpacking", "file": SG, "old": "grammar.__names_to_types = self.__names_to_types.copy()", "new": "grammar.__names_to_types = {**self.__names_to_types}"},
    {"name": "copy-flag-before-fields", "file": PG, "old": "        grammar.__model.model_fields = dict(self.__model.model_fields)\n        grammar.__model_needs_rebuild = True\n", "new": "        grammar.__model_needs_rebuild = True\n        grammar.__model.model_fields = dict(self.__model.model_fields)\n"},
    {"name": "update-local-then-deepcopy", "file": JG, "old": "        if excluded_names:\n            schema_builder = deepcopy(grammar.__schema_builder)\n", "new": "        schema_builder = grammar.__schema_builder\n        if excluded_names:\n            schema_builder = deepcopy(schema_builder)\n"},
    {"name": "update-required-element-by-element", "file": BG, "old": "        self._required_names |= (grammar.keys() - excluded_names).intersection(\n            grammar._required_names.get_names_difference(excluded_names)\n        )\n", "new": "        for name in (grammar.keys() - excluded_names).intersection(\n            grammar._required_names.get_names_difference(excluded_names)\n        ):\n            self._required_names.add(name)\n"},
    {"name": "validator-copy-with-braces", "file": JG, "old": "        schema = dict(self.schema)\n", "new": "        schema = {**self.schema}\n"},
]
