"""C17 -- MDO formulations: three structural clauses (the MDF/IDF equivalence itself is numerical)."""

from __future__ import annotations

import ast
import copy

from gv import rules
from gv.astutil import AnalysisError
from gv.astutil import arg_or_kw
from gv.astutil import compare_parts
from gv.astutil import dotted
from gv.astutil import last_attr
from gv.astutil import names_in
from gv.astutil import norm_stmt
from gv.astutil import stmts_of
from gv.astutil import walk_body
from gv.cfg import cfg_of
from gv.props.shared import unfolded
from gv.cursor import check_cursor_loops
from gv.props import describe
from gv.props.shared import branch_conditions
from gv.report import Ctx
from gv.report import cname

MDF = "formulations/mdf.py"
IDF = "formulations/idf.py"
BF = "formulations/base_formulation.py"
CC = "core/mdo_functions/consistency_constraint.py"

describe(
    "C17",
    explanation=(
        "Equality of MDF and IDF values/derivatives and of their optima is numerical and NOT decided. Decided: "
        "each formulation keeps the variables it optimises (MDF removes every coupling from the design space "
        "before building its functions, IDF refuses a design space that lacks a coupling); value and Jacobian of "
        "the consistency constraints subtract in the same order and scale by the same factor under the same "
        "flag; the identity block of the constraint Jacobian is placed at the rows of an output coupling and the "
        "columns of the design variable of the same name; the mask builders advance their cursors by the size of "
        "the loop's own variable."
    ),
    decided=["17.1 design-space content per formulation", "17.2 consistency constraint value/Jacobian agreement", "17.3 identity block placement", "17.4 mask cursors", "17.6 design space of the disciplinary formulation", "17.7 input sizes of the discipline adapter", "17.9 every block of the reused Jacobian buffer rewritten at every call"],
    not_decided=["equality of MDF and IDF values and derivatives at consistent couplings", "same optimum"],
)


def _alts(func: ast.AST, e: ast.AST) -> list[ast.AST]:
    """The alternatives of an expression of ``func`` with its locals unfolded (the expression itself when the
    analysis has nothing to say)."""
    try:
        out = unfolded(func, e)
    except AnalysisError:
        out = None
    return list(out) if out else [e]


_NEGATED = {ast.NotIn: ast.In, ast.NotEq: ast.Eq, ast.IsNot: ast.Is}


def _positive(test: ast.AST, value: bool) -> tuple[ast.AST, bool]:
    """(positive condition, outcome): ``not c`` / ``a not in b`` / ``a != b`` with outcome v is ``c`` / ``a in b`` /
    ``a == b`` with outcome not v."""
    while True:
        if isinstance(test, ast.UnaryOp) and isinstance(test.op, ast.Not):
            test, value = test.operand, not value
            continue
        cp = compare_parts(test)
        if cp is not None and cp[1] in _NEGATED:
            test = ast.copy_location(ast.Compare(left=cp[0], ops=[_NEGATED[cp[1]]()], comparators=[cp[2]]), test)
            value = not value
        return test, value


def _couplings_missing(e: ast.AST, outcome: bool) -> bool:
    """``e`` (locals unfolded) having the truth value ``outcome`` means: some coupling is not in the design space.

    Spellings: ``C.issubset(D)`` / ``C <= D`` / ``D.issuperset(C)`` / ``D >= C`` false; ``C - D`` (the missing ones)
    / ``len(C - D)`` / ``len(C - D) > 0`` true; ``len(C - D) == 0`` false."""
    if isinstance(e, ast.Call) and dotted(e.func) == "len" and len(e.args) == 1 and not e.keywords:
        return _couplings_missing(e.args[0], outcome)
    if isinstance(e, ast.Call) and dotted(e.func) == "bool" and len(e.args) == 1 and not e.keywords:
        return _couplings_missing(e.args[0], outcome)
    cp = compare_parts(e)
    if cp is not None and isinstance(cp[2], ast.Constant) and cp[2].value == 0 and isinstance(cp[0], ast.Call) and dotted(cp[0].func) == "len":
        if cp[1] in (ast.Gt, ast.NotEq):
            return _couplings_missing(cp[0], outcome)
        if cp[1] is ast.Eq:
            return _couplings_missing(cp[0], not outcome)
        return False
    sub = sup = None
    if isinstance(e, ast.Call) and isinstance(e.func, ast.Attribute) and len(e.args) == 1 and not e.keywords and e.func.attr in ("issubset", "issuperset"):
        sub, sup = (e.func.value, e.args[0]) if e.func.attr == "issubset" else (e.args[0], e.func.value)
        want = False
    elif cp is not None and cp[1] in (ast.LtE, ast.GtE):
        sub, sup = (cp[0], cp[2]) if cp[1] is ast.LtE else (cp[2], cp[0])
        want = False
    elif isinstance(e, ast.BinOp) and isinstance(e.op, ast.Sub):
        sub, sup = e.left, e.right
        want = True
    elif isinstance(e, ast.Call) and isinstance(e.func, ast.Attribute) and e.func.attr == "difference" and len(e.args) == 1 and not e.keywords:
        sub, sup = e.func.value, e.args[0]
        want = True
    if sub is None or outcome is not want:
        return False
    return "all_couplings" in norm_stmt(sub) and "design_space" not in norm_stmt(sub) and "design_space" in norm_stmt(sup) and "all_couplings" not in norm_stmt(sup)


def check_design_spaces(ctx: Ctx) -> None:
    f = ctx.index.method(MDF, "MDF", "__init__")
    con = cname(MDF, "MDF", "__init__")
    cfg = cfg_of(f)
    upd = rules.self_calls(f, "_update_design_space")
    obj = rules.self_calls(f, "_build_objective_from_disc")
    mda = rules.assigns_to_self(f, "mda")
    ok = len(upd) == 1 and len(obj) == 1 and len(mda) == 1 and cfg.must_pass(cfg.entry, {cfg.node_of(upd[0])}) and cfg.reachable(cfg.node_of(mda[0]), cfg.node_of(upd[0])) and cfg.reachable(cfg.node_of(upd[0]), cfg.node_of(obj[0])) and not cfg.reachable(cfg.node_of(obj[0]), cfg.node_of(upd[0]))
    ctx.ob("17.1-mdf", con, ok, "MDF must create its MDA, then clean the design space, then build its functions (the couplings are known from the MDA; the functions are built over the cleaned design space)", node=(upd or [f])[0])
    g = ctx.index.method(MDF, "MDF", "_update_design_space")
    rc = rules.self_calls(g, "_remove_couplings_from_ds")
    cg = cfg_of(g)
    ok = len(rc) == 1 and cg.must_pass(cg.entry, {cg.node_of(rc[0])})
    ctx.ob("17.1-mdf", cname(MDF, "MDF", "_update_design_space"), ok, "MDF must remove the couplings from the design space (the MDA solves them): an optimiser would otherwise move variables that the MDA overwrites", node=(rc or [g])[0])
    h = ctx.index.method(MDF, "MDF", "_remove_couplings_from_ds")
    loops = [s for s in stmts_of(h) if isinstance(s, ast.For)]
    ok = len(loops) == 1 and all(norm_stmt(a_) == "self.mda.coupling_structure.all_couplings" for a_ in _alts(h, loops[0].iter))
    rm = [c for c in walk_body(h) if isinstance(c, ast.Call) and last_attr(c) == "remove_variable"]
    ch = cfg_of(h)
    ok = ok and len(rm) == 1 and len(rm[0].args) == 1 and dotted(rm[0].args[0]) == dotted(loops[0].target) and isinstance(rm[0].func, ast.Attribute)
    if ok:
        # the removal runs exactly under ``<coupling> in <design space>``, however the test is spelled (``if c in ds:
        # remove`` or ``if c not in ds: continue``); the design space tested is the one the variable is removed from
        conds = [_positive(ch.ast[t].test, v) for t, v in branch_conditions(ch, ch.node_of(rm[0])) if ch.kind[t] == "test"]
        ok = len(conds) == 1 and conds[0][1] is True
        if ok:
            cp = compare_parts(conds[0][0])
            ok = cp is not None and cp[1] is ast.In and dotted(cp[0]) == dotted(loops[0].target)
            if ok:
                tested = {norm_stmt(a_) for a_ in _alts(h, cp[2])}
                removed_from = {norm_stmt(a_) for a_ in _alts(h, rm[0].func.value)}
                ok = tested == removed_from and len(tested) == 1 and next(iter(tested)).endswith("optimization_problem.design_space")
    ctx.ob("17.1-mdf", cname(MDF, "MDF", "_remove_couplings_from_ds"), ok, "every coupling of the MDA that is in the design space must be removed from it", node=(rm or [h])[0])
    f = ctx.index.method(IDF, "IDF", "__init__")
    con = cname(IDF, "IDF", "__init__")
    cfg = cfg_of(f)
    upd = rules.self_calls(f, "_update_design_space")
    bc = rules.self_calls(f, "_build_constraints")
    ac = rules.assigns_to_self(f, "all_couplings")
    ok = len(upd) == 1 and len(bc) == 1 and len(ac) == 1 and cfg.must_pass(cfg.entry, {cfg.node_of(upd[0])}) and cfg.reachable(cfg.node_of(ac[0]), cfg.node_of(upd[0])) and cfg.reachable(cfg.node_of(upd[0]), cfg.node_of(bc[0])) and not cfg.reachable(cfg.node_of(bc[0]), cfg.node_of(upd[0]))
    ctx.ob("17.1-idf", con, ok, "IDF must compute its couplings, check the design space, then build the consistency constraints", node=(upd or [f])[0])
    ok = ac and norm_stmt(ac[0].value) == "self.coupling_structure.all_couplings"
    ctx.ob("17.1-idf", con, bool(ok), "the couplings of IDF are all the couplings of the coupling structure of its disciplines", node=(ac or [f])[0], stmt="all_couplings")
    g = ctx.index.method(IDF, "IDF", "_update_design_space")
    cg = cfg_of(g)
    raises = [s for s in stmts_of(g) if isinstance(s, ast.Raise)]
    ok = len(raises) == 1
    if ok:
        conds = [_positive(cg.ast[t].test, v) for t, v in branch_conditions(cg, cg.node_of(raises[0])) if cg.kind[t] == "test"]
        ok = len(conds) == 1 and all(_couplings_missing(a_, conds[0][1]) for a_ in _alts(g, conds[0][0]))
    ctx.ob("17.1-idf", cname(IDF, "IDF", "_update_design_space"), ok, "IDF must refuse a design space that does not contain every coupling (they are its optimisation variables)", node=(raises or [g])[0])


_FLAG = "__formulation.normalize_constraints"


def _returned(f: ast.AST, normalized: bool) -> list[tuple[ast.Return, list[ast.AST]]]:
    """(return statement, alternatives of the returned expression with the locals unfolded) for every value the function can return when
    the normalisation flag of the formulation has the given value -- whatever the control structure that selects it
    (early return, if/else, conditional expression, a result rescaled under the flag)."""
    keys = {norm_stmt(n) for n in ast.walk(f) if isinstance(n, ast.Attribute) and norm_stmt(n).replace("_ConsistencyConstraint", "").endswith(_FLAG)}
    facts = dict.fromkeys(keys, normalized)
    out = []
    for r in [s for s in stmts_of(f) if isinstance(s, ast.Return) and s.value is not None]:
        try:
            alts = unfolded(f, r, facts=facts, get=lambda r_: r_.value) if facts else None
        except AnalysisError:
            alts = None
        if alts:
            out.append((r, list(alts)))
    return out


def _plain(e: ast.AST) -> str:
    return norm_stmt(e).replace("_ConsistencyConstraint", "")


def _per_row(e: ast.AST) -> bool:
    """``e`` is the vector of normalisation factors laid out as a column (one factor per ROW of the Jacobian):
    ``f[:, newaxis]`` / ``f[:, None]`` / ``f.reshape(-1, 1)`` / ``f.reshape((-1, 1))``."""

    def minus_one(x):
        return isinstance(x, ast.UnaryOp) and isinstance(x.op, ast.USub) and isinstance(x.operand, ast.Constant) and x.operand.value == 1 or isinstance(x, ast.Constant) and x.value == -1

    if isinstance(e, ast.Subscript) and _plain(e.value) == "self.__norm_fact" and isinstance(e.slice, ast.Tuple) and len(e.slice.elts) == 2:
        rows, new = e.slice.elts
        full = isinstance(rows, ast.Slice) and rows.lower is None and rows.upper is None and rows.step is None
        axis = isinstance(new, ast.Constant) and new.value is None or (dotted(new) or "").split(".")[-1] == "newaxis"
        return full and axis
    if isinstance(e, ast.Call) and isinstance(e.func, ast.Attribute) and e.func.attr == "reshape" and _plain(e.func.value) == "self.__norm_fact" and not e.keywords:
        shape = e.args[0].elts if len(e.args) == 1 and isinstance(e.args[0], ast.Tuple) else e.args
        return len(shape) == 2 and minus_one(shape[0]) and isinstance(shape[1], ast.Constant) and shape[1].value == 1
    return False


def _is_target(ctx: Ctx, e: ast.AST, x: str) -> bool:
    """``e`` is the part of the design vector ``x`` that holds the output couplings: ``formulation.mask_x_swap_order(
    output couplings, x)`` or what that accessor returns, ``x[formulation.get_x_mask_x_swap_order(output couplings)]``
    (all the data names left to their default: the design space)."""

    def names_ok(call, extra):
        n = arg_or_kw(call, 0, "masking_data_names")
        a = arg_or_kw(call, extra, "all_data_names")
        return n is not None and _plain(n) == "self.__output_couplings" and a is None and len(call.args) + len(call.keywords) == extra

    if isinstance(e, ast.Call) and isinstance(e.func, ast.Attribute) and e.func.attr == "mask_x_swap_order" and _plain(e.func.value) == "self.__formulation":
        v = arg_or_kw(e, 1, "x_vect")
        return v is not None and dotted(v) == x and names_ok(e, 2)
    if isinstance(e, ast.Subscript) and dotted(e.value) == x and isinstance(e.slice, ast.Call) and isinstance(e.slice.func, ast.Attribute) and e.slice.func.attr == "get_x_mask_x_swap_order" and _plain(e.slice.func.value) == "self.__formulation":
        # only as long as mask_x_swap_order is that very accessor
        m = ctx.index.method(BF, "BaseFormulation", "mask_x_swap_order")
        ret = [s for s in stmts_of(m) if isinstance(s, ast.Return)]
        acc = len(ret) == 1 and all(isinstance(a_, ast.Subscript) and dotted(a_.value) == "x_vect" and norm_stmt(a_.slice) == "self.get_x_mask_x_swap_order(masking_data_names, all_data_names)" for a_ in _alts(m, ret[0].value))
        return acc and names_ok(e.slice, 1)
    return False


def check_constraint(ctx: Ctx) -> None:
    fv = ctx.index.method(CC, "ConsistencyConstraint", "_func_to_wrap")
    fj = ctx.index.method(CC, "ConsistencyConstraint", "_jac_to_wrap")
    conv, conj = cname(CC, "ConsistencyConstraint", "_func_to_wrap"), cname(CC, "ConsistencyConstraint", "_jac_to_wrap")
    pv = {"normalized": _returned(fv, True), "plain": _returned(fv, False)}
    pj = {"normalized": _returned(fj, True), "plain": _returned(fj, False)}
    ctx.need(all(pv.values()) and all(pj.values()), "ConsistencyConstraint: the normalised/plain returns were not found")
    xv, xj = fv.args.args[1].arg, fj.args.args[1].arg

    def coupling(e, methods, x):
        """(text of the coupling function) when ``e`` is ``<function>.<method>(x)``."""
        if isinstance(e, ast.Call) and isinstance(e.func, ast.Attribute) and e.func.attr in methods and len(e.args) == 1 and not e.keywords and dotted(e.args[0]) == x:
            return _plain(e.func.value)
        return None

    def difference(e):
        return (e.left, e.right) if isinstance(e, ast.BinOp) and isinstance(e.op, ast.Sub) else (None, None)

    # value: coupling(x) - target
    funcs_v = set()
    for r, alts in pv["plain"]:
        d = [difference(e) for e in alts]
        fns = [coupling(left, ("evaluate", "func"), xv) if left is not None else None for left, _ in d]
        funcs_v |= set(fns)
        ctx.ob("17.2-order", conv, None not in fns and all(coupling(right, ("evaluate", "func"), xv) is None for _, right in d), "the consistency constraint is coupling(x) - target", node=r)
        ctx.ob("17.2-order", conv, all(right is not None and _is_target(ctx, right, xv) for _, right in d), "the target is the part of the design vector holding the output couplings", node=r, stmt="target = mask(output couplings, x)")
    # Jacobian: d coupling - d target
    funcs_j = set()
    for r, alts in pj["plain"]:
        d = [difference(e) for e in alts]
        fns = [coupling(left, ("jac", "_jac"), xj) if left is not None else None for left, _ in d]
        funcs_j |= set(fns)
        ctx.ob("17.2-order", conj, None not in fns and all(coupling(right, ("jac", "_jac"), xj) is None for _, right in d), "the Jacobian of the consistency constraint must subtract in the same order as its value: d coupling - d target", node=r)
    ok = None not in funcs_v and None not in funcs_j and len(funcs_v) == 1 and funcs_v == funcs_j
    ctx.ob("17.2-order", conj, ok, "value and Jacobian must come from the same coupling function at the same point", node=pj["plain"][0][0], stmt="coupling function evaluated/differentiated at x_vect")
    # scaling: the same differences, divided by the factor (value) / by the factor of each row (Jacobian)
    for fn_con, p_, divisor, what in (
        (conv, pv, lambda e: _plain(e) == "self.__norm_fact", "the normalised constraint divides the same difference by the normalisation factor"),
        (conj, pj, _per_row, "the normalised Jacobian divides each row by the factor of its constraint component (norm_fact[:, newaxis]): without the new axis the factors scale the columns"),
    ):
        plain = {_plain(e) for _, alts in p_["plain"] for e in alts}
        scaled = set()
        for r, alts in p_["normalized"]:
            ok = all(isinstance(e, ast.BinOp) and isinstance(e.op, ast.Div) and _plain(e.left) in plain and divisor(e.right) for e in alts)
            scaled |= {_plain(e.left) for e in alts} if ok else set()
            ctx.ob("17.2-scaling", fn_con, ok, what, node=r)
        ctx.ob("17.2-scaling", fn_con, scaled == plain, "every difference returned without normalisation is returned divided by the factor with it", node=p_["normalized"][0][0], stmt="normalised and plain results are the same differences")


def _dv_len_of(e: ast.AST) -> str | None:
    """The variable whose size ``e`` is (``self.__dv_len[<name>]``: the sizes of the design space)."""
    if isinstance(e, ast.Subscript) and _plain(e.value) == "self.__dv_len":
        return dotted(e.slice)
    return None


def _is_length_of(e: ast.AST, x: str) -> bool:
    """``e`` is the number of components of the (one-dimensional) design vector ``x``."""
    if isinstance(e, ast.Call) and dotted(e.func) == "len" and len(e.args) == 1 and not e.keywords:
        return dotted(e.args[0]) == x
    if isinstance(e, ast.Subscript) and dotted(e.value) == f"{x}.shape":
        i = e.slice
        return isinstance(i, ast.Constant) and i.value == 0 or norm_stmt(i) == "-1"
    return dotted(e) == f"{x}.size"


_OPTIM_NAMES = ("self.__formulation.get_optim_variable_names()", "self.__formulation.design_space.variable_names", "self.__formulation.optimization_problem.design_space.variable_names")


def _check_jacobian_frame(ctx: Ctx, con: str, f: ast.AST, s: ast.Assign, names: ast.AST) -> None:
    """The matrix receiving the identity blocks has one column per component of the design vector, and the columns
    are enumerated (``names``) in the order of the optimisation variables of the design space."""
    x = f.args.args[1].arg
    z = [x_ for x_ in stmts_of(f) if isinstance(x_, ast.Assign) and isinstance(x_.value, ast.Call) and last_attr(x_.value) == "zeros" and dotted(x_.targets[0]) == dotted(s.targets[0].value)]
    ok = len(z) == 1
    if ok:
        shape = arg_or_kw(z[0].value, 0, "shape")
        ok = isinstance(shape, ast.Tuple) and len(shape.elts) == 2 and all(_is_length_of(a_, x) for a_ in _alts(f, shape.elts[1]))
    ctx.ob("17.3-window", con, ok, "the target Jacobian has one column per component of the design vector", node=(z or [f])[0], stmt="zeros((n_outs, len(x_vect)))")
    # get_optim_variable_names() is the accessor of design_space.variable_names (checked on BaseFormulation)
    acc = ctx.index.method(BF, "BaseFormulation", "get_optim_variable_names")
    ret = [r for r in stmts_of(acc) if isinstance(r, ast.Return)]
    plain_accessor = len(ret) == 1 and all(norm_stmt(a_) == "self.optimization_problem.design_space.variable_names" for a_ in _alts(acc, ret[0].value))
    allowed = _OPTIM_NAMES if plain_accessor else _OPTIM_NAMES[:1]
    ok = all(_plain(a_) in allowed for a_ in _alts(f, names))
    ctx.ob("17.3-window", con, ok, "columns follow the order of the optimisation variables of the design space", node=names, stmt="columns in design-space order")


def _check_identity_block_by_lookup(ctx: Ctx, con: str, f: ast.AST, s: ast.Assign, loop: ast.For) -> None:
    """The same facts when the columns of an output coupling are not found by scanning the design variables with a
    running cursor but looked up in the table of windows that the formulation computes over the optimisation variables
    (``formulation._get_dv_indices(names)[coupling]`` = (start, end, size), checked by 17.4 on BaseFormulation)."""
    cfg = cfg_of(f)
    ctx.need("__output_couplings" in norm_stmt(loop.iter) and isinstance(loop.target, ast.Name), "_jac_to_wrap: the loop over the output couplings was not found")
    ov = loop.target.id
    rows, cols = s.targets[0].slice.elts
    looked = [u for u in stmts_of(f) if isinstance(u, ast.Assign) and isinstance(u.targets[0], ast.Tuple) and len(u.targets[0].elts) == 3 and isinstance(u.value, ast.Subscript) and any(u is x for x in ast.walk(loop)) and cfg.dominates(cfg.node_of(u), cfg.node_of(s))]
    tables = []
    ok = len(looked) == 1
    if ok:
        tables = _alts(f, looked[0].value.value)
        ok = all(isinstance(t, ast.Call) and _plain(t.func) == "self.__formulation._get_dv_indices" and len(t.args) == 1 and not t.keywords for t in tables)
    ctx.need(ok, "_jac_to_wrap: neither two nested loops (outputs, design variables) nor a lookup of the column windows were found")
    lo, hi, n = (dotted(e) for e in looked[0].targets[0].elts)
    unconditional = not [t for t, v in branch_conditions(cfg, cfg.node_of(s)) if cfg.kind[t] == "test" and any(sub is cfg.ast[t] for sub in ast.walk(loop))]
    ok = dotted(looked[0].value.slice) == ov and unconditional
    ctx.ob("17.3-same-name", con, ok, "the identity block belongs to the design variable that has the same name as the output coupling", node=s, stmt="column window looked up under the name of the output coupling")
    same_name = ok
    incs = {x.target.id for x in ast.walk(loop) if isinstance(x, ast.AugAssign) and isinstance(x.target, ast.Name)}
    ok = bool(names_in(rows) & incs) and cols.step is None and lo is not None and hi is not None and lo != hi and dotted(cols.lower) == lo and dotted(cols.upper) == hi and not (names_in(rows) & {lo, hi, n})
    ctx.ob("17.3-window", con, ok, "rows of the block are the window of the output coupling (outer cursor), columns the window of the design variable (inner cursor)", node=s, stmt="rows <- output cursor, columns <- design-variable cursor")
    size = arg_or_kw(s.value, 0, "N") or arg_or_kw(s.value, 0, "n")
    ok = size is not None and ((n is not None and dotted(size) == n) or all(_dv_len_of(e) == ov for e in _alts(f, size))) and same_name
    ctx.ob("17.3-window", con, ok, "the identity has the size of the design variable of the inner loop", node=s, stmt="eye(size of the loop's design variable)")
    names = tables[0].args[0]
    ok = len({norm_stmt(t.args[0]) for t in tables}) == 1
    _check_jacobian_frame(ctx, con, f, s, names if ok else loop.iter)
    check_cursor_loops(ctx, "17.4-cursor", con, f, min_loops=1)


def check_identity_block(ctx: Ctx) -> None:
    f = ctx.index.method(CC, "ConsistencyConstraint", "_jac_to_wrap")
    con = cname(CC, "ConsistencyConstraint", "_jac_to_wrap")
    cfg = cfg_of(f)
    st = [s for s in stmts_of(f) if isinstance(s, ast.Assign) and isinstance(s.targets[0], ast.Subscript) and isinstance(s.value, ast.Call) and last_attr(s.value) in ("eye", "identity")]
    ctx.need(len(st) == 1, "_jac_to_wrap: identity block store not found")
    s = st[0]
    sl = s.targets[0].slice
    ok = isinstance(sl, ast.Tuple) and len(sl.elts) == 2 and all(isinstance(e, ast.Slice) for e in sl.elts)
    ctx.need(ok, "_jac_to_wrap: the identity block is not stored in a [rows, columns] window")
    loops = [cfg.ast[t] for (t, v), b in cfg.branch.items() if v and cfg.kind[t] == "loop" and cfg.dominates(b, cfg.node_of(s))]
    if len(loops) == 1:
        return _check_identity_block_by_lookup(ctx, con, f, s, loops[0])
    ctx.need(len(loops) == 2, "_jac_to_wrap: the two nested loops (outputs, design variables) were not found")
    outer = [l for l in loops if "__output_couplings" in norm_stmt(l.iter)]
    inner = [l for l in loops if l not in outer]
    ctx.need(len(outer) == 1 and len(inner) == 1, "_jac_to_wrap: loops over output couplings / design variables not identified")
    ov, iv = dotted(outer[0].target), dotted(inner[0].target)
    conds = [(cfg.ast[t].test, v) for t, v in branch_conditions(cfg, cfg.node_of(s)) if cfg.kind[t] == "test" and any(sub is cfg.ast[t] for sub in ast.walk(inner[0]))]
    ok = len(conds) == 1 and conds[0][1]
    if ok:
        cp = compare_parts(conds[0][0])
        ok = cp is not None and cp[1] is ast.Eq and {dotted(cp[0]), dotted(cp[2])} == {ov, iv}
    same_name = bool(ok)
    ctx.ob("17.3-same-name", con, ok, "the identity block belongs to the design variable that has the same name as the output coupling", node=s)
    # rows from the outer cursor pair, columns from the inner one; size from the inner variable
    row_names = names_in(sl.elts[0])
    col_names = names_in(sl.elts[1])

    def cursor_owner(names):
        for l, tag in ((outer[0], "outer"), (inner[0], "inner")):
            incs = {x.target.id for x in ast.walk(l) if isinstance(x, ast.AugAssign) and isinstance(x.target, ast.Name)}
            own = incs - ({x.target.id for x in ast.walk(inner[0]) if isinstance(x, ast.AugAssign) and isinstance(x.target, ast.Name)} if tag == "outer" else set())
            if names & own:
                return tag
        return None

    ctx.ob("17.3-window", con, cursor_owner(row_names) == "outer" and cursor_owner(col_names) == "inner", "rows of the block are the window of the output coupling (outer cursor), columns the window of the design variable (inner cursor)", node=s, stmt="rows <- output cursor, columns <- design-variable cursor")
    size = arg_or_kw(s.value, 0, "N") or arg_or_kw(s.value, 0, "n")
    owners = [_dv_len_of(e) for e in _alts(f, size)] if size is not None else [None]
    # under the same-name test the output coupling and the design variable are one variable: its size is the block's
    ok = all(o is not None and (o == iv or (o == ov and same_name)) for o in owners)
    ctx.ob("17.3-window", con, ok, "the identity has the size of the design variable of the inner loop", node=s, stmt="eye(size of the loop's design variable)")
    _check_jacobian_frame(ctx, con, f, s, inner[0].iter)
    check_cursor_loops(ctx, "17.4-cursor", con, f, min_loops=2)


def _window_lookups(f: ast.AST) -> list[ast.Assign]:
    """``lo, hi, n = <table>[<name>]`` where the table is what ``self._get_dv_indices(...)`` returned."""
    out = []
    for s in stmts_of(f):
        if isinstance(s, ast.Assign) and isinstance(s.targets[0], ast.Tuple) and len(s.targets[0].elts) == 3 and isinstance(s.value, ast.Subscript):
            tables = _alts(f, s.value.value)
            if all(isinstance(t, ast.Call) and norm_stmt(t.func) == "self._get_dv_indices" for t in tables):
                out.append(s)
    return out


def check_masks(ctx: Ctx) -> None:
    # the cursors of _get_dv_indices bound no slice there: they are the names stored in the (start, end, size) windows
    h = ctx.index.method(BF, "BaseFormulation", "_get_dv_indices")
    stored = [s for s in stmts_of(h) if isinstance(s, ast.Assign) and isinstance(s.targets[0], ast.Subscript) and isinstance(s.value, ast.Tuple) and len(s.value.elts) == 3]
    window_names = set().union(*(names_in(s.value) for s in stored)) or None
    for m, n, force in (("get_x_mask_x_swap_order", 1, None), ("unmask_x_swap_order", 1, None), ("_get_dv_indices", 1, window_names)):
        f = ctx.index.method(BF, "BaseFormulation", m)
        check_cursor_loops(ctx, "17.4-cursor", cname(BF, "BaseFormulation", m), f, min_loops=n, force=force)
    f = ctx.index.method(BF, "BaseFormulation", "get_x_mask_x_swap_order")
    con = cname(BF, "BaseFormulation", "get_x_mask_x_swap_order")
    unp = _window_lookups(f)
    loops = [s for s in stmts_of(f) if isinstance(s, ast.For) and dotted(s.iter) == "masking_data_names"]
    ok = len(unp) == 1 and len(loops) == 1 and dotted(unp[0].value.slice) == dotted(loops[0].target)
    ctx.ob("17.4-indices", con, ok, "the window of a masked variable is looked up by the name of the loop's own variable", node=(unp or [f])[0])
    st = [s for s in stmts_of(f) if isinstance(s, ast.Assign) and isinstance(s.targets[0], ast.Subscript) and dotted(s.targets[0].value) == "x_mask"]
    ok = len(st) == 1 and unp and isinstance(st[0].value, ast.Call) and last_attr(st[0].value) in ("arange", "range") and not st[0].value.keywords and [dotted(a) for a in st[0].value.args] == [dotted(e) for e in unp[0].targets[0].elts[:2]]
    ctx.ob("17.4-indices", con, ok, "the mask holds the positions [i_min, i_max) of the variable in the full vector", node=(st or [f])[0])
    tables = [c for c in walk_body(f) if isinstance(c, ast.Call) and norm_stmt(c.func) == "self._get_dv_indices"]
    ok = bool(unp) and len(tables) == 1 and len(tables[0].args) == 1 and not tables[0].keywords and dotted(tables[0].args[0]) == "all_data_names"
    ctx.ob("17.4-indices", con, ok, "positions are computed over all the data names, in their order", node=(unp or [f])[0], stmt="indices = self._get_dv_indices(all_data_names)")
    g = ctx.index.method(BF, "BaseFormulation", "unmask_x_swap_order")
    cong = cname(BF, "BaseFormulation", "unmask_x_swap_order")
    st = [s for s in stmts_of(g) if isinstance(s, ast.Assign) and isinstance(s.targets[0], ast.Subscript) and dotted(s.targets[0].value) == "x_unmask"]
    unp = _window_lookups(g)
    ok = len(st) == 1 and len(unp) == 1
    if ok:
        i_min, i_max, n_x = (dotted(e) for e in unp[0].targets[0].elts)
        tsl = st[0].targets[0].slice.elts[-1] if isinstance(st[0].targets[0].slice, ast.Tuple) else st[0].targets[0].slice
        ok = isinstance(tsl, ast.Slice) and dotted(tsl.lower) == i_min and dotted(tsl.upper) == i_max and isinstance(st[0].value, ast.Subscript) and dotted(st[0].value.value) == g.args.args[2].arg
    ctx.ob("17.4-indices", cong, ok, "the masked values of a variable go to its window [i_min, i_max) of the full vector", node=(st or [g])[0])
    cfg = cfg_of(g)
    if st:
        # mask and unmask are inverse: the masked values are consumed in the order in which
        # get_x_mask_x_swap_order produces them, i.e. by a loop over the masking names
        mk = ctx.index.method(BF, "BaseFormulation", "get_x_mask_x_swap_order")
        p_mask = [a.arg for a in mk.args.args if a.arg != "self"][0]
        prod_loops = [lp for lp in stmts_of(mk) if isinstance(lp, ast.For) and dotted(lp.iter) == p_mask]
        q_mask = [a.arg for a in g.args.args if a.arg != "self"][0]
        lp = next((lp_ for lp_ in stmts_of(g) if isinstance(lp_, ast.For) and st[0] in list(ast.walk(lp_))), None)
        ok = bool(prod_loops) and lp is not None and dotted(lp.iter) == q_mask and isinstance(lp.target, ast.Name) and isinstance(unp[0].value.slice, ast.Name) and unp[0].value.slice.id == lp.target.id if unp else False
        ctx.ob("17.4-indices", cong, bool(ok), "unmask must consume the masked values in the order in which the mask produces them (a loop over the masking names, window looked up by that name): looping over all the data names permutes the values as soon as the two orders differ", node=lp or st[0], stmt="masked values consumed in the order of the masking names")
    h = ctx.index.method(BF, "BaseFormulation", "_get_dv_indices")
    conh = cname(BF, "BaseFormulation", "_get_dv_indices")
    stt = [s for s in stmts_of(h) if isinstance(s, ast.Assign) and isinstance(s.targets[0], ast.Subscript) and isinstance(s.value, ast.Tuple) and len(s.value.elts) == 3]
    lp = [s for s in stmts_of(h) if isinstance(s, ast.For)]
    ok = len(stt) == 1 and len(lp) == 1 and dotted(stt[0].targets[0].slice) == dotted(lp[0].target)
    if ok:
        sz = [s for s in ast.walk(lp[0]) if isinstance(s, ast.Assign) and dotted(s.targets[0]) == dotted(stt[0].value.elts[2])]
        ok = len(sz) == 1 and isinstance(sz[0].value, ast.Subscript) and dotted(sz[0].value.slice) == dotted(lp[0].target)
    ctx.ob("17.4-indices", conh, ok, "(start, end, size) of a variable are stored under its own name, with its own size", node=(stt or [h])[0])


def check_equilibrium(ctx: Ctx) -> None:
    """17.5: the start-at-equilibrium MDA of IDF runs at the current point of the design space."""
    f = ctx.index.method(IDF, "IDF", "_compute_equilibrium")
    con = cname(IDF, "IDF", "_compute_equilibrium")
    ex = [c for c in walk_body(f) if isinstance(c, ast.Call) and isinstance(c.func, ast.Attribute) and c.func.attr == "execute" and isinstance(c.func.value, ast.Call) and "MDA" in (dotted(c.func.value.func) or "")]
    ok = len(ex) == 1
    if ok:
        a = ex[0].args[0] if ex[0].args else next((k.value for k in ex[0].keywords if k.arg == "input_data"), None)
        defs = {s.targets[0].id: s.value for s in stmts_of(f) if isinstance(s, ast.Assign) and isinstance(s.targets[0], ast.Name)}
        v = defs.get(a.id) if isinstance(a, ast.Name) else a
        ok = v is not None and isinstance(v, ast.Call) and last_attr(v) == "get_current_value" and "design_space" in norm_stmt(v.func) and any(k.arg == "as_dict" and getattr(k.value, "value", None) is True for k in v.keywords)
    ctx.ob("17.5-equilibrium", con, bool(ok), "the equilibrium MDA must be executed at the current value of the design space (as a dictionary); without it the disciplines run at their own defaults and the stored couplings belong to another design point", node=(ex or [f])[0], stmt="MDA executed at design_space.get_current_value(as_dict=True)")
    sets = [c for c in walk_body(f) if isinstance(c, ast.Call) and last_attr(c) == "set_current_variable"]
    loops = [s for s in stmts_of(f) if isinstance(s, ast.For) and sets and sets[0] in list(ast.walk(s))]
    ok = len(sets) == 1 and len(loops) == 1 and len(ex) == 1
    if ok:
        names, key, bound = _named_values(f, loops[0])
        which, val = arg_or_kw(sets[0], 0, "name"), arg_or_kw(sets[0], 1, "current_value")
        ok = key is not None and which is not None and val is not None and dotted(which) == key and all(norm_stmt(a_) == "self.all_couplings" for a_ in names)
    if ok:
        if isinstance(val, ast.Name) and val.id in bound:
            vals = bound[val.id]
        else:
            ldefs = {s.targets[0].id: s.value for s in ast.walk(loops[0]) if isinstance(s, ast.Assign) and isinstance(s.targets[0], ast.Name)}
            vals = _alts(f, val)
            if isinstance(val, ast.Name) and all(isinstance(v_, ast.Name) for v_ in vals) and val.id in ldefs:
                vals = _alts(f, ldefs[val.id])
        # the MDA output: what the executed MDA returned, directly or through a local bound to it once
        results = {norm_stmt(a_) for a_ in _alts(f, ex[0])}
        for s_ in stmts_of(f):
            if isinstance(s_, ast.Assign) and len(s_.targets) == 1 and isinstance(s_.targets[0], ast.Name) and s_.value is ex[0] and len([x for x in ast.walk(f) if isinstance(x, ast.Name) and x.id == s_.targets[0].id and isinstance(x.ctx, ast.Store)]) == 1:
                results.add(s_.targets[0].id)
        ok = bool(vals) and all(isinstance(v_, ast.Subscript) and dotted(v_.slice) == key and norm_stmt(v_.value) in results for v_ in vals)
    ctx.ob("17.5-equilibrium", con, bool(ok), "every coupling of the design space takes the MDA output of the same name", node=(sets or [f])[0], stmt="design_space[coupling] = MDA output[coupling]")


def _named_values(f: ast.AST, loop: ast.For) -> tuple[list[ast.AST], str | None, dict[str, list[ast.AST]]]:
    """(alternatives of the iterable of names, loop variable holding the name, {loop variable: its value written with
    the name variable}) of a loop that visits names: ``for k in names`` or, with the values computed beforehand,
    ``for k, v in {k2: e(k2) for k2 in names}.items()`` / ``for k, v in [(k2, e(k2)) for k2 in names]``."""
    if isinstance(loop.target, ast.Name):
        return _alts(f, loop.iter), loop.target.id, {}
    if not (isinstance(loop.target, ast.Tuple) and len(loop.target.elts) == 2 and all(isinstance(x, ast.Name) for x in loop.target.elts)):
        return [], None, {}
    k, v = (x.id for x in loop.target.elts)
    it = loop.iter
    pairs = it.func.value if isinstance(it, ast.Call) and isinstance(it.func, ast.Attribute) and it.func.attr == "items" and not it.args and not it.keywords else None
    names, values = [], []
    for a_ in _alts(f, pairs if pairs is not None else it):
        if not (isinstance(a_, (ast.DictComp, ast.ListComp, ast.GeneratorExp, ast.SetComp)) and isinstance(a_, ast.DictComp) == (pairs is not None) and len(a_.generators) == 1):
            return [], None, {}
        g = a_.generators[0]
        if isinstance(a_, ast.DictComp):
            kk, vv = a_.key, a_.value
        elif isinstance(a_.elt, ast.Tuple) and len(a_.elt.elts) == 2:
            kk, vv = a_.elt.elts
        else:
            return [], None, {}
        if g.ifs or g.is_async or not isinstance(g.target, ast.Name) or dotted(kk) != g.target.id or k == v:
            return [], None, {}

        class R(ast.NodeTransformer):
            def visit_Name(self, n):  # noqa: N802
                return ast.copy_location(ast.Name(id=k, ctx=n.ctx), n) if n.id == g.target.id else n

        names.append(g.iter)
        values.append(R().visit(copy.deepcopy(vv)))
    return names, k, {v: values}


_DO = "formulations/disciplinary_opt.py"
_DAD = "core/mdo_functions/discipline_adapter.py"


_COLLECTION = ("set", "frozenset", "list", "tuple", "sorted")


def _common_operands(e: ast.AST) -> list[ast.AST]:
    """The collections whose common elements ``e`` holds (``e`` itself when it is not an intersection):
    ``a & b``, ``a.intersection(b, ...)``, ``set.intersection(a, b, ...)``, ``{x for x in a if x in b}`` (also a list
    or a generator), each possibly wrapped in ``set(...)`` / ``frozenset`` / ``list`` / ``tuple`` / ``sorted``."""
    if isinstance(e, ast.Call) and dotted(e.func) in _COLLECTION and len(e.args) == 1 and not e.keywords and not isinstance(e.args[0], ast.Starred):
        return _common_operands(e.args[0])
    if isinstance(e, ast.BinOp) and isinstance(e.op, ast.BitAnd):
        return _common_operands(e.left) + _common_operands(e.right)
    if isinstance(e, ast.Call) and isinstance(e.func, ast.Attribute) and e.func.attr == "intersection" and e.args and not e.keywords and not any(isinstance(a_, ast.Starred) for a_ in e.args):
        own = [] if dotted(e.func.value) in ("set", "frozenset") else [e.func.value]
        return [o for a_ in [*own, *e.args] for o in _common_operands(a_)]
    if isinstance(e, (ast.SetComp, ast.ListComp, ast.GeneratorExp)) and len(e.generators) == 1:
        g = e.generators[0]
        if isinstance(g.target, ast.Name) and not g.is_async and dotted(e.elt) == g.target.id and g.target.id not in names_in(g.iter):
            others = []
            for c in g.ifs:
                cp = compare_parts(c)
                if cp is None or cp[1] is not ast.In or dotted(cp[0]) != g.target.id or g.target.id in names_in(cp[2]):
                    return [e]
                others.append(cp[2])
            return [o for a_ in [g.iter, *others] for o in _common_operands(a_)]
    return [e]


def _kept_operands(f: ast.AST, e: ast.AST, use: ast.AST) -> list[list[ast.AST]]:
    """The alternatives of ``e`` (an argument of the call ``use`` in ``f``) as lists of intersected collections, the
    locals unfolded; a local set narrowed in place (``v = set(a)`` then ``v &= b`` / ``v.intersection_update(b)``,
    every step on every path to ``use``) is the intersection of its initial value and of what narrowed it."""
    cfg = cfg_of(f)
    out = []
    for a_ in _alts(f, e):
        ops = []
        for o in _common_operands(a_):
            steps = _narrowed(f, cfg, o.id, use) if isinstance(o, ast.Name) else None
            if steps:
                ops += [x for s_ in steps for b_ in _alts(f, s_) for x in _common_operands(b_)]
            else:
                ops.append(o)
        out.append(ops)
    return out


def _narrowed(f: ast.AST, cfg, var: str, use: ast.AST) -> list[ast.AST] | None:
    """[initial value, narrowing operand, ...] of the local ``var`` when ``use`` runs, or None when ``var`` is not a
    local bound once and then only narrowed on every path to ``use``."""
    u = cfg.node_of(use)
    binds = [s for s in stmts_of(f) if isinstance(s, ast.Assign) and any(var in names_in(t) for t in s.targets)]
    if len(binds) != 1 or len(binds[0].targets) != 1 or not isinstance(binds[0].targets[0], ast.Name) or not cfg.dominates(cfg.node_of(binds[0]), u):
        return None
    b = cfg.node_of(binds[0])
    out = [binds[0].value]
    steps = []
    for s in stmts_of(f):
        if s is binds[0] or not cfg.has(s):
            continue
        n = cfg.node_of(s)
        touched = [x for x in ast.walk(s) if isinstance(x, ast.Name) and x.id == var and isinstance(x.ctx, (ast.Store, ast.Del))]
        touched += [x for x in ast.walk(s) if isinstance(x, ast.Call) and isinstance(x.func, ast.Attribute) and dotted(x.func.value) == var and (x.func.attr.endswith("update") or x.func.attr in ("add", "remove", "discard", "pop", "clear", "append", "extend", "insert", "sort", "reverse"))]
        if not touched or not cfg.reachable(n, u) or n == u:
            continue
        if isinstance(s, ast.AugAssign) and isinstance(s.op, ast.BitAnd) and dotted(s.target) == var and var not in names_in(s.value):
            ops = [s.value]
        elif isinstance(s, ast.Expr) and isinstance(s.value, ast.Call) and isinstance(s.value.func, ast.Attribute) and s.value.func.attr == "intersection_update" and dotted(s.value.func.value) == var and s.value.args and not s.value.keywords and not any(isinstance(a_, ast.Starred) or var in names_in(a_) for a_ in s.value.args):
            ops = list(s.value.args)
        else:
            return None
        if not (cfg.dominates(b, n) and cfg.dominates(n, u)):
            return None
        steps.append((n, ops))
    if not steps:
        return None
    for _, ops in steps:
        out += ops
    return out


def check_disciplinary_design_space(ctx: Ctx) -> None:
    """17.6: the disciplinary formulation keeps the design variables that are inputs of what it EXECUTES (its
    top-level process): the inputs of disciplines nested below are computed by that process (weak couplings), not
    optimised."""
    f = ctx.index.method(_DO, "DisciplinaryOpt", "_filter_design_space")
    con = cname(_DO, "DisciplinaryOpt", "_filter_design_space")
    calls = [c for c in walk_body(f) if isinstance(c, ast.Call) and last_attr(c) == "get_all_inputs"]
    ctx.need(len(calls) == 1 and arg_or_kw(calls[0], 0, "disciplines") is not None, "DisciplinaryOpt._filter_design_space: get_all_inputs(...) not found")
    which = arg_or_kw(calls[0], 0, "disciplines")
    alts = _alts(f, which)
    ok = all(isinstance(a_, ast.Call) and norm_stmt(a_.func) == "self.get_top_level_disciplines" for a_ in alts)
    ctx.ob("17.6-disciplinary-design-space", con, ok, "the variables kept are the inputs of the top-level disciplines (get_top_level_disciplines()): with all the disciplines, the weak couplings present in the design space stay design variables although the chain computes them (spurious columns, a design space that differs from MDF's)", node=calls[0], stmt="inputs of the top-level disciplines")
    filt = [c for c in walk_body(f) if isinstance(c, ast.Call) and last_attr(c) == "filter" and isinstance(c.func, ast.Attribute)]
    kept = arg_or_kw(filt[0], 0, "keep_variables") if len(filt) == 1 else None
    ok = kept is not None
    if ok:
        spaces = {norm_stmt(a_) for a_ in _alts(f, filt[0].func.value)}

        def role(o: ast.AST) -> str:
            if isinstance(o, ast.Call) and last_attr(o) == "get_all_inputs":
                return "inputs"
            t = norm_stmt(o)
            return "design variables" if t in spaces or (t.endswith(".variable_names") and t[: -len(".variable_names")] in spaces) else "?"

        found = _kept_operands(f, kept, filt[0])
        ok = bool(found) and all({role(o) for o in ops} == {"inputs", "design variables"} for ops in found)
    ctx.ob("17.6-disciplinary-design-space", con, ok, "the design space is restricted to the variables that are both inputs and design variables", node=(filt or [f])[0], stmt="design_space.filter(inputs & design variables)")


def _mapping_parts(e: ast.AST) -> list[ast.AST]:
    """The mappings merged by the expression ``e``, lowest precedence first (the last one wins on a common key):
    ``a | b``, ``{**a, **b}``, ``dict(a)``, ``dict(a, **b)``, ``a.copy()``, ``a.items()`` (as the argument of ``dict``
    / ``update``), ``ChainMap(b, a)``; anything else is one mapping."""
    if isinstance(e, ast.BinOp) and isinstance(e.op, ast.BitOr):
        return _mapping_parts(e.left) + _mapping_parts(e.right)
    if isinstance(e, ast.Dict) and e.keys and all(k is None for k in e.keys):
        return [p_ for v in e.values for p_ in _mapping_parts(v)]
    if isinstance(e, ast.Call) and dotted(e.func) == "dict" and len(e.args) <= 1 and (e.args or e.keywords) and all(k.arg is None for k in e.keywords) and not any(isinstance(a_, ast.Starred) for a_ in e.args):
        return [p_ for v in [*e.args, *(k.value for k in e.keywords)] for p_ in _mapping_parts(v)]
    if isinstance(e, ast.Call) and (dotted(e.func) or "").split(".")[-1] == "ChainMap" and e.args and not e.keywords and not any(isinstance(a_, ast.Starred) for a_ in e.args):
        return [p_ for v in reversed(e.args) for p_ in _mapping_parts(v)]
    if isinstance(e, ast.Call) and isinstance(e.func, ast.Attribute) and e.func.attr in ("copy", "items") and not e.args and not e.keywords:
        return _mapping_parts(e.func.value)
    return [e]


def _input_source(e: ast.AST) -> str:
    t = norm_stmt(e)
    if "defaults" in t or "default_input_data" in t:
        return "defaults"
    if "get_input_data" in t or "io.data" in t or "local_data" in t:
        return "local"
    return "?"


def _sources(f: ast.AST, part: ast.AST) -> list[str]:
    """Where the mappings merged by ``part`` (a node of ``f``; its locals are unfolded) come from, lowest precedence
    first."""
    found = [[_input_source(p_) for p_ in _mapping_parts(a_)] for a_ in _alts(f, part)]
    return found[0] if all(x == found[0] for x in found) else ["?"]


def _copied_items(loop: ast.For, var: str) -> ast.AST | None:
    """``X`` when the loop is ``for k, v in X.items(): var[k] = v`` or ``for k in X: var[k] = X[k]``."""
    if len(loop.body) != 1 or loop.orelse or not isinstance(loop.body[0], ast.Assign) or len(loop.body[0].targets) != 1:
        return None
    t, v = loop.body[0].targets[0], loop.body[0].value
    if not (isinstance(t, ast.Subscript) and dotted(t.value) == var and isinstance(t.slice, ast.Name)):
        return None
    k = t.slice.id
    it = loop.iter
    if isinstance(loop.target, ast.Tuple) and len(loop.target.elts) == 2 and all(isinstance(x, ast.Name) for x in loop.target.elts):
        if loop.target.elts[0].id == k and loop.target.elts[1].id != k and dotted(v) == loop.target.elts[1].id and isinstance(it, ast.Call) and isinstance(it.func, ast.Attribute) and it.func.attr == "items" and not it.args and not it.keywords:
            return it.func.value
        return None
    if isinstance(loop.target, ast.Name) and loop.target.id == k and isinstance(v, ast.Subscript) and dotted(v.slice) == k:
        src = it.func.value if isinstance(it, ast.Call) and isinstance(it.func, ast.Attribute) and it.func.attr == "keys" and not it.args else it
        if ast.dump(src) == ast.dump(v.value) and var not in names_in(src):
            return src
    return None


def _merged_into(f: ast.AST, var: str, use: ast.AST) -> tuple[list[str], ast.AST | None]:
    """(where the content of the local mapping ``var`` comes from when ``use`` runs, lowest precedence first; its first
    binding).

    Each step that runs on every path to ``use`` is taken in execution order: ``var = <merge>`` (a merge that names
    ``var`` itself continues the history), ``var |= m``, ``var.update(m)`` / ``update(**m)`` / ``update(m, **n)``, a
    loop copying the items of ``m`` one by one.  A step that runs on some paths only cannot establish the defaults
    (it counts as unknown) but can bring back the local data; any other store into ``var`` is unknown."""
    cfg = cfg_of(f)
    u = cfg.node_of(use)
    steps = []  # (cfg node, kind, parts, statement)
    consumed = set()
    for s in stmts_of(f):
        if id(s) in consumed or not cfg.has(s):
            continue
        if isinstance(s, ast.For):
            src = _copied_items(s, var)
            if src is not None:
                consumed.add(id(s.body[0]))
                steps.append((cfg.node_of(s), "merge", [src], s))
            continue
        if isinstance(s, ast.Assign) and any(isinstance(t, ast.Name) and t.id == var for t in s.targets):
            steps.append((cfg.node_of(s), "assign", _mapping_parts(s.value), s))
        elif isinstance(s, ast.AugAssign) and dotted(s.target) == var:
            steps.append((cfg.node_of(s), "merge", _mapping_parts(s.value), s) if isinstance(s.op, ast.BitOr) else (cfg.node_of(s), "merge", [None], s))
        elif isinstance(s, ast.Expr) and isinstance(s.value, ast.Call) and isinstance(s.value.func, ast.Attribute) and dotted(s.value.func.value) == var:
            c = s.value
            if c.func.attr == "update" and len(c.args) <= 1 and not any(isinstance(a_, ast.Starred) for a_ in c.args):
                parts = [p_ for a_ in c.args for p_ in _mapping_parts(a_)]
                for k in c.keywords:
                    parts += _mapping_parts(k.value) if k.arg is None else [None]
                steps.append((cfg.node_of(s), "merge", parts, s))
            elif c.func.attr in ("update", "setdefault", "pop", "popitem", "clear", "__setitem__", "__delitem__", "__ior__"):
                steps.append((cfg.node_of(s), "merge", [None], s))
        elif isinstance(s, (ast.Assign, ast.AugAssign, ast.Delete)):
            tg = s.targets if isinstance(s, (ast.Assign, ast.Delete)) else [s.target]
            if any(isinstance(x, ast.Subscript) and dotted(x.value) == var for t in tg for x in ast.walk(t)):
                steps.append((cfg.node_of(s), "merge", [None], s))
    steps = [x for x in steps if x[0] != u and cfg.reachable(x[0], u)]
    sure = [x for x in steps if cfg.dominates(x[0], u)]
    sure.sort(key=lambda x: sum(1 for y in sure if y is not x and cfg.dominates(y[0], x[0])))
    maybe = [x for x in steps if not cfg.dominates(x[0], u)]
    def weak(step) -> list[str]:
        out = []
        for p_ in step[2]:
            got = ["?"] if p_ is None or (isinstance(p_, ast.Name) and p_.id == var) else _sources(f, p_)
            out += ["local" if g_ == "local" else "?" for g_ in got]
        return out

    # a step that runs on some paths only takes effect after the last sure step that can precede it
    after: dict[int, list] = {}
    for m in maybe:
        prev = [i for i, x in enumerate(sure) if cfg.reachable(x[0], m[0])]
        after.setdefault(max(prev) if prev else -1, []).append(m)
    order: list[str] = [g_ for m in after.get(-1, []) for g_ in weak(m)]
    first = None
    for i, (n, kind, parts, s) in enumerate(sure):
        srcs: list[str] = []
        for p_ in parts:
            if p_ is None:
                srcs.append("?")
            elif isinstance(p_, ast.Name) and p_.id == var:
                srcs += order
            else:
                srcs += _sources(f, p_)
        if kind == "assign":
            first = first or s
            order = srcs
        else:
            order = order + srcs
        order = order + [g_ for m in after.get(i, []) for g_ in weak(m)]
    if not sure:
        return ["?"], None
    return order, first


def check_adapter_sizes(ctx: Ctx) -> None:
    """17.7: the slices of the design vector handed to a discipline are computed from the sizes of its DEFAULT inputs;
    the data of a previous execution only completes them (a discipline executed before with another size would
    otherwise be sliced with the stale size)."""
    f = ctx.index.method(_DAD, "DisciplineAdapter", "__create_input_names_to_slices")
    con = cname(_DAD, "DisciplineAdapter", "__create_input_names_to_slices")
    use = [c for c in walk_body(f) if isinstance(c, ast.Call) and last_attr(c) == "compute_names_to_sizes"]
    ctx.need(len(use) >= 1, "__create_input_names_to_slices: the computation of the sizes (compute_names_to_sizes) was not found")
    data = arg_or_kw(use[0], 1, "data")
    ctx.need(data is not None, "__create_input_names_to_slices: the mapping the sizes are computed from was not found")
    # the mapping is a local completed step by step, or a merge written in place
    first = None
    if isinstance(data, ast.Name):
        srcs, first = _merged_into(f, data.id, use[0])
    if first is None:
        srcs = [s_ for p_ in _mapping_parts(data) for s_ in _sources(f, p_)]
    ok = "defaults" in srcs and (("local" not in srcs) or max(i for i, s_ in enumerate(srcs) if s_ == "defaults") > max(i for i, s_ in enumerate(srcs) if s_ == "local"))
    ctx.ob("17.7-adapter-sizes", con, ok, f"the sizes are computed from {srcs}: the default inputs must take precedence over the data left by a previous execution", node=first or use[0], stmt="defaults override the previous local data")
    ok = len(use) == 1
    ctx.ob("17.7-adapter-sizes", con, ok, "the sizes are computed from that mapping", node=use[0], stmt="compute_names_to_sizes(mapping)")


def check_system_design_space(ctx: Ctx) -> None:
    """17.8: a multi-level formulation optimises at system level exactly the variables no sub-scenario optimises: the
    helper removes from the system design space the variables of EVERY sub-scenario (of any of them, not only those
    common to all)."""
    from gv.props.shared import literal_facts

    f = ctx.index.method(BF, "BaseFormulation", "_remove_sub_scenario_dv_from_ds")
    con = cname(BF, "BaseFormulation", "_remove_sub_scenario_dv_from_ds")
    rm = [c for c in walk_body(f) if isinstance(c, ast.Call) and last_attr(c) == "remove_variable" and len(c.args) == 1]
    ctx.need(len(rm) == 1, "_remove_sub_scenario_dv_from_ds: the removal from the system design space was not found")
    call = rm[0]
    var = dotted(call.args[0])
    cfg = cfg_of(f)
    st = rules.enclosing_stmt(f, call)
    loops = [lp for lp in stmts_of(f) if isinstance(lp, ast.For) and any(x is st for x in ast.walk(lp))]

    def text(e):
        return " | ".join(sorted(norm_stmt(a_, 300) for a_ in (unfolded(f, e) or [e])))

    def over_sub_scenarios(e) -> bool:
        return "get_sub_scenarios()" in text(e)

    facts = literal_facts(cfg, cfg.node_of(st))
    quant = []  # (quantifier, polarity) of the conditions on the removed variable that range over the sub-scenarios
    other = []
    for txt, pol in facts.items():
        try:
            t_ = ast.parse(txt, mode="eval").body
        except SyntaxError:
            continue
        if isinstance(t_, ast.Call) and dotted(t_.func) in ("any", "all") and t_.args and isinstance(t_.args[0], (ast.GeneratorExp, ast.ListComp)):
            quant.append((dotted(t_.func), pol, t_))
        elif isinstance(t_, ast.Compare) and len(t_.ops) == 1 and isinstance(t_.ops[0], (ast.In, ast.NotIn)) and dotted(t_.left) == var:
            other.append((txt, pol == isinstance(t_.ops[0], ast.In)))
        else:
            other.append((txt, None))
    nested = [lp for lp in loops if over_sub_scenarios(lp.iter)]
    if nested:
        # for each sub-scenario, for each of its variables: removed when it is in the system design space
        inner = [lp for lp in loops if lp is not nested[0] and dotted(lp.target) == var and "design_space" in norm_stmt(lp.iter)]
        ok = bool(inner) and not quant and all(pos is True for _, pos in other)
        ctx.ob("17.8-system-design-space", con, ok, "every variable of every sub-scenario's design space is removed from the system design space when present there (no other condition)", node=call, slots={"conditions": [t for t, _ in other]})
    else:
        ctx.need(len(quant) == 1 and len(loops) >= 1, "_remove_sub_scenario_dv_from_ds: neither a loop over the sub-scenarios nor a quantified membership test was recognised")
        q, pol, node_ = quant[0]
        gen = node_.args[0]
        member = isinstance(gen.elt, ast.Compare) and isinstance(gen.elt.ops[0], ast.In) and dotted(gen.elt.left) == var
        ok = member and ((q == "any" and pol) or False)
        ctx.ob("17.8-system-design-space", con, ok, f"a variable is removed from the system design space when ANY sub-scenario optimises it; found `{'not ' if not pol else ''}{norm_stmt(node_, 80)}`: with `all`, variables local to one sub-scenario stay at system level although the sub-optimisations overwrite them", node=call, stmt="removed iff in any sub-scenario's design space")


def check_adapter_buffer(ctx: Ctx) -> None:
    """17.9 the adapter assembles the Jacobian of the discipline in a buffer that it keeps between calls: every block is
    written at every call (a block skipped because it is empty THIS time keeps the derivatives of the previous point)."""
    f = ctx.index.method(_DAD, "DisciplineAdapter", "_convert_jacobian_to_array")
    con = cname(_DAD, "DisciplineAdapter", "_convert_jacobian_to_array")
    cfg = cfg_of(f)

    def is_store(st):
        return isinstance(st, ast.Assign) and isinstance(st.targets[0], ast.Subscript) and (dotted(st.targets[0].value) or "").endswith("__jacobian")

    n = 0
    for lp in (l_ for l_ in stmts_of(f) if isinstance(l_, ast.For)):
        own = [st for st in ast.walk(lp) if is_store(st)]
        inner = [l_ for l_ in ast.walk(lp) if isinstance(l_, ast.For) and l_ is not lp and any(is_store(st) for st in ast.walk(l_))]
        if not own or inner:
            continue  # the innermost loop over the blocks
        n += 1
        head = cfg.node_of(lp)
        start = cfg.branch.get((head, True))
        esc = cfg.path(start, head, avoid={cfg.node_of(st) for st in own}) if start is not None else [head]
        ctx.ob("17.9-adapter-buffer", con, esc is None, "an iteration of the block loop can end without writing its block of the reused Jacobian buffer" + (f" ({cfg.describe_path(esc)})" if esc else "") + ": the block keeps what the previous evaluation left there, so the consistency-constraint / objective Jacobian mixes two design points", node=lp, stmt="every block of the reused buffer is written at every call")
    ctx.floor("17.9-adapter-buffer", 2)


def run(ctx: Ctx) -> None:
    check_system_design_space(ctx)
    check_disciplinary_design_space(ctx)
    check_adapter_sizes(ctx)
    check_adapter_buffer(ctx)
    check_equilibrium(ctx)
    check_design_spaces(ctx)
    check_constraint(ctx)
    check_identity_block(ctx)
    check_masks(ctx)


# ---------------------------------------------------------------------------
WITNESSES = [
    {"name": "seeded-C17-12", "file": "core/mdo_functions/discipline_adapter.py", "old": "from numpy import array\nfrom numpy import empty\nfrom numpy import ndarray\n\nfrom gemseo.core.execution_status import ExecutionStatus\nfrom gemseo.core.mdo_functions.mdo_function import MDOFunction\nfrom gemseo.utils.compatibility.scipy import get_row\nfrom gemseo.utils.compatibility.scipy import sparse_classes\nfrom gemseo.utils.constants import READ_ONLY_EMPTY_DICT\n\nif TYPE_CHECKING:\n    from collections.abc import MutableMapping\n    from collections.abc import Sequence\n\n    from gemseo.core.discipline import Discipline\n    from gemseo.core.grammars.defaults import Defaults\n    from gemseo.typing import JacobianData\n    from gemseo.typing import NumberArray\n    from gemseo.typing import StrKeyMapping\n\n\nclass DisciplineAdapter(MDOFunction):\n    \"\"\"An :class:`.MDOFunction` executing a discipline for some inputs and outputs.\"\"\"\n\n    __is_linear: bool\n    \"\"\"Whether the function is linear.\"\"\"\n\n    __input_dimension: int | None\n    \"\"\"The input variable dimension, needed for linear candidates.\"\"\"\n\n    differentiated_input_names_substitute: Sequence[str]\n    \"\"\"The names of the inputs with respect to which to differentiate the functions.\n\n    If empty, consider the variables of their input space.\n    \"\"\"\n\n    def __init__(\n        self,\n        input_names: Sequence[str],\n        output_names: Sequence[str],\n        default_input_data: Defaults,\n        discipline: Discipline,\n        names_to_sizes: MutableMapping[str, int] = READ_ONLY_EMPTY_DICT,\n        differentiated_input_names_substitute: Sequence[str] = (),\n    ) -> None:\n        \"\"\"\n        Args:\n            input_names: The names of the inputs.\n            output_names: The names of the outputs.\n            default_input_data: The default input values\n                to overload the ones of the discipline\n                at each evaluation of the outputs with :meth:`._fun`\n                or their derivatives with :meth:`._jac`.\n                If empty, do not overload them.\n            discipline: The discipline to be adapted.\n            names_to_sizes: The sizes of the input variables.\n                If empty, determine them from the default inputs and local data\n                of the discipline :class:`.Discipline`.\n            differentiated_input_names_substitute: The names of the inputs\n                with respect to which to differentiate the functions.\n                If empty, consider the variables of their input space.\n        \"\"\"  # noqa: D205, D212, D415\n        super().__init__(\n            self._func_to_wrap,\n            jac=self._jac_to_wrap,\n            name=\"_\".join(output_names),\n            input_names=input_names,\n            output_names=output_names,\n        )\n        self.differentiated_input_names_substitute = (\n            differentiated_input_names_substitute or input_names\n        )\n        self.__default_inputs = default_input_data\n        self.__input_size = 0\n        self.__differentiated_input_size = 0\n        self.__output_names_to_slices = {}\n        self.__jacobian = array(())\n        self.__discipline = discipline\n        self.__input_names_to_slices = {}\n        self.__input_names_to_sizes = names_to_sizes or {}\n        self.__differentiated_input_names_to_slices = {}\n        input_names = set(self.input_names)\n        self.__is_linear = self.__discipline.io.have_linear_relationships(\n            input_names, output_names\n        )\n        self.__input_dimension = self.__compute_input_dimension(default_input_data)\n        self.__convert_array_to_data = (\n            discipline.io.input_grammar.data_converter.convert_array_to_data\n        )\n\n    @property\n    def is_linear(self) -> bool:  # noqa: D102\n        return self.__is_linear\n\n    @property\n    def input_dimension(self) -> int | None:  # noqa: D102\n        return self.__input_dimension\n\n    def __compute_input_dimension(\n        self,\n        default_input_data: Defaults,\n    ) -> int | None:\n        \"\"\"Compute the input dimension.\n\n        Args:\n            default_input_data: : The default input values\n                to overload the ones of the discipline\n                at each evaluation of the outputs with :meth:`._fun`\n                or their derivatives with :meth:`._jac`.\n                If ``None``, do not overload them.\n\n        Returns:\n            The input dimension.\n        \"\"\"\n        get_value_size = (\n            self.__discipline.io.input_grammar.data_converter.get_value_size\n        )\n\n        if default_input_data and all(\n            name in default_input_data for name in self.input_names\n        ):\n            return sum(\n                get_value_size(input_name, default_input_data[input_name])\n                for input_name in self.input_names\n            )\n\n        if len(self.__input_names_to_sizes) > 0:\n            return sum(self.__input_names_to_sizes.values())\n\n        default_input_data = self.__discipline.io.input_grammar.defaults\n\n        if all(name in default_input_data for name in self.input_names):\n            return sum(\n                get_value_size(input_name, default_input_data[input_name])\n                for input_name in self.input_names\n            )\n\n        # TODO: document what None means. We could use 0 instead.\n        return None\n\n    def __create_output_names_to_slices(self, jacobians: JacobianData) -> int:\n        \"\"\"Compute the indices of the input variables in the Jacobian array.\n\n        Args:\n            jacobians: The Jacobians data used to compute the slices.\n\n        Returns:\n            The size of the inputs.\n        \"\"\"\n        self.__output_names_to_slices = output_names_to_slices = {}\n        start = 0\n        output_size = 0\n        for output_name in self.output_names:\n            input_name = next(iter(jacobians[output_name]))\n            output_size += jacobians[output_name][input_name].shape[0]\n            output_names_to_slices[output_name] = slice(start, output_size)\n            start = output_size\n        return output_size\n\n    def _func_to_wrap(self, x_vect: NumberArray) -> complex | NumberArray:\n        \"\"\"Compute an output vector from an input one.\n\n        Args:\n            x_vect: The input vector.\n\n        Returns:\n            The output vector or a scalar if the vector has only one component.\n        \"\"\"\n        self.__discipline.execution_status.value = ExecutionStatus.Status.DONE\n        input_data = self.__create_discipline_input_data(x_vect)\n        output_data = self.__discipline.execute(input_data)\n        return self._convert_output_data_to_array(output_data)\n\n    def _convert_output_data_to_array(\n        self, output_data: StrKeyMapping\n    ) -> complex | NumberArray:\n        \"\"\"Convert the discipline's output data to array/scalar.\n\n        Args:\n            output_data: The discipline's output data.\n\n        Returns:\n            The vector or scalar of output data.\n        \"\"\"\n        output_vector = (\n            self.__discipline.io.output_grammar.data_converter.convert_data_to_array(\n                self.output_names, output_data\n            )\n        )\n\n        if output_vector.size == 1:  # The function is scalar.\n            return output_vector[0]\n\n        return output_vector\n\n    def _jac_to_wrap(self, x_vect: NumberArray) -> NumberArray:\n        \"\"\"Compute the Jacobian value from an input vector.\n\n        Args:\n            x_vect: The input vector.\n\n        Returns:\n            The Jacobian value.\n        \"\"\"\n        input_data = self.__create_discipline_input_data(x_vect)\n        jacobians = self.__discipline.linearize(input_data)\n\n        return self._convert_jacobian_to_array(jacobians)\n\n    def _convert_jacobian_to_array(self, jacobians: JacobianData) -> NumberArray:\n        \"\"\"Convert the discipline's Jacobians to array.\n\n        Args:\n            jacobians: The discipline's Jacobians data.\n\n        Returns:\n            The aggregated Jacobian as a NumPy array.\n        \"\"\"\n        if len(self.__jacobian) == 0:\n            output_size = self.__create_output_names_to_slices(jacobians)\n            if output_size == 1:\n                shape = self.__differentiated_input_size\n            else:\n                shape = (output_size, self.__differentiated_input_size)\n\n            self.__jacobian = empty(shape)\n\n        if self.__jacobian.ndim == 1 or self.__jacobian.shape[0] == 1:\n            output_name = self.output_names[0]\n            jac_output = jacobians[output_name]\n            for input_name in self.differentiated_input_names_substitute:\n                input_slice = self.__differentiated_input_names_to_slices[input_name]\n                jac = jac_output[input_name]\n                # TODO: This precaution is meant to disappear when sparse 1-D array will\n                # be available. This is also mandatory since self.__jacobian is\n                # initialized as a dense array.\n                if isinstance(jac, sparse_classes):\n                    first_row = get_row(jac, 0).todense().flatten()\n                else:\n                    first_row = jac[0, :]\n\n                self.__jacobian[input_slice] = first_row\n        else:\n            for output_name in self.output_names:\n                output_slice = self.__output_names_to_slices[output_name]\n                jac_output = jacobians[output_name]\n                for input_name in self.differentiated_input_names_substitute:\n                    input_slice = self.__differentiated_input_names_to_slices[\n                        input_name\n                    ]\n                    jac = jac_output[input_name]\n                    # TODO: This is mandatory since self.__jacobian is initialized as a\n                    # dense array. Performance improvement could be obtained if one is\n                    # able to infer the type of jac.\n                    if isinstance(jac, sparse_classes):\n                        jac = jac.toarray()\n", "new": "from numpy import array\nfrom numpy import ndarray\nfrom numpy import zeros\n\nfrom gemseo.core.execution_status import ExecutionStatus\nfrom gemseo.core.mdo_functions.mdo_function import MDOFunction\nfrom gemseo.utils.compatibility.scipy import get_row\nfrom gemseo.utils.compatibility.scipy import sparse_classes\nfrom gemseo.utils.constants import READ_ONLY_EMPTY_DICT\n\nif TYPE_CHECKING:\n    from collections.abc import MutableMapping\n    from collections.abc import Sequence\n\n    from gemseo.core.discipline import Discipline\n    from gemseo.core.grammars.defaults import Defaults\n    from gemseo.typing import JacobianData\n    from gemseo.typing import NumberArray\n    from gemseo.typing import StrKeyMapping\n\n\nclass DisciplineAdapter(MDOFunction):\n    \"\"\"An :class:`.MDOFunction` executing a discipline for some inputs and outputs.\"\"\"\n\n    __is_linear: bool\n    \"\"\"Whether the function is linear.\"\"\"\n\n    __input_dimension: int | None\n    \"\"\"The input variable dimension, needed for linear candidates.\"\"\"\n\n    differentiated_input_names_substitute: Sequence[str]\n    \"\"\"The names of the inputs with respect to which to differentiate the functions.\n\n    If empty, consider the variables of their input space.\n    \"\"\"\n\n    def __init__(\n        self,\n        input_names: Sequence[str],\n        output_names: Sequence[str],\n        default_input_data: Defaults,\n        discipline: Discipline,\n        names_to_sizes: MutableMapping[str, int] = READ_ONLY_EMPTY_DICT,\n        differentiated_input_names_substitute: Sequence[str] = (),\n    ) -> None:\n        \"\"\"\n        Args:\n            input_names: The names of the inputs.\n            output_names: The names of the outputs.\n            default_input_data: The default input values\n                to overload the ones of the discipline\n                at each evaluation of the outputs with :meth:`._fun`\n                or their derivatives with :meth:`._jac`.\n                If empty, do not overload them.\n            discipline: The discipline to be adapted.\n            names_to_sizes: The sizes of the input variables.\n                If empty, determine them from the default inputs and local data\n                of the discipline :class:`.Discipline`.\n            differentiated_input_names_substitute: The names of the inputs\n                with respect to which to differentiate the functions.\n                If empty, consider the variables of their input space.\n        \"\"\"  # noqa: D205, D212, D415\n        super().__init__(\n            self._func_to_wrap,\n            jac=self._jac_to_wrap,\n            name=\"_\".join(output_names),\n            input_names=input_names,\n            output_names=output_names,\n        )\n        self.differentiated_input_names_substitute = (\n            differentiated_input_names_substitute or input_names\n        )\n        self.__default_inputs = default_input_data\n        self.__input_size = 0\n        self.__differentiated_input_size = 0\n        self.__output_names_to_slices = {}\n        self.__jacobian = array(())\n        self.__discipline = discipline\n        self.__input_names_to_slices = {}\n        self.__input_names_to_sizes = names_to_sizes or {}\n        self.__differentiated_input_names_to_slices = {}\n        input_names = set(self.input_names)\n        self.__is_linear = self.__discipline.io.have_linear_relationships(\n            input_names, output_names\n        )\n        self.__input_dimension = self.__compute_input_dimension(default_input_data)\n        self.__convert_array_to_data = (\n            discipline.io.input_grammar.data_converter.convert_array_to_data\n        )\n\n    @property\n    def is_linear(self) -> bool:  # noqa: D102\n        return self.__is_linear\n\n    @property\n    def input_dimension(self) -> int | None:  # noqa: D102\n        return self.__input_dimension\n\n    def __compute_input_dimension(\n        self,\n        default_input_data: Defaults,\n    ) -> int | None:\n        \"\"\"Compute the input dimension.\n\n        Args:\n            default_input_data: : The default input values\n                to overload the ones of the discipline\n                at each evaluation of the outputs with :meth:`._fun`\n                or their derivatives with :meth:`._jac`.\n                If ``None``, do not overload them.\n\n        Returns:\n            The input dimension.\n        \"\"\"\n        get_value_size = (\n            self.__discipline.io.input_grammar.data_converter.get_value_size\n        )\n\n        if default_input_data and all(\n            name in default_input_data for name in self.input_names\n        ):\n            return sum(\n                get_value_size(input_name, default_input_data[input_name])\n                for input_name in self.input_names\n            )\n\n        if len(self.__input_names_to_sizes) > 0:\n            return sum(self.__input_names_to_sizes.values())\n\n        default_input_data = self.__discipline.io.input_grammar.defaults\n\n        if all(name in default_input_data for name in self.input_names):\n            return sum(\n                get_value_size(input_name, default_input_data[input_name])\n                for input_name in self.input_names\n            )\n\n        # TODO: document what None means. We could use 0 instead.\n        return None\n\n    def __create_output_names_to_slices(self, jacobians: JacobianData) -> int:\n        \"\"\"Compute the indices of the input variables in the Jacobian array.\n\n        Args:\n            jacobians: The Jacobians data used to compute the slices.\n\n        Returns:\n            The size of the inputs.\n        \"\"\"\n        self.__output_names_to_slices = output_names_to_slices = {}\n        start = 0\n        output_size = 0\n        for output_name in self.output_names:\n            input_name = next(iter(jacobians[output_name]))\n            output_size += jacobians[output_name][input_name].shape[0]\n            output_names_to_slices[output_name] = slice(start, output_size)\n            start = output_size\n        return output_size\n\n    def _func_to_wrap(self, x_vect: NumberArray) -> complex | NumberArray:\n        \"\"\"Compute an output vector from an input one.\n\n        Args:\n            x_vect: The input vector.\n\n        Returns:\n            The output vector or a scalar if the vector has only one component.\n        \"\"\"\n        self.__discipline.execution_status.value = ExecutionStatus.Status.DONE\n        input_data = self.__create_discipline_input_data(x_vect)\n        output_data = self.__discipline.execute(input_data)\n        return self._convert_output_data_to_array(output_data)\n\n    def _convert_output_data_to_array(\n        self, output_data: StrKeyMapping\n    ) -> complex | NumberArray:\n        \"\"\"Convert the discipline's output data to array/scalar.\n\n        Args:\n            output_data: The discipline's output data.\n\n        Returns:\n            The vector or scalar of output data.\n        \"\"\"\n        output_vector = (\n            self.__discipline.io.output_grammar.data_converter.convert_data_to_array(\n                self.output_names, output_data\n            )\n        )\n\n        if output_vector.size == 1:  # The function is scalar.\n            return output_vector[0]\n\n        return output_vector\n\n    def _jac_to_wrap(self, x_vect: NumberArray) -> NumberArray:\n        \"\"\"Compute the Jacobian value from an input vector.\n\n        Args:\n            x_vect: The input vector.\n\n        Returns:\n            The Jacobian value.\n        \"\"\"\n        input_data = self.__create_discipline_input_data(x_vect)\n        jacobians = self.__discipline.linearize(input_data)\n\n        return self._convert_jacobian_to_array(jacobians)\n\n    def _convert_jacobian_to_array(self, jacobians: JacobianData) -> NumberArray:\n        \"\"\"Convert the discipline's Jacobians to array.\n\n        Args:\n            jacobians: The discipline's Jacobians data.\n\n        Returns:\n            The aggregated Jacobian as a NumPy array.\n        \"\"\"\n        if len(self.__jacobian) == 0:\n            output_size = self.__create_output_names_to_slices(jacobians)\n            if output_size == 1:\n                shape = self.__differentiated_input_size\n            else:\n                shape = (output_size, self.__differentiated_input_size)\n\n            self.__jacobian = zeros(shape)\n\n        if self.__jacobian.ndim == 1 or self.__jacobian.shape[0] == 1:\n            output_name = self.output_names[0]\n            jac_output = jacobians[output_name]\n            for input_name in self.differentiated_input_names_substitute:\n                input_slice = self.__differentiated_input_names_to_slices[input_name]\n                jac = jac_output[input_name]\n                # TODO: This precaution is meant to disappear when sparse 1-D array will\n                # be available. This is also mandatory since self.__jacobian is\n                # initialized as a dense array.\n                if isinstance(jac, sparse_classes):\n                    if jac.nnz == 0:\n                        # Nothing to densify: the block is already filled with zeros.\n                        continue\n                    first_row = get_row(jac, 0).todense().flatten()\n                else:\n                    first_row = jac[0, :]\n\n                self.__jacobian[input_slice] = first_row\n        else:\n            for output_name in self.output_names:\n                output_slice = self.__output_names_to_slices[output_name]\n                jac_output = jacobians[output_name]\n                for input_name in self.differentiated_input_names_substitute:\n                    input_slice = self.__differentiated_input_names_to_slices[\n                        input_name\n                    ]\n                    jac = jac_output[input_name]\n                    # TODO: This is mandatory since self.__jacobian is initialized as a\n                    # dense array. Performance improvement could be obtained if one is\n                    # able to infer the type of jac.\n                    if isinstance(jac, sparse_classes):\n                        if jac.nnz == 0:\n                            # Nothing to densify:\n                            # the block is already filled with zeros.\n                            continue\n                        jac = jac.toarray()\n", "expect": "17.9", "note": "DisciplineAdapter skips empty sparse Jacobian blocks (nnz == 0) when filling its"},
    {"name": "seeded-C17-10", "file": "formulations/base_formulation.py", "old": "        \"\"\"Remove the sub scenarios design variables from the design space.\"\"\"\n        for scenario in self.get_sub_scenarios():\n            for var in scenario.formulation.design_space:\n                if var in self.optimization_problem.design_space:\n                    self.optimization_problem.design_space.remove_variable(var)\n\n", "new": "        \"\"\"Remove the sub scenarios design variables from the design space.\"\"\"\n        design_space = self.optimization_problem.design_space\n        sub_design_spaces = [\n            scenario.formulation.design_space for scenario in self.get_sub_scenarios()\n        ]\n        for name in design_space.variable_names:\n            if all(name in sub_design_space for sub_design_space in sub_design_spaces):\n                design_space.remove_variable(name)\n\n", "expect": "17.8", "note": "_remove_sub_scenario_dv_from_ds removes only the variables shared by all the sub"},
    {"name": "unmask-in-the-order-of-all-names", "file": BF, "old": "            for key in masking_data_names:\n                i_min, i_max, n_x = indices[key]\n                x_unmask[..., i_min:i_max] = x_masked[..., i_x : i_x + n_x]\n                i_x += n_x", "new": "            for key in all_data_names:\n                if key in masking_data_names:\n                    i_min, i_max, n_x = indices[key]\n                    x_unmask[..., i_min:i_max] = x_masked[..., i_x : i_x + n_x]\n                    i_x += n_x", "expect": "17.4"},
    {"name": "equilibrium-at-discipline-defaults", "file": IDF, "old": "        ).execute(current_x)", "new": "        ).execute()", "expect": "17.5"},
    {"name": "identity-rows-by-position-times-size", "file": CC, "old": "            o_min = 0\n            o_max = 0\n            for out in self.__output_couplings:\n", "new": "            for index, out in enumerate(self.__output_couplings):\n                o_min = index * self.__dv_len[out]\n                o_max = o_min\n", "expect": "17."},
    {"name": "mdf-keeps-couplings", "file": MDF, "old": "        # No couplings in design space (managed by MDA)\n        self._remove_couplings_from_ds()\n", "new": "", "expect": "17.1"},
    {"name": "mdf-builds-functions-first", "file": MDF, "old": "        self._update_design_space()\n        self._build_objective_from_disc(objective_name, discipline=self.mda)", "new": "        self._build_objective_from_disc(objective_name, discipline=self.mda)\n        self._update_design_space()", "expect": "17.1"},
    {"name": "mdf-removes-non-couplings", "file": MDF, "old": "            if coupling in design_space:\n                design_space.remove_variable(coupling)", "new": "            if coupling not in design_space:\n                design_space.remove_variable(coupling)", "expect": "17.1"},
    {"name": "idf-accepts-missing-couplings", "file": IDF, "old": "        if not strong_couplings.issubset(variable_names):", "new": "        if not strong_couplings.intersection(variable_names):", "expect": "17.1"},
    {"name": "idf-constraints-before-check", "file": IDF, "old": "        self._update_design_space()\n        self.normalize_constraints = self._settings.normalize_constraints\n        self._build_constraints()", "new": "        self.normalize_constraints = self._settings.normalize_constraints\n        self._build_constraints()\n        self._update_design_space()", "expect": "17.1"},
    {"name": "value-order-reversed", "file": CC, "old": "        return coupl - x_sw", "new": "        return x_sw - coupl", "expect": "17.2"},
    {"name": "jacobian-order-reversed", "file": CC, "old": "        return coupl_jac - x_jac", "new": "        return x_jac - coupl_jac", "expect": "17.2"},
    {"name": "jacobian-not-scaled", "file": CC, "old": "            return (coupl_jac - x_jac) / self.__norm_fact[:, newaxis]", "new": "            return coupl_jac - x_jac", "expect": "17.2"},
    {"name": "jacobian-scales-columns", "file": CC, "old": "            return (coupl_jac - x_jac) / self.__norm_fact[:, newaxis]", "new": "            return (coupl_jac - x_jac) / self.__norm_fact", "expect": "17.2"},
    {"name": "value-multiplied", "file": CC, "old": "            return (coupl - x_sw) / self.__norm_fact", "new": "            return (coupl - x_sw) * self.__norm_fact", "expect": "17.2"},
    {"name": "identity-for-other-variables", "file": CC, "old": "                    if x_i == out:", "new": "                    if x_i != out:", "expect": "17.3"},
    {"name": "identity-window-swapped", "file": CC, "old": "                        x_jac_2d[o_min:o_max, i_min:i_max] = eye(x_len)", "new": "                        x_jac_2d[i_min:i_max, o_min:o_max] = eye(x_len)", "expect": "17.3"},
    {"name": "inner-cursor-by-output-size", "file": CC, "old": "                    i_max += x_len", "new": "                    i_max += o_len", "expect": "17.4"},
    {"name": "inner-cursor-not-reset", "file": CC, "old": "            o_min = 0\n            o_max = 0\n            for out in self.__output_couplings:\n                o_len = self.__dv_len[out]\n                i_min = 0\n                i_max = 0\n", "new": "            o_min = 0\n            o_max = 0\n            i_min = 0\n            i_max = 0\n            for out in self.__output_couplings:\n                o_len = self.__dv_len[out]\n", "expect": "17.4"},
    {"name": "inner-start-only-on-match", "file": CC, "old": "                        x_jac_2d[o_min:o_max, i_min:i_max] = eye(x_len)\n                    i_min = i_max", "new": "                        x_jac_2d[o_min:o_max, i_min:i_max] = eye(x_len)\n                        i_min = i_max", "expect": "17.4"},
    {"name": "mask-cursor-not-advanced", "file": BF, "old": "                i_masked_max += loc_size\n", "new": "                i_masked_max += 1\n", "expect": "17.4"},
    {"name": "mask-window-start-not-moved", "file": BF, "old": "                x_mask[i_masked_min:i_masked_max] = arange(i_min, i_max)\n                i_masked_min = i_masked_max", "new": "                x_mask[i_masked_min:i_masked_max] = arange(i_min, i_max)", "expect": "17.4"},
    {"name": "unmask-cursor-advanced-for-all", "file": BF, "old": "                x_unmask[..., i_min:i_max] = x_masked[..., i_x : i_x + n_x]\n                i_x += n_x", "new": "                x_unmask[..., i_min:i_max] = x_masked[..., i_x : i_x + n_x]\n                i_x += 1", "expect": "17.4"},
    {"name": "dv-indices-start-not-moved", "file": BF, "old": "            names_to_indices[name] = (start, end, size)\n            start = end", "new": "            names_to_indices[name] = (start, end, size)", "expect": "17.4"},
    {"name": "idf-raises-when-nothing-is-missing", "file": IDF, "old": "        if not strong_couplings.issubset(variable_names):\n            missing = strong_couplings.difference(variable_names)\n", "new": "        missing = strong_couplings.difference(variable_names)\n        if not missing:\n", "expect": "17.1"},
    {"name": "mdf-skips-the-present-couplings", "file": MDF, "old": "            if coupling in design_space:\n                design_space.remove_variable(coupling)", "new": "            if coupling in design_space:\n                continue\n            design_space.remove_variable(coupling)", "expect": "17.1"},
    {"name": "jacobian-factor-as-a-row", "file": CC, "old": "self.__norm_fact[:, newaxis]", "new": "self.__norm_fact[None, :]", "expect": "17.2"},
    {"name": "value-single-return-reversed", "file": CC, "old": "        if self.__formulation.normalize_constraints:\n            return (coupl - x_sw) / self.__norm_fact\n        return coupl - x_sw", "new": "        res = x_sw - coupl\n        if self.__formulation.normalize_constraints:\n            res = res / self.__norm_fact\n        return res", "expect": "17.2"},
    {"name": "target-masked-among-the-outputs-only", "file": CC, "old": "x_sw = self.__formulation.mask_x_swap_order(self.__output_couplings, x_vect)", "new": "x_sw = x_vect[self.__formulation.get_x_mask_x_swap_order(self.__output_couplings, self.__output_couplings)]", "expect": "17.2"},
    {"name": "identity-sized-by-the-output-for-other-variables", "file": CC, "old": "                    if x_i == out:\n                        x_jac_2d[o_min:o_max, i_min:i_max] = eye(x_len)", "new": "                    if x_i != out:\n                        x_jac_2d[o_min:o_max, i_min:i_max] = eye(o_len)", "expect": "17.3"},
    {"name": "jacobian-frame-square", "file": CC, "old": "zeros((n_outs, len(x_vect))", "new": "zeros((n_outs, n_outs)", "expect": "17.3"},
    {"name": "columns-in-sorted-order", "file": CC, "old": "x_names = self.__formulation.get_optim_variable_names()", "new": "x_names = sorted(self.__formulation.design_space.variable_names)", "expect": "17.3"},
    {"name": "mask-positions-one-too-many", "file": BF, "old": "arange(i_min, i_max)", "new": "range(i_min, i_max + 1)", "expect": "17.4"},
    {"name": "mask-positions-of-other-variable", "file": BF, "old": "                i_min, i_max, loc_size = indices[key]", "new": "                i_min, i_max, loc_size = indices[all_data_names[0]]", "expect": "17.4"},
    {"name": "sizes-display-local-data-last", "file": _DAD, "old": "        input_data = self.__discipline.io.get_input_data()\n        input_data.update(self.__discipline.io.input_grammar.defaults)\n", "new": "        input_data = {**self.__discipline.io.input_grammar.defaults, **self.__discipline.io.get_input_data()}\n", "expect": "17.7"},
    {"name": "sizes-local-data-copied-over-the-defaults", "file": _DAD, "old": "        input_data = self.__discipline.io.get_input_data()\n        input_data.update(self.__discipline.io.input_grammar.defaults)\n", "new": "        input_data = dict(self.__discipline.io.input_grammar.defaults)\n        for name, value in self.__discipline.io.get_input_data().items():\n            input_data[name] = value\n", "expect": "17.7"},
    {"name": "sizes-defaults-only-complete", "file": _DAD, "old": "        input_data = self.__discipline.io.get_input_data()\n        input_data.update(self.__discipline.io.input_grammar.defaults)\n", "new": "        input_data = self.__discipline.io.get_input_data()\n        for name, value in self.__discipline.io.input_grammar.defaults.items():\n            input_data.setdefault(name, value)\n", "expect": "17.7"},
    {"name": "sizes-union-local-data-last", "file": _DAD, "old": "        input_data = self.__discipline.io.get_input_data()\n        input_data.update(self.__discipline.io.input_grammar.defaults)\n", "new": "        input_data = self.__discipline.io.input_grammar.defaults | self.__discipline.io.get_input_data()\n", "expect": "17.7"},
    {"name": "sizes-local-data-merged-again", "file": _DAD, "old": "        input_data = self.__discipline.io.get_input_data()\n        input_data.update(self.__discipline.io.input_grammar.defaults)\n", "new": "        input_data = self.__discipline.io.get_input_data()\n        input_data.update(self.__discipline.io.input_grammar.defaults)\n        if self.input_names:\n            input_data.update(self.__discipline.io.get_input_data())\n", "expect": "17.7"},
    {"name": "sizes-defaults-merged-into-another-mapping", "file": _DAD, "old": "        input_data = self.__discipline.io.get_input_data()\n        input_data.update(self.__discipline.io.input_grammar.defaults)\n", "new": "        input_data = self.__discipline.io.get_input_data()\n        dict(input_data).update(self.__discipline.io.input_grammar.defaults)\n", "expect": "17.7"},
    {"name": "kept-all-the-inputs", "file": _DO, "old": "        kept_variable_names = set(all_input_names).intersection(design_space)\n", "new": "        kept_variable_names = set(all_input_names)\n", "expect": "17.6"},
    {"name": "kept-inputs-or-design-variables", "file": _DO, "old": "        kept_variable_names = set(all_input_names).intersection(design_space)\n", "new": "        kept_variable_names = set(all_input_names).union(design_space)\n", "expect": "17.6"},
    {"name": "kept-inputs-that-are-not-design-variables", "file": _DO, "old": "        kept_variable_names = set(all_input_names).intersection(design_space)\n", "new": "        kept_variable_names = {name for name in all_input_names if name not in design_space}\n", "expect": "17.6"},
    {"name": "kept-narrowed-on-one-path-only", "file": _DO, "old": "        kept_variable_names = set(all_input_names).intersection(design_space)\n", "new": "        kept_variable_names = set(all_input_names)\n        if self.disciplines:\n            kept_variable_names.intersection_update(design_space)\n", "expect": "17.6"},
    {"name": "kept-narrowed-then-widened", "file": _DO, "old": "        kept_variable_names = set(all_input_names).intersection(design_space)\n", "new": "        kept_variable_names = set(all_input_names)\n        kept_variable_names.intersection_update(design_space)\n        kept_variable_names.update(all_input_names)\n", "expect": "17.6"},
    {"name": "kept-further-restricted", "file": _DO, "old": "        kept_variable_names = set(all_input_names).intersection(design_space)\n", "new": "        kept_variable_names = set(all_input_names).intersection(design_space).intersection(self.optimization_problem.objective.input_names)\n", "expect": "17.6"},
    {"name": "equilibrium-values-of-the-current-point", "file": IDF, "old": "            value = output[name]\n", "new": "            value = current_x[name]\n", "expect": "17.5"},
    {"name": "equilibrium-items-of-another-name", "file": IDF, "old": "        for name in self.all_couplings:\n            value = output[name]\n", "new": "        equilibrium = {name: output[self.all_couplings[0]] for name in self.all_couplings}\n        for name, value in equilibrium.items():\n", "expect": "17.5"},
]
TWINS = [
    {"name": "same-name-test-mirrored", "file": CC, "old": "                    if x_i == out:", "new": "                    if out == x_i:"},
    {"name": "mdf-skips-the-absent-couplings", "file": MDF, "old": "            if coupling in design_space:\n                design_space.remove_variable(coupling)", "new": "            if coupling not in design_space:\n                continue\n            design_space.remove_variable(coupling)"},
    {"name": "idf-tests-the-missing-couplings", "file": IDF, "old": "        if not strong_couplings.issubset(variable_names):\n            missing = strong_couplings.difference(variable_names)\n", "new": "        missing = strong_couplings.difference(variable_names)\n        if missing:\n"},
    {"name": "value-single-return", "file": CC, "old": "        if self.__formulation.normalize_constraints:\n            return (coupl - x_sw) / self.__norm_fact\n        return coupl - x_sw", "new": "        res = coupl - x_sw\n        if self.__formulation.normalize_constraints:\n            res = res / self.__norm_fact\n        return res"},
    {"name": "jacobian-factor-column-by-none", "file": CC, "old": "self.__norm_fact[:, newaxis]", "new": "self.__norm_fact[:, None]"},
    {"name": "identity-sized-by-the-output", "file": CC, "old": "eye(x_len)", "new": "eye(o_len)"},
    {"name": "dv-indices-single-cursor", "file": BF, "old": "        start = end = 0\n        sizes = self.variable_sizes\n        names_to_indices = {}\n        for name in names:\n            size = sizes[name]\n            end += size\n            names_to_indices[name] = (start, end, size)\n            start = end\n", "new": "        start = 0\n        sizes = self.variable_sizes\n        names_to_indices = {}\n        for name in names:\n            size = sizes[name]\n            names_to_indices[name] = (start, start + size, size)\n            start += size\n"},
    {"name": "sizes-defaults-copied-one-by-one", "file": _DAD, "old": "        input_data = self.__discipline.io.get_input_data()\n        input_data.update(self.__discipline.io.input_grammar.defaults)\n", "new": "        input_data = self.__discipline.io.get_input_data()\n        for name, value in self.__discipline.io.input_grammar.defaults.items():\n            input_data[name] = value\n"},
    {"name": "sizes-update-by-keywords", "file": _DAD, "old": "        input_data.update(self.__discipline.io.input_grammar.defaults)\n", "new": "        input_data.update(**self.__discipline.io.input_grammar.defaults)\n"},
    {"name": "sizes-rebound-union", "file": _DAD, "old": "        input_data.update(self.__discipline.io.input_grammar.defaults)\n", "new": "        input_data = input_data | self.__discipline.io.input_grammar.defaults\n"},
    {"name": "kept-by-comprehension", "file": _DO, "old": "        kept_variable_names = set(all_input_names).intersection(design_space)\n", "new": "        kept_variable_names = [name for name in design_space if name in all_input_names]\n"},
    {"name": "kept-narrowed-in-place", "file": _DO, "old": "        kept_variable_names = set(all_input_names).intersection(design_space)\n", "new": "        kept_variable_names = set(all_input_names)\n        kept_variable_names.intersection_update(design_space)\n"},
    {"name": "equilibrium-pairs-first", "file": IDF, "old": "        for name in self.all_couplings:\n            value = output[name]\n", "new": "        for name, value in [(c, output[c]) for c in self.all_couplings]:\n"},
]
