"""C17 -- MDO formulations: three structural clauses (the MDF/IDF equivalence itself is numerical)."""

from __future__ import annotations

import ast

from gv import rules
from gv.astutil import compare_parts
from gv.astutil import dotted
from gv.astutil import last_attr
from gv.astutil import names_in
from gv.astutil import norm_stmt
from gv.astutil import stmts_of
from gv.astutil import unparse
from gv.astutil import walk_body
from gv.cfg import cfg_of
from gv.props.shared import unfolded
from gv.cursor import check_cursor_loops
from gv.props import describe
from gv.props.shared import branch_conditions
from gv.report import Ctx
from gv.report import cname

MDF = "formulations/mdf.py"
IDF = "formulations/idf.py"
BF = "formulations/base_formulation.py"
CC = "core/mdo_functions/consistency_constraint.py"

describe(
    "C17",
    explanation=(
        "Equality of MDF and IDF values/derivatives and of their optima is numerical and NOT decided. Decided: "
        "each formulation keeps the variables it optimises (MDF removes every coupling from the design space "
        "before building its functions, IDF refuses a design space that lacks a coupling); value and Jacobian of "
        "the consistency constraints subtract in the same order and scale by the same factor under the same "
        "flag; the identity block of the constraint Jacobian is placed at the rows of an output coupling and the "
        "columns of the design variable of the same name; the mask builders advance their cursors by the size of "
        "the loop's own variable."
    ),
    decided=["17.1 design-space content per formulation", "17.2 consistency constraint value/Jacobian agreement", "17.3 identity block placement", "17.4 mask cursors"],
    not_decided=["equality of MDF and IDF values and derivatives at consistent couplings", "same optimum"],
)


def check_design_spaces(ctx: Ctx) -> None:
    f = ctx.index.method(MDF, "MDF", "__init__")
    con = cname(MDF, "MDF", "__init__")
    cfg = cfg_of(f)
    upd = rules.self_calls(f, "_update_design_space")
    obj = rules.self_calls(f, "_build_objective_from_disc")
    mda = rules.assigns_to_self(f, "mda")
    ok = len(upd) == 1 and len(obj) == 1 and len(mda) == 1 and cfg.must_pass(cfg.entry, {cfg.node_of(upd[0])}) and cfg.reachable(cfg.node_of(mda[0]), cfg.node_of(upd[0])) and cfg.reachable(cfg.node_of(upd[0]), cfg.node_of(obj[0])) and not cfg.reachable(cfg.node_of(obj[0]), cfg.node_of(upd[0]))
    ctx.ob("17.1-mdf", con, ok, "MDF must create its MDA, then clean the design space, then build its functions (the couplings are known from the MDA; the functions are built over the cleaned design space)", node=(upd or [f])[0])
    g = ctx.index.method(MDF, "MDF", "_update_design_space")
    rc = rules.self_calls(g, "_remove_couplings_from_ds")
    cg = cfg_of(g)
    ok = len(rc) == 1 and cg.must_pass(cg.entry, {cg.node_of(rc[0])})
    ctx.ob("17.1-mdf", cname(MDF, "MDF", "_update_design_space"), ok, "MDF must remove the couplings from the design space (the MDA solves them): an optimiser would otherwise move variables that the MDA overwrites", node=(rc or [g])[0])
    h = ctx.index.method(MDF, "MDF", "_remove_couplings_from_ds")
    loops = [s for s in stmts_of(h) if isinstance(s, ast.For)]
    ok = len(loops) == 1 and norm_stmt(loops[0].iter) == "self.mda.coupling_structure.all_couplings"
    rm = [c for c in walk_body(h) if isinstance(c, ast.Call) and last_attr(c) == "remove_variable"]
    ch = cfg_of(h)
    ok = ok and len(rm) == 1 and dotted(rm[0].args[0]) == dotted(loops[0].target)
    if ok:
        conds = [(norm_stmt(ch.ast[t].test), v) for t, v in branch_conditions(ch, ch.node_of(rm[0])) if ch.kind[t] == "test"]
        ok = conds == [(f"{dotted(loops[0].target)} in design_space", True)]
    ctx.ob("17.1-mdf", cname(MDF, "MDF", "_remove_couplings_from_ds"), ok, "every coupling of the MDA that is in the design space must be removed from it", node=(rm or [h])[0])
    f = ctx.index.method(IDF, "IDF", "__init__")
    con = cname(IDF, "IDF", "__init__")
    cfg = cfg_of(f)
    upd = rules.self_calls(f, "_update_design_space")
    bc = rules.self_calls(f, "_build_constraints")
    ac = rules.assigns_to_self(f, "all_couplings")
    ok = len(upd) == 1 and len(bc) == 1 and len(ac) == 1 and cfg.must_pass(cfg.entry, {cfg.node_of(upd[0])}) and cfg.reachable(cfg.node_of(ac[0]), cfg.node_of(upd[0])) and cfg.reachable(cfg.node_of(upd[0]), cfg.node_of(bc[0])) and not cfg.reachable(cfg.node_of(bc[0]), cfg.node_of(upd[0]))
    ctx.ob("17.1-idf", con, ok, "IDF must compute its couplings, check the design space, then build the consistency constraints", node=(upd or [f])[0])
    ok = ac and norm_stmt(ac[0].value) == "self.coupling_structure.all_couplings"
    ctx.ob("17.1-idf", con, bool(ok), "the couplings of IDF are all the couplings of the coupling structure of its disciplines", node=(ac or [f])[0], stmt="all_couplings")
    g = ctx.index.method(IDF, "IDF", "_update_design_space")
    cg = cfg_of(g)
    raises = [s for s in stmts_of(g) if isinstance(s, ast.Raise)]
    ok = len(raises) == 1
    if ok:
        conds = [(cg.ast[t].test, v) for t, v in branch_conditions(cg, cg.node_of(raises[0])) if cg.kind[t] == "test"]
        def _neg(c_):
            t_, v_ = c_
            return (t_.operand, not v_) if isinstance(t_, ast.UnaryOp) and isinstance(t_.op, ast.Not) else (t_, v_)
        conds = [_neg(c_) for c_ in conds]
        ok = len(conds) == 1 and conds[0][1] is False and isinstance(conds[0][0], ast.Call) and last_attr(conds[0][0]) == "issubset"
        if ok:
            sub = conds[0][0]
            src = [s for s in stmts_of(g) if isinstance(s, ast.Assign) and dotted(s.targets[0]) == dotted(sub.func.value)]
            dst = [s for s in stmts_of(g) if isinstance(s, ast.Assign) and dotted(s.targets[0]) == dotted(sub.args[0])]
            ok = len(src) == 1 and "all_couplings" in norm_stmt(src[0].value) and len(dst) == 1 and "design_space" in norm_stmt(dst[0].value)
    ctx.ob("17.1-idf", cname(IDF, "IDF", "_update_design_space"), ok, "IDF must refuse a design space that does not contain every coupling (they are its optimisation variables)", node=(raises or [g])[0])


def check_constraint(ctx: Ctx) -> None:
    fv = ctx.index.method(CC, "ConsistencyConstraint", "_func_to_wrap")
    fj = ctx.index.method(CC, "ConsistencyConstraint", "_jac_to_wrap")
    conv, conj = cname(CC, "ConsistencyConstraint", "_func_to_wrap"), cname(CC, "ConsistencyConstraint", "_jac_to_wrap")

    def parts(f):
        cfg = cfg_of(f)
        out = {}
        for r in [s for s in stmts_of(f) if isinstance(s, ast.Return)]:
            conds = [(norm_stmt(cfg.ast[t].test).replace("_ConsistencyConstraint", ""), v) for t, v in branch_conditions(cfg, cfg.node_of(r)) if cfg.kind[t] == "test"]
            key = "normalized" if ("self.__formulation.normalize_constraints", True) in conds else "plain"
            out[key] = r
        return out

    pv, pj = parts(fv), parts(fj)
    ctx.need(set(pv) == set(pj) == {"normalized", "plain"}, "ConsistencyConstraint: the normalised/plain returns were not found")

    def diff(e):
        while isinstance(e, ast.BinOp) and isinstance(e.op, ast.Div):
            e = e.left
        return e

    dv, dj = diff(pv["plain"].value), diff(pj["plain"].value)
    okv = isinstance(dv, ast.BinOp) and isinstance(dv.op, ast.Sub) and dotted(dv.left) == "coupl" and dotted(dv.right) == "x_sw"
    okj = isinstance(dj, ast.BinOp) and isinstance(dj.op, ast.Sub) and dotted(dj.left) == "coupl_jac" and dotted(dj.right) == "x_jac"
    ctx.ob("17.2-order", conv, okv, "the consistency constraint is coupling(x) - target", node=pv["plain"])
    ctx.ob("17.2-order", conj, okj, "the Jacobian of the consistency constraint must subtract in the same order as its value: d coupling - d target", node=pj["plain"])
    for key in ("normalized",):
        nv, nj = pv[key].value, pj[key].value
        okv = isinstance(nv, ast.BinOp) and isinstance(nv.op, ast.Div) and norm_stmt(diff(nv)) == norm_stmt(dv) and norm_stmt(nv.right).replace("_ConsistencyConstraint", "") == "self.__norm_fact"
        ctx.ob("17.2-scaling", conv, okv, "the normalised constraint divides the same difference by the normalisation factor", node=pv[key])
        okj = isinstance(nj, ast.BinOp) and isinstance(nj.op, ast.Div) and norm_stmt(diff(nj)) == norm_stmt(dj) and isinstance(nj.right, ast.Subscript) and norm_stmt(nj.right.value).replace("_ConsistencyConstraint", "") == "self.__norm_fact" and "newaxis" in unparse(nj.right.slice)
        ctx.ob("17.2-scaling", conj, okj, "the normalised Jacobian divides each row by the factor of its constraint component (norm_fact[:, newaxis]): without the new axis the factors scale the columns", node=pj[key])
    # same functions evaluated at the same point
    cv = [s for s in stmts_of(fv) if isinstance(s, ast.Assign) and dotted(s.targets[0]) == "coupl"]
    cj = [s for s in stmts_of(fj) if isinstance(s, ast.Assign) and dotted(s.targets[0]) == "coupl_jac"]
    ok = len(cv) == 1 and len(cj) == 1 and isinstance(cv[0].value, ast.Call) and isinstance(cj[0].value, ast.Call) and norm_stmt(cv[0].value.func.value) == norm_stmt(cj[0].value.func.value) and [norm_stmt(a) for a in cv[0].value.args] == [norm_stmt(a) for a in cj[0].value.args] and last_attr(cv[0].value) in ("evaluate", "func") and last_attr(cj[0].value) in ("jac", "_jac")
    ctx.ob("17.2-order", conj, ok, "value and Jacobian must come from the same coupling function at the same point", node=(cj or [fj])[0], stmt="coupling function evaluated/differentiated at x_vect")
    xs = [s for s in stmts_of(fv) if isinstance(s, ast.Assign) and dotted(s.targets[0]) == "x_sw"]
    ok = len(xs) == 1 and last_attr(xs[0].value) == "mask_x_swap_order" and "__output_couplings" in norm_stmt(xs[0].value.args[0]) and dotted(xs[0].value.args[1]) == fv.args.args[1].arg
    ctx.ob("17.2-order", conv, ok, "the target is the part of the design vector holding the output couplings", node=(xs or [fv])[0], stmt="target = mask(output couplings, x)")


def check_identity_block(ctx: Ctx) -> None:
    f = ctx.index.method(CC, "ConsistencyConstraint", "_jac_to_wrap")
    con = cname(CC, "ConsistencyConstraint", "_jac_to_wrap")
    cfg = cfg_of(f)
    st = [s for s in stmts_of(f) if isinstance(s, ast.Assign) and isinstance(s.targets[0], ast.Subscript) and isinstance(s.value, ast.Call) and last_attr(s.value) in ("eye", "identity")]
    ctx.need(len(st) == 1, "_jac_to_wrap: identity block store not found")
    s = st[0]
    sl = s.targets[0].slice
    ok = isinstance(sl, ast.Tuple) and len(sl.elts) == 2 and all(isinstance(e, ast.Slice) for e in sl.elts)
    ctx.need(ok, "_jac_to_wrap: the identity block is not stored in a [rows, columns] window")
    loops = [cfg.ast[t] for (t, v), b in cfg.branch.items() if v and cfg.kind[t] == "loop" and cfg.dominates(b, cfg.node_of(s))]
    ctx.need(len(loops) == 2, "_jac_to_wrap: the two nested loops (outputs, design variables) were not found")
    outer = [l for l in loops if "__output_couplings" in norm_stmt(l.iter)]
    inner = [l for l in loops if l not in outer]
    ctx.need(len(outer) == 1 and len(inner) == 1, "_jac_to_wrap: loops over output couplings / design variables not identified")
    ov, iv = dotted(outer[0].target), dotted(inner[0].target)
    conds = [(cfg.ast[t].test, v) for t, v in branch_conditions(cfg, cfg.node_of(s)) if cfg.kind[t] == "test" and any(sub is cfg.ast[t] for sub in ast.walk(inner[0]))]
    ok = len(conds) == 1 and conds[0][1]
    if ok:
        cp = compare_parts(conds[0][0])
        ok = cp is not None and cp[1] is ast.Eq and {dotted(cp[0]), dotted(cp[2])} == {ov, iv}
    ctx.ob("17.3-same-name", con, ok, "the identity block belongs to the design variable that has the same name as the output coupling", node=s)
    # rows from the outer cursor pair, columns from the inner one; size from the inner variable
    row_names = names_in(sl.elts[0])
    col_names = names_in(sl.elts[1])

    def cursor_owner(names):
        for l, tag in ((outer[0], "outer"), (inner[0], "inner")):
            incs = {x.target.id for x in ast.walk(l) if isinstance(x, ast.AugAssign) and isinstance(x.target, ast.Name)}
            own = incs - ({x.target.id for x in ast.walk(inner[0]) if isinstance(x, ast.AugAssign) and isinstance(x.target, ast.Name)} if tag == "outer" else set())
            if names & own:
                return tag
        return None

    ctx.ob("17.3-window", con, cursor_owner(row_names) == "outer" and cursor_owner(col_names) == "inner", "rows of the block are the window of the output coupling (outer cursor), columns the window of the design variable (inner cursor)", node=s, stmt="rows <- output cursor, columns <- design-variable cursor")
    size = s.value.args[0]
    sdef = [x for x in ast.walk(inner[0]) if isinstance(x, ast.Assign) and dotted(x.targets[0]) == dotted(size)]
    ok = len(sdef) == 1 and iv in names_in(sdef[0].value) and "__dv_len" in norm_stmt(sdef[0].value)
    ctx.ob("17.3-window", con, ok, "the identity has the size of the design variable of the inner loop", node=s, stmt="eye(size of the loop's design variable)")
    z = [x for x in stmts_of(f) if isinstance(x, ast.Assign) and isinstance(x.value, ast.Call) and last_attr(x.value) == "zeros" and dotted(x.targets[0]) == dotted(s.targets[0].value)]
    ok = len(z) == 1 and isinstance(z[0].value.args[0], ast.Tuple) and norm_stmt(z[0].value.args[0].elts[1]) == f"len({f.args.args[1].arg})"
    ctx.ob("17.3-window", con, ok, "the target Jacobian has one column per component of the design vector", node=(z or [f])[0], stmt="zeros((n_outs, len(x_vect)))")
    xn = [x for x in stmts_of(f) if isinstance(x, ast.Assign) and dotted(x.targets[0]) == dotted(inner[0].iter)]
    ok = len(xn) == 1 and last_attr(xn[0].value) == "get_optim_variable_names"
    ctx.ob("17.3-window", con, ok, "columns follow the order of the optimisation variables of the design space", node=(xn or [f])[0], stmt="columns in design-space order")
    check_cursor_loops(ctx, "17.4-cursor", con, f, min_loops=2)


def check_masks(ctx: Ctx) -> None:
    for m, n, force in (("get_x_mask_x_swap_order", 1, None), ("unmask_x_swap_order", 1, None), ("_get_dv_indices", 1, {"end"})):
        f = ctx.index.method(BF, "BaseFormulation", m)
        check_cursor_loops(ctx, "17.4-cursor", cname(BF, "BaseFormulation", m), f, min_loops=n, force=force)
    f = ctx.index.method(BF, "BaseFormulation", "get_x_mask_x_swap_order")
    con = cname(BF, "BaseFormulation", "get_x_mask_x_swap_order")
    unp = [s for s in stmts_of(f) if isinstance(s, ast.Assign) and isinstance(s.targets[0], ast.Tuple) and isinstance(s.value, ast.Subscript) and dotted(s.value.value) == "indices"]
    loops = [s for s in stmts_of(f) if isinstance(s, ast.For) and dotted(s.iter) == "masking_data_names"]
    ok = len(unp) == 1 and len(loops) == 1 and dotted(unp[0].value.slice) == dotted(loops[0].target)
    ctx.ob("17.4-indices", con, ok, "the window of a masked variable is looked up by the name of the loop's own variable", node=(unp or [f])[0])
    st = [s for s in stmts_of(f) if isinstance(s, ast.Assign) and isinstance(s.targets[0], ast.Subscript) and dotted(s.targets[0].value) == "x_mask"]
    ok = len(st) == 1 and unp and isinstance(st[0].value, ast.Call) and last_attr(st[0].value) == "arange" and [dotted(a) for a in st[0].value.args] == [dotted(e) for e in unp[0].targets[0].elts[:2]]
    ctx.ob("17.4-indices", con, ok, "the mask holds the positions [i_min, i_max) of the variable in the full vector", node=(st or [f])[0])
    ind = [s for s in stmts_of(f) if isinstance(s, ast.Assign) and dotted(s.targets[0]) == "indices"]
    ok = len(ind) == 1 and last_attr(ind[0].value) == "_get_dv_indices" and dotted(ind[0].value.args[0]) == "all_data_names"
    ctx.ob("17.4-indices", con, ok, "positions are computed over all the data names, in their order", node=(ind or [f])[0])
    g = ctx.index.method(BF, "BaseFormulation", "unmask_x_swap_order")
    cong = cname(BF, "BaseFormulation", "unmask_x_swap_order")
    st = [s for s in stmts_of(g) if isinstance(s, ast.Assign) and isinstance(s.targets[0], ast.Subscript) and dotted(s.targets[0].value) == "x_unmask"]
    unp = [s for s in stmts_of(g) if isinstance(s, ast.Assign) and isinstance(s.targets[0], ast.Tuple) and isinstance(s.value, ast.Subscript) and dotted(s.value.value) == "indices"]
    ok = len(st) == 1 and len(unp) == 1
    if ok:
        i_min, i_max, n_x = (dotted(e) for e in unp[0].targets[0].elts)
        tsl = st[0].targets[0].slice.elts[-1] if isinstance(st[0].targets[0].slice, ast.Tuple) else st[0].targets[0].slice
        ok = isinstance(tsl, ast.Slice) and dotted(tsl.lower) == i_min and dotted(tsl.upper) == i_max and isinstance(st[0].value, ast.Subscript) and dotted(st[0].value.value) == g.args.args[2].arg
    ctx.ob("17.4-indices", cong, ok, "the masked values of a variable go to its window [i_min, i_max) of the full vector", node=(st or [g])[0])
    cfg = cfg_of(g)
    if st:
        # mask and unmask are inverse: the masked values are consumed in the order in which
        # get_x_mask_x_swap_order produces them, i.e. by a loop over the masking names
        mk = ctx.index.method(BF, "BaseFormulation", "get_x_mask_x_swap_order")
        p_mask = [a.arg for a in mk.args.args if a.arg != "self"][0]
        prod_loops = [lp for lp in stmts_of(mk) if isinstance(lp, ast.For) and dotted(lp.iter) == p_mask]
        q_mask = [a.arg for a in g.args.args if a.arg != "self"][0]
        lp = next((lp_ for lp_ in stmts_of(g) if isinstance(lp_, ast.For) and st[0] in list(ast.walk(lp_))), None)
        ok = bool(prod_loops) and lp is not None and dotted(lp.iter) == q_mask and isinstance(lp.target, ast.Name) and isinstance(unp[0].value.slice, ast.Name) and unp[0].value.slice.id == lp.target.id if unp else False
        ctx.ob("17.4-indices", cong, bool(ok), "unmask must consume the masked values in the order in which the mask produces them (a loop over the masking names, window looked up by that name): looping over all the data names permutes the values as soon as the two orders differ", node=lp or st[0], stmt="masked values consumed in the order of the masking names")
    h = ctx.index.method(BF, "BaseFormulation", "_get_dv_indices")
    conh = cname(BF, "BaseFormulation", "_get_dv_indices")
    stt = [s for s in stmts_of(h) if isinstance(s, ast.Assign) and isinstance(s.targets[0], ast.Subscript) and isinstance(s.value, ast.Tuple) and len(s.value.elts) == 3]
    lp = [s for s in stmts_of(h) if isinstance(s, ast.For)]
    ok = len(stt) == 1 and len(lp) == 1 and dotted(stt[0].targets[0].slice) == dotted(lp[0].target)
    if ok:
        sz = [s for s in ast.walk(lp[0]) if isinstance(s, ast.Assign) and dotted(s.targets[0]) == dotted(stt[0].value.elts[2])]
        ok = len(sz) == 1 and isinstance(sz[0].value, ast.Subscript) and dotted(sz[0].value.slice) == dotted(lp[0].target)
    ctx.ob("17.4-indices", conh, ok, "(start, end, size) of a variable are stored under its own name, with its own size", node=(stt or [h])[0])


def check_equilibrium(ctx: Ctx) -> None:
    """17.5: the start-at-equilibrium MDA of IDF runs at the current point of the design space."""
    f = ctx.index.method(IDF, "IDF", "_compute_equilibrium")
    con = cname(IDF, "IDF", "_compute_equilibrium")
    ex = [c for c in walk_body(f) if isinstance(c, ast.Call) and isinstance(c.func, ast.Attribute) and c.func.attr == "execute" and isinstance(c.func.value, ast.Call) and "MDA" in (dotted(c.func.value.func) or "")]
    ok = len(ex) == 1
    if ok:
        a = ex[0].args[0] if ex[0].args else next((k.value for k in ex[0].keywords if k.arg == "input_data"), None)
        defs = {s.targets[0].id: s.value for s in stmts_of(f) if isinstance(s, ast.Assign) and isinstance(s.targets[0], ast.Name)}
        v = defs.get(a.id) if isinstance(a, ast.Name) else a
        ok = v is not None and isinstance(v, ast.Call) and last_attr(v) == "get_current_value" and "design_space" in norm_stmt(v.func) and any(k.arg == "as_dict" and getattr(k.value, "value", None) is True for k in v.keywords)
    ctx.ob("17.5-equilibrium", con, bool(ok), "the equilibrium MDA must be executed at the current value of the design space (as a dictionary); without it the disciplines run at their own defaults and the stored couplings belong to another design point", node=(ex or [f])[0], stmt="MDA executed at design_space.get_current_value(as_dict=True)")
    sets = [c for c in walk_body(f) if isinstance(c, ast.Call) and last_attr(c) == "set_current_variable"]
    loops = [s for s in stmts_of(f) if isinstance(s, ast.For) and sets and sets[0] in list(ast.walk(s))]
    ok = len(sets) == 1 and len(loops) == 1 and norm_stmt(loops[0].iter) == "self.all_couplings" and dotted(sets[0].args[0]) == dotted(loops[0].target)
    if ok:
        val = sets[0].args[1]
        ldefs = {s.targets[0].id: s.value for s in ast.walk(loops[0]) if isinstance(s, ast.Assign) and isinstance(s.targets[0], ast.Name)}
        val = ldefs.get(val.id, val) if isinstance(val, ast.Name) else val
        ok = isinstance(val, ast.Subscript) and dotted(val.slice) == dotted(loops[0].target)
    ctx.ob("17.5-equilibrium", con, bool(ok), "every coupling of the design space takes the MDA output of the same name", node=(sets or [f])[0], stmt="design_space[coupling] = MDA output[coupling]")


_DO = "formulations/disciplinary_opt.py"
_DAD = "core/mdo_functions/discipline_adapter.py"


def check_disciplinary_design_space(ctx: Ctx) -> None:
    """17.6: the disciplinary formulation keeps the design variables that are inputs of what it EXECUTES (its
    top-level process): the inputs of disciplines nested below are computed by that process (weak couplings), not
    optimised."""
    f = ctx.index.method(_DO, "DisciplinaryOpt", "_filter_design_space")
    con = cname(_DO, "DisciplinaryOpt", "_filter_design_space")
    calls = [c for c in walk_body(f) if isinstance(c, ast.Call) and last_attr(c) == "get_all_inputs"]
    ctx.need(len(calls) == 1 and calls[0].args, "DisciplinaryOpt._filter_design_space: get_all_inputs(...) not found")
    alts = unfolded(f, calls[0].args[0]) or [calls[0].args[0]]
    ok = all(isinstance(a_, ast.Call) and norm_stmt(a_.func) == "self.get_top_level_disciplines" for a_ in alts)
    ctx.ob("17.6-disciplinary-design-space", con, ok, "the variables kept are the inputs of the top-level disciplines (get_top_level_disciplines()): with all the disciplines, the weak couplings present in the design space stay design variables although the chain computes them (spurious columns, a design space that differs from MDF's)", node=calls[0], stmt="inputs of the top-level disciplines")
    filt = [c for c in walk_body(f) if isinstance(c, ast.Call) and last_attr(c) == "filter"]
    ok = len(filt) == 1 and filt[0].args and all("intersection" in norm_stmt(a_) or "&" in norm_stmt(a_) for a_ in (unfolded(f, filt[0].args[0]) or [filt[0].args[0]]))
    ctx.ob("17.6-disciplinary-design-space", con, ok, "the design space is restricted to the variables that are both inputs and design variables", node=(filt or [f])[0], stmt="design_space.filter(inputs & design variables)")


def check_adapter_sizes(ctx: Ctx) -> None:
    """17.7: the slices of the design vector handed to a discipline are computed from the sizes of its DEFAULT inputs;
    the data of a previous execution only completes them (a discipline executed before with another size would
    otherwise be sliced with the stale size)."""
    f = ctx.index.method(_DAD, "DisciplineAdapter", "__create_input_names_to_slices")
    con = cname(_DAD, "DisciplineAdapter", "__create_input_names_to_slices")
    first = [s_ for s_ in stmts_of(f) if isinstance(s_, ast.Assign) and isinstance(s_.targets[0], ast.Name) and ("get_input_data" in norm_stmt(s_.value) or "defaults" in norm_stmt(s_.value))]
    ctx.need(len(first) >= 1, "__create_input_names_to_slices: the mapping the sizes are computed from was not found")
    var = first[0].targets[0].id
    updates = [c for c in walk_body(f) if isinstance(c, ast.Call) and isinstance(c.func, ast.Attribute) and c.func.attr == "update" and dotted(c.func.value) == var]
    cfg = cfg_of(f)
    order = [("init", norm_stmt(first[0].value))] + [("update", norm_stmt(u.args[0]) if u.args else "") for u in sorted(updates, key=lambda u: (u.lineno, u.col_offset))]
    if isinstance(first[0].value, ast.Dict):  # {**a, **b}
        order = [("init", norm_stmt(v_)) for k_, v_ in zip(first[0].value.keys, first[0].value.values) if k_ is None] + order[1:]
    srcs = ["defaults" if "defaults" in t else ("local" if "get_input_data" in t or "io.data" in t else "?") for _, t in order]
    ok = "defaults" in srcs and (("local" not in srcs) or max(i for i, s_ in enumerate(srcs) if s_ == "defaults") > max(i for i, s_ in enumerate(srcs) if s_ == "local"))
    ctx.ob("17.7-adapter-sizes", con, ok, f"the sizes are computed from {srcs}: the default inputs must take precedence over the data left by a previous execution", node=first[0], stmt="defaults override the previous local data")
    use = [c for c in walk_body(f) if isinstance(c, ast.Call) and last_attr(c) == "compute_names_to_sizes"]
    ok = len(use) == 1 and var in names_in(use[0])
    ctx.ob("17.7-adapter-sizes", con, ok, "the sizes are computed from that mapping", node=(use or [f])[0], stmt="compute_names_to_sizes(mapping)")


def run(ctx: Ctx) -> None:
    check_disciplinary_design_space(ctx)
    check_adapter_sizes(ctx)
    check_equilibrium(ctx)
    check_design_spaces(ctx)
    check_constraint(ctx)
    check_identity_block(ctx)
    check_masks(ctx)


# ---------------------------------------------------------------------------
WITNESSES = [
    {"name": "unmask-in-the-order-of-all-names", "file": BF, "old": "            for key in masking_data_names:\n                i_min, i_max, n_x = indices[key]\n                x_unmask[..., i_min:i_max] = x_masked[..., i_x : i_x + n_x]\n                i_x += n_x", "new": "            for key in all_data_names:\n                if key in masking_data_names:\n                    i_min, i_max, n_x = indices[key]\n                    x_unmask[..., i_min:i_max] = x_masked[..., i_x : i_x + n_x]\n                    i_x += n_x", "expect": "17.4"},
    {"name": "equilibrium-at-discipline-defaults", "file": IDF, "old": "        ).execute(current_x)", "new": "        ).execute()", "expect": "17.5"},
    {"name": "identity-rows-by-position-times-size", "file": CC, "old": "            o_min = 0\n            o_max = 0\n            for out in self.__output_couplings:\n", "new": "            for index, out in enumerate(self.__output_couplings):\n                o_min = index * self.__dv_len[out]\n                o_max = o_min\n", "expect": "17."},
    {"name": "mdf-keeps-couplings", "file": MDF, "old": "        # No couplings in design space (managed by MDA)\n        self._remove_couplings_from_ds()\n", "new": "", "expect": "17.1"},
    {"name": "mdf-builds-functions-first", "file": MDF, "old": "        self._update_design_space()\n        self._build_objective_from_disc(objective_name, discipline=self.mda)", "new": "        self._build_objective_from_disc(objective_name, discipline=self.mda)\n        self._update_design_space()", "expect": "17.1"},
    {"name": "mdf-removes-non-couplings", "file": MDF, "old": "            if coupling in design_space:\n                design_space.remove_variable(coupling)", "new": "            if coupling not in design_space:\n                design_space.remove_variable(coupling)", "expect": "17.1"},
    {"name": "idf-accepts-missing-couplings", "file": IDF, "old": "        if not strong_couplings.issubset(variable_names):", "new": "        if not strong_couplings.intersection(variable_names):", "expect": "17.1"},
    {"name": "idf-constraints-before-check", "file": IDF, "old": "        self._update_design_space()\n        self.normalize_constraints = self._settings.normalize_constraints\n        self._build_constraints()", "new": "        self.normalize_constraints = self._settings.normalize_constraints\n        self._build_constraints()\n        self._update_design_space()", "expect": "17.1"},
    {"name": "value-order-reversed", "file": CC, "old": "        return coupl - x_sw", "new": "        return x_sw - coupl", "expect": "17.2"},
    {"name": "jacobian-order-reversed", "file": CC, "old": "        return coupl_jac - x_jac", "new": "        return x_jac - coupl_jac", "expect": "17.2"},
    {"name": "jacobian-not-scaled", "file": CC, "old": "            return (coupl_jac - x_jac) / self.__norm_fact[:, newaxis]", "new": "            return coupl_jac - x_jac", "expect": "17.2"},
    {"name": "jacobian-scales-columns", "file": CC, "old": "            return (coupl_jac - x_jac) / self.__norm_fact[:, newaxis]", "new": "            return (coupl_jac - x_jac) / self.__norm_fact", "expect": "17.2"},
    {"name": "value-multiplied", "file": CC, "old": "            return (coupl - x_sw) / self.__norm_fact", "new": "            return (coupl - x_sw) * self.__norm_fact", "expect": "17.2"},
    {"name": "identity-for-other-variables", "file": CC, "old": "                    if x_i == out:", "new": "                    if x_i != out:", "expect": "17.3"},
    {"name": "identity-window-swapped", "file": CC, "old": "                        x_jac_2d[o_min:o_max, i_min:i_max] = eye(x_len)", "new": "                        x_jac_2d[i_min:i_max, o_min:o_max] = eye(x_len)", "expect": "17.3"},
    {"name": "inner-cursor-by-output-size", "file": CC, "old": "                    i_max += x_len", "new": "                    i_max += o_len", "expect": "17.4"},
    {"name": "inner-cursor-not-reset", "file": CC, "old": "            o_min = 0\n            o_max = 0\n            for out in self.__output_couplings:\n                o_len = self.__dv_len[out]\n                i_min = 0\n                i_max = 0\n", "new": "            o_min = 0\n            o_max = 0\n            i_min = 0\n            i_max = 0\n            for out in self.__output_couplings:\n                o_len = self.__dv_len[out]\n", "expect": "17.4"},
    {"name": "inner-start-only-on-match", "file": CC, "old": "                        x_jac_2d[o_min:o_max, i_min:i_max] = eye(x_len)\n                    i_min = i_max", "new": "                        x_jac_2d[o_min:o_max, i_min:i_max] = eye(x_len)\n                        i_min = i_max", "expect": "17.4"},
    {"name": "mask-cursor-not-advanced", "file": BF, "old": "                i_masked_max += loc_size\n", "new": "                i_masked_max += 1\n", "expect": "17.4"},
    {"name": "mask-window-start-not-moved", "file": BF, "old": "                x_mask[i_masked_min:i_masked_max] = arange(i_min, i_max)\n                i_masked_min = i_masked_max", "new": "                x_mask[i_masked_min:i_masked_max] = arange(i_min, i_max)", "expect": "17.4"},
    {"name": "unmask-cursor-advanced-for-all", "file": BF, "old": "                    x_unmask[..., i_min:i_max] = x_masked[..., i_x : i_x + n_x]\n                    i_x += n_x", "new": "                    x_unmask[..., i_min:i_max] = x_masked[..., i_x : i_x + n_x]\n                i_x += 1", "expect": "17.4"},
    {"name": "dv-indices-start-not-moved", "file": BF, "old": "            names_to_indices[name] = (start, end, size)\n            start = end", "new": "            names_to_indices[name] = (start, end, size)", "expect": "17.4"},
    {"name": "mask-positions-of-other-variable", "file": BF, "old": "                i_min, i_max, loc_size = indices[key]", "new": "                i_min, i_max, loc_size = indices[all_data_names[0]]", "expect": "17.4"},
]
TWINS = [
    {"name": "same-name-test-mirrored", "file": CC, "old": "                    if x_i == out:", "new": "                    if out == x_i:"},
]
