"""Rule groups shared by several properties (Database.store protocol, memoising methods, h5py files)."""

from __future__ import annotations

import ast

from gv import rules
from gv.astutil import dotted
from gv.astutil import kwarg
from gv.astutil import last_attr
from gv.astutil import mangle
from gv.astutil import names_in
from gv.astutil import norm_stmt
from gv.astutil import stmts_of
from gv.astutil import walk_body
from gv.cfg import cfg_of
from gv.report import Ctx
from gv.report import cname

DB = "algos/database.py"
PF = "algos/problem_function.py"


def conj_literals(test: ast.AST) -> list[tuple[bool, ast.AST]]:
    """Flatten ``a and not b and c`` into [(True, a), (False, b), (True, c)]."""
    if isinstance(test, ast.BoolOp) and isinstance(test.op, ast.And):
        out = []
        for v in test.values:
            out += conj_literals(v)
        return out
    if isinstance(test, ast.UnaryOp) and isinstance(test.op, ast.Not):
        return [(False, test.operand)]
    return [(True, test)]


def branch_conditions(cfg, node: int) -> list[tuple[int, bool]]:
    """(test node, value) pairs whose branch dominates ``node``."""
    return [(t, v) for (t, v), b in cfg.branch.items() if cfg.dominates(b, node)]


def store_protocol(ctx: Ctx, prefix: str, which: set[str]) -> None:
    """Ordering facts of ``Database.store``.

    ``which`` selects: ``emptiness`` (3.3), ``pending`` (11.3 / 12.2).
    """
    f = ctx.index.method(DB, "Database", "store")
    con = cname(DB, "Database", "store")
    cfg = cfg_of(f)
    cls = "Database"
    data_names = {"__data", mangle(cls, "__data")}
    # the converted key
    key_defs = [s for s in stmts_of(f) if isinstance(s, ast.Assign) and isinstance(s.value, ast.Call) and last_attr(s.value) == "get_hashable_ndarray"]
    ctx.need(len(key_defs) == 1 and isinstance(key_defs[0].targets[0], ast.Name), "Database.store: key conversion not found")
    key = key_defs[0].targets[0].id
    # writes of the mapping
    writes = []
    for s in stmts_of(f):
        if isinstance(s, ast.Assign) and isinstance(s.targets[0], ast.Subscript) and isinstance(s.targets[0].value, ast.Attribute) and s.targets[0].value.attr in data_names:
            writes.append(s)
    # the stored entry: <var> = self.get(key)
    entry_defs = [s for s in stmts_of(f) if isinstance(s, ast.Assign) and isinstance(s.value, ast.Call) and last_attr(s.value) == "get" and dotted(s.value.func.value) == "self" and isinstance(s.targets[0], ast.Name)]
    ctx.need(len(entry_defs) == 1, "Database.store: `<entry> = self.get(<key>)` not found")
    entry = entry_defs[0].targets[0].id
    ctx.ob(f"{prefix}-entry-key", con, bool(entry_defs[0].value.args) and dotted(entry_defs[0].value.args[0]) == key, "the existing entry must be looked up with the converted key", node=entry_defs[0])
    updates = [c for c in walk_body(f) if isinstance(c, ast.Call) and isinstance(c.func, ast.Attribute) and c.func.attr == "update" and dotted(c.func.value) == entry]
    ctx.need(writes and updates, "Database.store: the two write forms (new entry / update) were not found")
    for w in writes:
        ok = dotted(w.targets[0].slice) == key and dotted(w.value) == f.args.args[2].arg
        ctx.ob(f"{prefix}-write", con, ok, "a new entry must be `__data[<converted key>] = outputs`", node=w)
        wn = cfg.node_of(w)
        conds = branch_conditions(cfg, wn)
        ok = any(v and isinstance(cfg.ast[t].test, ast.Compare) and dotted(cfg.ast[t].test.left) == entry and isinstance(cfg.ast[t].test.ops[0], ast.Is) for t, v in conds)
        ctx.ob(f"{prefix}-write", con, ok, "a new entry may only be created when no entry exists for the key (otherwise recorded outputs are dropped)", node=w, stmt="new entry only if entry is None")
    write_nodes = {cfg.node_of(w) for w in writes} | {cfg.node_of(u) for u in updates}
    notify_new = rules.self_calls(f, "notify_new_iter_listeners")
    notify_store = rules.self_calls(f, "notify_store_listeners")
    ctx.need(len(notify_new) == 1 and len(notify_store) == 1, "Database.store: listener notifications not found")
    if "emptiness" in which:
        empt = [s for s in stmts_of(f) if isinstance(s, ast.Assign) and isinstance(s.value, ast.UnaryOp) and isinstance(s.value.op, ast.Not) and dotted(s.value.operand) == entry and isinstance(s.targets[0], ast.Name)]
        ctx.need(len(empt) == 1, "Database.store: `<was_empty> = not <entry>` not found")
        ev = empt[0].targets[0].id
        en = cfg.node_of(empt[0])
        ok = all(cfg.reachable(en, w) and not cfg.reachable(w, en) for w in write_nodes) and cfg.dominates(en, cfg.node_of(notify_new[0]))
        ctx.ob(f"{prefix}-empty-before-write", con, ok, "whether the entry was empty must be read before the entry is created/updated: read afterwards it is never empty and no new iteration is ever signalled (or always, for `{}`)", node=empt[0])
        nn = cfg.node_of(notify_new[0])
        lits = []
        for t, v in branch_conditions(cfg, nn):
            cl = conj_literals(cfg.ast[t].test)
            if v:
                lits += [(pos, dotted(e)) for pos, e in cl]
            elif len(cl) == 1:
                lits.append((not cl[0][0], dotted(cl[0][1])))
        names = {d for p, d in lits if p}
        ok = ev in names and f.args.args[2].arg in names
        ctx.ob(f"{prefix}-new-iter-cond", con, ok, "new-iteration listeners must be notified iff the stored outputs are non-empty and the entry was empty before", node=notify_new[0], slots={"conditions": sorted(str(x) for x in names)})
        neg = {d for p, d in lits if not p}
        ctx.ob(f"{prefix}-new-iter-cond", con, not ({ev, f.args.args[2].arg} & neg), "the notification condition is negated", node=notify_new[0], stmt="polarity of the notification condition")
        ok = cfg.must_pass(cfg.entry, write_nodes, nn)
        ctx.ob(f"{prefix}-notify-after-write", con, ok, "listeners must be notified after the data is in the mapping (callbacks read it)", node=notify_new[0])
    if "pending" in which:
        pend = [c for c in walk_body(f) if isinstance(c, ast.Call) and last_attr(c) == "add_pending_array"]
        ctx.need(len(pend) == 1, "Database.store: add_pending_array call not found")
        pn = cfg.node_of(pend[0])
        ok = bool(pend[0].args) and dotted(pend[0].args[0]) == key
        ctx.ob(f"{prefix}-pending-key", con, ok, "the pending array must be the converted (copied) key", node=pend[0])
        for nt in (*notify_new, *notify_store):
            ok = cfg.dominates(pn, cfg.node_of(nt))
            ctx.ob(f"{prefix}-pending-before-notify", con, ok, "a point must be marked pending before listeners (the backup export) are notified, otherwise the export misses it", node=nt)
        ok = cfg.must_pass(cfg.entry, {pn})
        ctx.ob(f"{prefix}-pending-always", con, ok, "every store must mark its point pending for the next incremental export", node=pend[0], stmt="add_pending_array on every path")
        for nt in (*notify_new, *notify_store):
            ok = cfg.must_pass(cfg.entry, write_nodes, cfg.node_of(nt))
            ctx.ob(f"{prefix}-notify-after-write", con, ok, "listeners must be notified after the data is in the mapping", node=nt)


def h5py_files_in_with(ctx: Ctx, rule: str, relpaths: list[str], floor: int) -> None:
    """Every ``h5py.File(...)`` is the context expression of a ``with`` statement."""
    n = 0
    for rel in relpaths:
        mod = ctx.index.module(rel)
        with_exprs = set()
        for node in ast.walk(mod.tree):
            if isinstance(node, (ast.With, ast.AsyncWith)):
                for it in node.items:
                    with_exprs.add(id(it.context_expr))
        for node in ast.walk(mod.tree):
            if isinstance(node, ast.Call) and dotted(node.func) in ("h5py.File", "File", "h5py_File"):
                if dotted(node.func) == "File" and "h5py" not in mod.imports.get("File", ""):
                    continue
                n += 1
                ctx.ob(rule, cname(rel, None, "<module>"), id(node) in with_exprs, "an HDF5 file is opened outside a `with` statement: it may stay open (locked, unflushed) after the method returns or raises", node=node, stmt=f"{norm_stmt(node, 80)} @{_enclosing_name(mod.tree, node)}")
    ctx.counts[rule] = max(ctx.counts.get(rule, 0), n)
    ctx.floor(rule, floor)


def _enclosing_name(tree: ast.AST, node: ast.AST) -> str:
    best = "<module>"
    for f in ast.walk(tree):
        if isinstance(f, (ast.FunctionDef, ast.AsyncFunctionDef)):
            if any(sub is node for sub in ast.walk(f)):
                best = f.name
    return best
