"""Rule groups shared by several properties (Database.store protocol, memoising methods, h5py files)."""

from __future__ import annotations

import ast

from gv import rules
from gv.astutil import dotted
from gv.astutil import kwarg
from gv.astutil import last_attr
from gv.astutil import mangle
from gv.astutil import names_in
from gv.astutil import norm_stmt
from gv.astutil import stmts_of
from gv.astutil import walk_body
from gv.cfg import cfg_of
from gv.report import Ctx
from gv.report import cname

DB = "algos/database.py"
PF = "algos/problem_function.py"


def conj_literals(test: ast.AST) -> list[tuple[bool, ast.AST]]:
    """Flatten ``a and not b and c`` into [(True, a), (False, b), (True, c)]."""
    if isinstance(test, ast.BoolOp) and isinstance(test.op, ast.And):
        out = []
        for v in test.values:
            out += conj_literals(v)
        return out
    if isinstance(test, ast.UnaryOp) and isinstance(test.op, ast.Not):
        return [(False, test.operand)]
    return [(True, test)]


def branch_conditions(cfg, node: int) -> list[tuple[int, bool]]:
    """(test node, value) pairs whose branch dominates ``node``."""
    return [(t, v) for (t, v), b in cfg.branch.items() if cfg.dominates(b, node)]


def literal_facts(cfg, node: int) -> dict[str, bool]:
    """Truth value of plain conditions (by normalised text) on every path reaching ``node``.

    A true branch of ``a and not b`` gives {a: True, b: False}; a false branch gives a fact only for a
    single literal (``if not a: return`` makes ``a`` true afterwards).
    """
    from gv.astutil import norm_stmt as _ns

    out: dict[str, bool] = {}
    for (t, v), b in cfg.branch.items():
        if not cfg.dominates(b, node):
            continue
        test = getattr(cfg.ast[t], "test", None)
        if test is None:
            continue
        lits = conj_literals(test)
        if v:
            for pol, e in lits:
                out[_ns(e)] = pol
        elif len(lits) == 1:
            out[_ns(lits[0][1])] = not lits[0][0]
    return out


def contradicted_branches(cfg, node: int) -> set[int]:
    """Branch pseudo-nodes that cannot be taken after ``node`` because they contradict a condition that holds at
    ``node`` (same normalised text, single literal, the names of the condition not reassigned in the function)."""
    from gv.astutil import norm_stmt as _ns

    facts = literal_facts(cfg, node)
    assigned = set()
    for n_ in cfg.stmt_nodes():
        st = cfg.ast[n_]
        if n_ == node or not cfg.reachable(node, n_):
            continue  # only a re-assignment AFTER the node can change the value of the condition
        if isinstance(st, (ast.Assign, ast.AugAssign, ast.AnnAssign)):
            for t in st.targets if isinstance(st, ast.Assign) else [st.target]:
                for x in ast.walk(t):
                    if isinstance(x, ast.Name):
                        assigned.add(x.id)
    out = set()
    for (t, v), b in cfg.branch.items():
        test = getattr(cfg.ast[t], "test", None)
        if test is None:
            continue
        lits = conj_literals(test)
        if len(lits) != 1:
            continue
        pol, e = lits[0]
        txt = _ns(e)
        if txt in facts and not ({x.id for x in ast.walk(e) if isinstance(x, ast.Name)} & assigned):
            holds = facts[txt] == pol  # value of the test
            if v != holds:
                out.add(b)
    return out


def inlined_calls(meth: ast.AST, func: ast.AST) -> list[ast.Call]:
    """Calls in ``func`` that are the one-call body of the method ``meth`` written in place of ``self.meth(..)``: the
    same call with the parameters of ``meth`` replaced consistently by expressions."""
    body = [b for b in meth.body if not (isinstance(b, ast.Expr) and isinstance(b.value, ast.Constant))]
    if len(body) != 1 or not isinstance(body[0], (ast.Expr, ast.Return)) or not isinstance(body[0].value, ast.Call):
        return []
    pattern = body[0].value
    params = {a.arg for a in meth.args.args[1:]}

    def unify(p_: ast.AST, t_: ast.AST, env: dict) -> bool:
        if isinstance(p_, ast.Name) and p_.id in params:
            txt = ast.dump(t_)
            return env.setdefault(p_.id, txt) == txt
        if type(p_) is not type(t_):
            return False
        for (fa, va), (fb, vb) in zip(ast.iter_fields(p_), ast.iter_fields(t_)):
            if fa in ("ctx", "lineno", "col_offset", "end_lineno", "end_col_offset", "type_comment"):
                continue
            if isinstance(va, ast.AST):
                if not isinstance(vb, ast.AST) or not unify(va, vb, env):
                    return False
            elif isinstance(va, list):
                if not isinstance(vb, list) or len(va) != len(vb) or not all(unify(x, y, env) if isinstance(x, ast.AST) else x == y for x, y in zip(va, vb)):
                    return False
            elif va != vb:
                return False
        return True

    def same_attr(a: str, b: str) -> bool:
        return a == b or a.endswith(b.lstrip("_")) and b.startswith("__") or b.endswith(a.lstrip("_")) and a.startswith("__")

    out = []
    for c in walk_body(func):
        if isinstance(c, ast.Call) and unify(pattern, c, {}):
            out.append(c)
    return out


def store_protocol(ctx: Ctx, prefix: str, which: set[str]) -> None:
    """Ordering facts of ``Database.store``.

    ``which`` selects: ``emptiness`` (3.3), ``pending`` (11.3 / 12.2).
    """
    f = ctx.index.method(DB, "Database", "store")
    con = cname(DB, "Database", "store")
    cfg = cfg_of(f)
    cls = "Database"
    data_names = {"__data", mangle(cls, "__data")}
    # the converted key
    key_defs = [s for s in stmts_of(f) if isinstance(s, ast.Assign) and isinstance(s.value, ast.Call) and last_attr(s.value) == "get_hashable_ndarray"]
    ctx.need(len(key_defs) == 1 and isinstance(key_defs[0].targets[0], ast.Name), "Database.store: key conversion not found")
    key = key_defs[0].targets[0].id
    # writes of the mapping
    writes = []
    for s in stmts_of(f):
        if isinstance(s, ast.Assign) and isinstance(s.targets[0], ast.Subscript) and isinstance(s.targets[0].value, ast.Attribute) and s.targets[0].value.attr in data_names:
            writes.append(s)
    # the stored entry: <var> = self.get(key)
    entry_defs = [s for s in stmts_of(f) if isinstance(s, ast.Assign) and isinstance(s.value, ast.Call) and last_attr(s.value) == "get" and dotted(s.value.func.value) == "self" and isinstance(s.targets[0], ast.Name)]
    ctx.need(len(entry_defs) == 1, "Database.store: `<entry> = self.get(<key>)` not found")
    entry = entry_defs[0].targets[0].id
    ctx.ob(f"{prefix}-entry-key", con, bool(entry_defs[0].value.args) and dotted(entry_defs[0].value.args[0]) == key, "the existing entry must be looked up with the converted key", node=entry_defs[0])
    updates = [c for c in walk_body(f) if isinstance(c, ast.Call) and isinstance(c.func, ast.Attribute) and c.func.attr == "update" and dotted(c.func.value) == entry]
    ctx.need(writes and updates, "Database.store: the two write forms (new entry / update) were not found")
    for w in writes:
        p_out = f.args.args[2].arg
        v_ = w.value
        # the outputs themselves or a fresh mapping of them (dict(outputs), outputs.copy(), {**outputs})
        is_out = dotted(v_) == p_out or (isinstance(v_, ast.Call) and ((dotted(v_.func) == "dict" and len(v_.args) == 1 and dotted(v_.args[0]) == p_out) or (isinstance(v_.func, ast.Attribute) and v_.func.attr == "copy" and dotted(v_.func.value) == p_out))) or (isinstance(v_, ast.Dict) and len(v_.keys) == 1 and v_.keys[0] is None and dotted(v_.values[0]) == p_out)
        ok = dotted(w.targets[0].slice) == key and is_out
        ctx.ob(f"{prefix}-write", con, ok, "a new entry must hold the given outputs under the converted key: `__data[<converted key>] = outputs` (or a copy of them)", node=w)
        wn = cfg.node_of(w)
        conds = branch_conditions(cfg, wn)
        ok = any(v and isinstance(cfg.ast[t].test, ast.Compare) and dotted(cfg.ast[t].test.left) == entry and isinstance(cfg.ast[t].test.ops[0], ast.Is) for t, v in conds)
        ctx.ob(f"{prefix}-write", con, ok, "a new entry may only be created when no entry exists for the key (otherwise recorded outputs are dropped)", node=w, stmt="new entry only if entry is None")
    write_nodes = {cfg.node_of(w) for w in writes} | {cfg.node_of(u) for u in updates}
    notify_new = rules.self_calls(f, "notify_new_iter_listeners") or inlined_calls(ctx.index.method(DB, "Database", "notify_new_iter_listeners"), f)
    notify_store = rules.self_calls(f, "notify_store_listeners") or inlined_calls(ctx.index.method(DB, "Database", "notify_store_listeners"), f)
    ctx.need(len(notify_new) == 1 and len(notify_store) == 1, "Database.store: listener notifications not found")
    if "emptiness" in which:
        empt = [s for s in stmts_of(f) if isinstance(s, ast.Assign) and isinstance(s.value, ast.UnaryOp) and isinstance(s.value.op, ast.Not) and dotted(s.value.operand) == entry and isinstance(s.targets[0], ast.Name)]
        ctx.need(len(empt) == 1, "Database.store: `<was_empty> = not <entry>` not found")
        ev = empt[0].targets[0].id
        en = cfg.node_of(empt[0])
        ok = all(cfg.reachable(en, w) and not cfg.reachable(w, en) for w in write_nodes) and cfg.dominates(en, cfg.node_of(notify_new[0]))
        ctx.ob(f"{prefix}-empty-before-write", con, ok, "whether the entry was empty must be read before the entry is created/updated: read afterwards it is never empty and no new iteration is ever signalled (or always, for `{}`)", node=empt[0])
        nn = cfg.node_of(notify_new[0])
        lits = []
        for t, v in branch_conditions(cfg, nn):
            cl = conj_literals(cfg.ast[t].test)
            if v:
                lits += [(pos, dotted(e)) for pos, e in cl]
            elif len(cl) == 1:
                lits.append((not cl[0][0], dotted(cl[0][1])))
        names = {d for p, d in lits if p}
        ok = ev in names and f.args.args[2].arg in names
        ctx.ob(f"{prefix}-new-iter-cond", con, ok, "new-iteration listeners must be notified iff the stored outputs are non-empty and the entry was empty before", node=notify_new[0], slots={"conditions": sorted(str(x) for x in names)})
        neg = {d for p, d in lits if not p}
        ctx.ob(f"{prefix}-new-iter-cond", con, not ({ev, f.args.args[2].arg} & neg), "the notification condition is negated", node=notify_new[0], stmt="polarity of the notification condition")
        ok = cfg.must_pass(cfg.entry, write_nodes, nn)
        ctx.ob(f"{prefix}-notify-after-write", con, ok, "listeners must be notified after the data is in the mapping (callbacks read it)", node=notify_new[0])
    if "pending" in which:
        pend = [c for c in walk_body(f) if isinstance(c, ast.Call) and last_attr(c) == "add_pending_array"]
        ctx.ob(f"{prefix}-pending-always", con, bool(pend), "every store must mark its point pending for the next incremental export (add_pending_array is missing)", node=(pend or [f])[0], stmt="add_pending_array present")
        if not pend:
            return
        pns = {cfg.node_of(p_) for p_ in pend}
        ok = all(bool(p_.args) and dotted(p_.args[0]) == key for p_ in pend)
        ctx.ob(f"{prefix}-pending-key", con, ok, "the pending array must be the converted (copied) key", node=pend[0])
        for nt in (*notify_new, *notify_store):
            ok = cfg.must_pass(cfg.entry, pns, cfg.node_of(nt))
            ctx.ob(f"{prefix}-pending-before-notify", con, ok, "a point must be marked pending before listeners (the backup export) are notified, otherwise the export misses it", node=nt)
        # the store listeners (the backup export when it is made at each function call) run before the new-iteration
        # listeners: those evaluate the observables, i.e. execute disciplines, and a crash there must find the value
        # just stored already in the file
        ok = not cfg.reachable(cfg.node_of(notify_new[0]), cfg.node_of(notify_store[0])) and cfg.reachable(cfg.node_of(notify_store[0]), cfg.node_of(notify_new[0]))
        ctx.ob(f"{prefix}-export-before-new-iteration", con, ok, "the store listeners (backup export) must be notified before the new-iteration listeners: the latter execute disciplines (observables), and if the process dies there the value that was just stored is not in the backup", node=notify_new[0], stmt="store listeners before new-iteration listeners")
        ok = cfg.must_pass(cfg.entry, pns)
        ctx.ob(f"{prefix}-pending-always", con, ok, "every store must mark its point pending for the next incremental export", node=pend[0], stmt="add_pending_array on every path")
        for nt in (*notify_new, *notify_store):
            ok = cfg.must_pass(cfg.entry, write_nodes, cfg.node_of(nt))
            ctx.ob(f"{prefix}-notify-after-write", con, ok, "listeners must be notified after the data is in the mapping", node=nt)


def h5py_files_in_with(ctx: Ctx, rule: str, relpaths: list[str], floor: int) -> None:
    """Every ``h5py.File(...)`` is the context expression of a ``with`` statement."""
    n = 0
    for rel in relpaths:
        mod = ctx.index.module(rel)
        with_exprs = set()
        for node in ast.walk(mod.tree):
            if isinstance(node, (ast.With, ast.AsyncWith)):
                for it in node.items:
                    with_exprs.add(id(it.context_expr))
        for node in ast.walk(mod.tree):
            if isinstance(node, ast.Call) and dotted(node.func) in ("h5py.File", "File", "h5py_File"):
                if dotted(node.func) == "File" and "h5py" not in mod.imports.get("File", ""):
                    continue
                n += 1
                ctx.ob(rule, cname(rel, None, "<module>"), id(node) in with_exprs, "an HDF5 file is opened outside a `with` statement: it may stay open (locked, unflushed) after the method returns or raises", node=node, stmt=f"{norm_stmt(node, 80)} @{_enclosing_name(mod.tree, node)}")
    ctx.counts[rule] = max(ctx.counts.get(rule, 0), n)
    ctx.floor(rule, floor)


def _enclosing_name(tree: ast.AST, node: ast.AST) -> str:
    best = "<module>"
    for f in ast.walk(tree):
        if isinstance(f, (ast.FunctionDef, ast.AsyncFunctionDef)):
            if any(sub is node for sub in ast.walk(f)):
                best = f.name
    return best


# ---------------------------------------------------------------------------
# lock discipline of the full caches (C05-6 / C13-4)

BFC = "caches/base_full_cache.py"
SHARED_FIELDS = {"_hashes_to_indices", "_max_index", "_last_accessed_index"}
STORAGE_CALLS = {"_read_data", "_write_data", "_has_group", "_initialize_entry"}


def lock_discipline(ctx: Ctx, rule: str) -> None:
    """Every method touching the shared cache state is ``@synchronized`` or only reachable from such methods."""
    from gv.astutil import decorator_names

    base = ctx.index.cls(BFC, "BaseFullCache")
    classes = [base, *ctx.index.subclasses(base)]
    methods: dict[tuple[str, str], tuple] = {}
    for c in classes:
        for n, f in c.methods.items():
            methods[(c.key, n)] = (c, f)

    def unm(c, n):
        pre = "_" + c.name.lstrip("_") + "__"
        return n[len(pre) - 2 :] if n.startswith(pre) else n

    def touches(c, f) -> list[ast.AST]:
        out = []
        # a bare emptiness test of the index (``if not self._hashes_to_indices``) is one atomic proxy call
        benign = set()
        for n in walk_body(f):
            if isinstance(n, ast.UnaryOp) and isinstance(n.op, ast.Not):
                benign.add(id(n.operand))
            elif isinstance(n, (ast.If, ast.While)):
                benign.add(id(n.test))
            elif isinstance(n, ast.Call) and dotted(n.func) in ("len", "bool") and n.args:
                benign.add(id(n.args[0]))
        for n in walk_body(f):
            if isinstance(n, ast.Attribute) and isinstance(n.value, ast.Name) and n.value.id == "self":
                if n.attr in SHARED_FIELDS and id(n) not in benign:
                    out.append(n)
            if isinstance(n, ast.Call) and isinstance(n.func, ast.Attribute) and isinstance(n.func.value, ast.Name) and n.func.value.id == "self" and n.func.attr in STORAGE_CALLS:
                out.append(n)
        return out

    def locked(f, need: str = "any") -> bool:
        d = set(decorator_names(f))
        # the spelled-out form of the decorators: the whole body is one `with self.lock:` / `with self.lock_hashes:`
        body = [b for b in f.body if not (isinstance(b, ast.Expr) and isinstance(b.value, ast.Constant))]
        if len(body) == 1 and isinstance(body[0], ast.With):
            for it in body[0].items:
                if dotted(it.context_expr) == "self.lock":
                    d.add("synchronized")
                elif dotted(it.context_expr) == "self.lock_hashes":
                    d.add("synchronized_hashes")
        if need == "data":
            return "synchronized" in d  # the lock of the entries, shared by readers and writers of the data
        return "synchronized" in d or "synchronized_hashes" in d

    # callers map (within the hierarchy)
    callers: dict[tuple[str, str], list[tuple[str, str]]] = {}
    for key, (c, f) in methods.items():
        for n in walk_body(f):
            if isinstance(n, ast.Call) and isinstance(n.func, ast.Attribute) and isinstance(n.func.value, ast.Name) and n.func.value.id == "self":
                name = unm(c, n.func.attr)
                for k2, (c2, f2) in methods.items():
                    if k2[1] == name and (ctx.index.is_subclass(c, c2) or ctx.index.is_subclass(c2, c)):
                        if name.startswith("__") and not name.endswith("__") and c2 != c:
                            continue
                        callers.setdefault(k2, []).append(key)
            elif isinstance(n, ast.Attribute) and isinstance(n.value, ast.Name) and n.value.id == "self":
                # property access
                for k2, (c2, f2) in methods.items():
                    if k2[1] == n.attr and n.attr in c2.properties and (ctx.index.is_subclass(c, c2) or ctx.index.is_subclass(c2, c)):
                        callers.setdefault(k2, []).append(key)

    memo: dict = {}

    def protected(key, need="any", stack=()) -> bool:
        if (key, need) in memo:
            return memo[(key, need)]
        c, f = methods[key]
        if locked(f, need):
            memo[(key, need)] = True
            return True
        if key in stack:
            return True
        if key[1] in ("__init__", "__setstate__", "__getstate__"):
            memo[(key, need)] = True  # construction: the object is not shared yet
            return True
        cs = callers.get(key, [])
        public = not key[1].startswith("_") or (key[1].startswith("__") and key[1].endswith("__"))
        res = bool(cs) and not public and all(protected(k, need, (*stack, key)) for k in cs)
        memo[(key, need)] = res
        return res

    n = 0
    for key in sorted(methods):
        c, f = methods[key]
        if any(isinstance(s, ast.Expr) and isinstance(s.value, ast.Constant) and s.value.value is Ellipsis for s in f.body) and len(f.body) <= 2:
            continue  # overload stub / abstract declaration
        t = touches(c, f)
        if not t:
            continue
        # storage primitives themselves are protected through their callers
        n += 1
        # entries, counters and the last-accessed index are guarded by the data lock; the hash index alone by either
        data = [x for x in t if not (isinstance(x, ast.Attribute) and x.attr == "_hashes_to_indices")]
        need = "data" if data else "any"
        ctx.ob(rule, cname(c.module.relpath, c.qualname, key[1]), protected(key, need), f"{c.name}.{key[1]} touches the shared cache state ({norm_stmt((data or t)[0], 50)}) but does not hold {'the data lock (@synchronized)' if need == 'data' else 'a lock'}, neither itself nor through all its callers: concurrent workers can corrupt the index, overwrite the last-accessed entry or read a half-written entry", node=f, stmt=f"lock held in {key[1]}")
    ctx.floor(rule, 10)
    # the decorators take the object's own lock
    for name, attr in (("synchronized", "lock"), ("synchronized_hashes", "lock_hashes")):
        g = ctx.index.func("utils/locks.py", name)
        ok = _decorator_holds(g, attr)
        ctx.ob(rule + "-decorator", cname("utils/locks.py", None, name), ok, f"@{name} must run the wrapped method while holding the `{attr}` of the object it is called on (`with args[0].{attr}`, or acquire / try / finally release), and return its result", node=g)


def _decorator_holds(g: ast.AST, attr: str) -> bool:
    """The decorator ``g(wrapped)`` returns a wrapper whose every call of ``wrapped`` runs while the lock ``attr`` of the
    first positional argument is held, and which returns the result of that call."""
    from gv.dataflow import SymValues

    if not g.args.args:
        return False
    wrapped = g.args.args[0].arg
    inner = [n for n in g.body if isinstance(n, (ast.FunctionDef, ast.AsyncFunctionDef))]
    if len(inner) != 1 or not any(isinstance(r, ast.Return) and isinstance(r.value, ast.Name) and r.value.id == inner[0].name for r in g.body):
        return False
    w = inner[0]
    # the object: first element of the variadic positional arguments, or the first named parameter
    if w.args.args:
        receivers = {w.args.args[0].arg}
    elif w.args.vararg:
        receivers = {f"{w.args.vararg.arg}[0]"}
    else:
        return False
    sv = SymValues(w)

    def is_lock(e: ast.AST) -> bool:
        ts = sv.texts(e)
        return bool(ts) and all(any(t == f"{r}.{attr}" for r in receivers) for t in ts)

    calls_ = [c_ for c_ in ast.walk(w) if isinstance(c_, ast.Call) and dotted(c_.func) == wrapped]
    if not calls_:
        return False
    regions: list[list[ast.stmt]] = []
    for n in ast.walk(w):
        if isinstance(n, ast.With) and any(is_lock(it.context_expr) for it in n.items):
            regions.append(n.body)
    for blk in _blocks_of(w):
        for k, st in enumerate(blk):
            # L.acquire() immediately followed by try: ... finally: L.release()
            if isinstance(st, ast.Expr) and isinstance(st.value, ast.Call) and isinstance(st.value.func, ast.Attribute) and st.value.func.attr == "acquire" and not st.value.args and not st.value.keywords and is_lock(st.value.func.value) and k + 1 < len(blk) and isinstance(blk[k + 1], ast.Try):
                t = blk[k + 1]
                rel = [x for x in t.finalbody if isinstance(x, ast.Expr) and isinstance(x.value, ast.Call) and isinstance(x.value.func, ast.Attribute) and x.value.func.attr == "release" and is_lock(x.value.func.value)]
                if len(rel) == 1:
                    regions.append(t.body)
    inside = {id(x) for r in regions for s_ in r for x in ast.walk(s_)}
    if not all(id(c_) in inside for c_ in calls_):
        return False
    held = {t_.id for s_ in ast.walk(w) if isinstance(s_, ast.Assign) and s_.value in calls_ for t_ in s_.targets if isinstance(t_, ast.Name)}
    rets = [r for r in ast.walk(w) if isinstance(r, ast.Return)]
    return bool(rets) and all(r.value in calls_ or (isinstance(r.value, ast.Name) and r.value.id in held) for r in rets)


def _blocks_of(f: ast.AST):
    for n in ast.walk(f):
        for fld in ("body", "orelse", "finalbody"):
            b = getattr(n, fld, None)
            if isinstance(b, list) and b and isinstance(b[0], ast.stmt):
                yield b


# ---------------------------------------------------------------------------
# unfolded value of an expression, optionally under facts (conditions fixed to a constant)

_SYM_CACHE: dict = {}


def unfolded(func: ast.AST, node: ast.AST, facts: dict[str, bool] | None = None, get=None, max_len: int | None = None) -> list[ast.AST] | None:
    """Alternatives for the value of ``node`` (an expression inside ``func``) with the locals it reads unfolded.

    With ``facts`` the function is first specialised (tests whose text is a key are fixed), so a local re-assigned
    under a condition unfolds to the right alternative.  None when the node is unreachable in the specialised function.
    ``node`` may be a statement together with ``get`` (statement -> expression), which is the robust way to name an
    expression that the specialisation may fold (``a if c else b`` under a fact about ``c``).
    """
    from gv.dataflow import SymValues
    from gv.shapes import specialise

    key = (id(func), tuple(sorted((facts or {}).items())), max_len)
    if key not in _SYM_CACHE:
        # every node carries an identity that survives the deep copy made by the specialisation (positions do not
        # identify a node: statements inlined from a helper all have the position of the call they replace)
        for k_, n_ in enumerate(ast.walk(func)):
            if not hasattr(n_, "_gv_uid"):
                n_._gv_uid = (id(func), k_)
        g = specialise(func, facts) if facts else func
        _SYM_CACHE[key] = (func, g, SymValues(g) if max_len is None else SymValues(g, max_len=max_len))  # func kept alive so that id() stays unique
    _, g, sv = _SYM_CACHE[key]
    if g is func:
        target = node
    else:
        uid = getattr(node, "_gv_uid", None)
        cands = [n for n in ast.walk(g) if uid is not None and getattr(n, "_gv_uid", None) == uid]
        if not cands:
            # folded away (e.g. the taken branch of a conditional expression)
            return None
        target = cands[0]
    if not sv.cfg.has(target):
        return None
    tn = sv.cfg.node_of(target)
    if tn != sv.cfg.entry and not sv.cfg.reachable(sv.cfg.entry, tn):
        return None
    if get is not None:
        target = get(target)
        if target is None:
            return None
    return sv.exprs(target)


def expand_accessor(index, cls, call: ast.AST) -> ast.AST:
    """``self.get_x(a)`` -> the expression ``get_x`` returns, when the method (resolved on ``cls``) is an accessor:
    optional docstring, optional statements that only check (``self.__check...(..)`` / ``if ...: raise``), one
    ``return <expr>``; parameters are replaced by the arguments.  Anything else is returned unchanged."""
    import copy

    if not (isinstance(call, ast.Call) and isinstance(call.func, ast.Attribute) and isinstance(call.func.value, ast.Name) and call.func.value.id == "self"):
        return call
    m = index.resolve_method(cls, call.func.attr)
    if m is None:
        return call
    fn = m[1] if isinstance(m, tuple) else m
    body = [b for b in fn.body if not (isinstance(b, ast.Expr) and isinstance(b.value, ast.Constant))]
    checks, last = body[:-1], body[-1] if body else None
    if not isinstance(last, ast.Return) or last.value is None:
        return call
    for c in checks:
        is_check_call = isinstance(c, ast.Expr) and isinstance(c.value, ast.Call) and "check" in (last_attr(c.value) or "")
        is_guard = isinstance(c, ast.If) and not c.orelse and all(isinstance(x, ast.Raise) for x in c.body)
        if not (is_check_call or is_guard):
            return call
    params = [a.arg for a in fn.args.args][1:]
    if any(isinstance(a, ast.Starred) for a in call.args) or len(call.args) > len(params) or fn.args.vararg or fn.args.kwarg:
        return call
    bind = dict(zip(params, call.args))
    for k in call.keywords:
        if k.arg is None or k.arg not in params:
            return call
        bind[k.arg] = k.value
    defaults = dict(zip(params[len(params) - len(fn.args.defaults):], fn.args.defaults))
    for p_ in params:
        if p_ not in bind:
            if p_ not in defaults:
                return call
            bind[p_] = defaults[p_]

    class R(ast.NodeTransformer):
        def visit_Name(self, n):  # noqa: N802
            if isinstance(n.ctx, ast.Load) and n.id in bind:
                return copy.deepcopy(bind[n.id])
            return n

    return ast.fix_missing_locations(ast.copy_location(R().visit(copy.deepcopy(last.value)), call))


def merge_order(func: ast.AST, name: str) -> list[ast.AST] | None:
    """The mappings merged into the local ``name``, lowest precedence first (the last one wins on a common key).

    Understands ``a | b``, ``{**a, **b}``, ``dict(a)`` / ``a.copy()`` followed by ``name.update(b)`` and
    ``name |= b``, and ``dict(a, **b)``; locals that are themselves plain mappings are looked through.  None when the
    construction is not one of these.
    """
    plain = {s_.targets[0].id: s_.value for s_ in stmts_of(func) if isinstance(s_, ast.Assign) and len(s_.targets) == 1 and isinstance(s_.targets[0], ast.Name)}
    counts: dict[str, int] = {}
    for s_ in stmts_of(func):
        if isinstance(s_, ast.Assign):
            for t in s_.targets:
                if isinstance(t, ast.Name):
                    counts[t.id] = counts.get(t.id, 0) + 1

    def parts(e: ast.AST) -> list[ast.AST]:
        if isinstance(e, ast.BinOp) and isinstance(e.op, ast.BitOr):
            return parts(e.left) + parts(e.right)
        if isinstance(e, ast.Dict) and e.keys and all(k is None for k in e.keys):
            out = []
            for v in e.values:
                out += parts(v)
            return out
        if isinstance(e, ast.Call) and dotted(e.func) == "dict" and len(e.args) == 1:
            out = parts(e.args[0])
            for k in e.keywords:
                if k.arg is None:
                    out += parts(k.value)
            return out
        if isinstance(e, ast.Call) and isinstance(e.func, ast.Attribute) and e.func.attr == "copy" and not e.args:
            return parts(e.func.value)
        if isinstance(e, ast.Name) and counts.get(e.id) == 1 and e.id != name and isinstance(plain.get(e.id), (ast.Dict, ast.DictComp, ast.BinOp, ast.Call)):
            return parts(plain[e.id])
        return [e]

    if counts.get(name) != 1:
        return None
    out = parts(plain[name])
    start = next(s_ for s_ in stmts_of(func) if isinstance(s_, ast.Assign) and any(isinstance(t, ast.Name) and t.id == name for t in s_.targets))
    later = sorted((s_ for s_ in stmts_of(func) if getattr(s_, "lineno", 0) > getattr(start, "lineno", 0)), key=lambda s_: (s_.lineno, s_.col_offset))
    for s_ in later:
        if isinstance(s_, ast.Expr) and isinstance(s_.value, ast.Call) and isinstance(s_.value.func, ast.Attribute) and s_.value.func.attr == "update" and dotted(s_.value.func.value) == name and len(s_.value.args) == 1:
            out += parts(s_.value.args[0])
        elif isinstance(s_, ast.AugAssign) and isinstance(s_.op, ast.BitOr) and dotted(s_.target) == name:
            out += parts(s_.value)
    return out


def accumulated_lists(func: ast.AST) -> list[dict]:
    """Lists built element by element, in iteration order, whatever the spelling:

    ``xs = [e for t in it]``; ``xs = []`` + ``for t in it: xs.append(e)`` (``e`` possibly through locals of the loop
    body, which are unfolded); ``for t in it: v = e; xs.append(v)``.  One record per list:
    ``{"name", "iter", "target", "elements": [expr, ...] (alternatives), "node", "conditional": bool}``.
    """
    from gv.dataflow import SymValues

    out = []
    for s_ in stmts_of(func):
        if isinstance(s_, ast.Assign) and len(s_.targets) == 1 and isinstance(s_.targets[0], ast.Name) and isinstance(s_.value, ast.ListComp) and len(s_.value.generators) == 1:
            g = s_.value.generators[0]
            out.append({"name": s_.targets[0].id, "iter": g.iter, "target": g.target, "elements": [s_.value.elt], "node": s_, "conditional": bool(g.ifs)})
    sv = None
    for lp in [s_ for s_ in stmts_of(func) if isinstance(s_, ast.For)]:
        for c in ast.walk(lp):
            if isinstance(c, ast.Call) and isinstance(c.func, ast.Attribute) and c.func.attr == "append" and isinstance(c.func.value, ast.Name) and len(c.args) == 1:
                inner = [x for x in ast.walk(lp) if isinstance(x, ast.For) and x is not lp and any(y is c for y in ast.walk(x))]
                if inner:
                    continue  # belongs to a nested loop
                sv = sv or SymValues(func)
                els = sv.exprs(c.args[0]) if sv.cfg.has(c) else [c.args[0]]
                cond = any(sv.cfg.kind[t] == "test" and any(sub is sv.cfg.ast[t] for sub in ast.walk(lp)) for t, _ in branch_conditions(sv.cfg, sv.cfg.node_of(c))) if sv.cfg.has(c) else False
                out.append({"name": c.func.value.id, "iter": lp.iter, "target": lp.target, "elements": els, "node": c, "conditional": cond})
    return out


def check_fresh_results(ctx: Ctx, rule: str, prefix: str = "core/mdo_functions/", floor: int = 1) -> None:
    """A function object never hands out an array it keeps and overwrites at the next evaluation.

    For every class under ``prefix``: an attribute ``self.X`` that some method fills IN PLACE (``self.X[...] = ...``,
    ``self.X[...] op= ...``) is a reusable buffer; a method returning ``self.X`` itself (directly or through a local
    alias / a view of it) gives every caller the same array: the value returned -- and recorded in the database --
    for one point changes when another point is evaluated.  Returning ``self.X.copy()`` / a new array is required.
    """
    from gv.dataflow import SymValues

    n = 0
    for rel, mod in sorted(ctx.index.modules.items()):
        if not rel.startswith(prefix):
            continue
        for cn, c in sorted(mod.classes.items()):
            buffers: dict[str, ast.AST] = {}
            for mname, m in c.methods.items():
                for st in stmts_of(m):
                    tgts = st.targets if isinstance(st, ast.Assign) else ([st.target] if isinstance(st, ast.AugAssign) else [])
                    for t in tgts:
                        if isinstance(t, ast.Subscript) and isinstance(t.value, ast.Attribute) and dotted(t.value.value) == "self":
                            buffers.setdefault(t.value.attr, st)
            # ... of arrays: the attribute is created by a numpy constructor somewhere in the class
            arrays = {st.targets[0].attr for m in c.methods.values() for st in stmts_of(m) if isinstance(st, ast.Assign) and isinstance(st.targets[0], ast.Attribute) and dotted(st.targets[0].value) == "self" and isinstance(st.value, ast.Call) and last_attr(st.value) in ("empty", "zeros", "ones", "full", "empty_like", "zeros_like", "array", "ndarray")}
            buffers = {k: v for k, v in buffers.items() if k in arrays}
            if not buffers:
                continue
            for mname, m in sorted(c.methods.items()):
                rets = [r for r in stmts_of(m) if isinstance(r, ast.Return) and r.value is not None]
                if not rets:
                    continue
                sv = None
                for r in rets:
                    sv = sv or SymValues(m)
                    for alt in (sv.exprs(r.value) if sv.cfg.has(r) else [r.value]):
                        e = alt
                        while isinstance(e, ast.Attribute) and e.attr in ("T", "real") or (isinstance(e, ast.Subscript)):
                            e = e.value
                        if isinstance(e, ast.Attribute) and dotted(e.value) == "self" and e.attr in buffers:
                            n += 1
                            ctx.ob(rule, cname(rel, cn, mname), False, f"{mname} returns `{norm_stmt(alt, 50)}`, the array that `{norm_stmt(buffers[e.attr], 60)}` fills in place at every evaluation: all the values handed out are one array, so the Jacobian returned (and recorded in the database when nothing copies it on the way) for one point becomes that of the next point evaluated", node=r, stmt=f"returns the reusable buffer {e.attr.split('__')[-1]}")
            n += 1
            ctx.ob(rule, cname(rel, cn), True, "", node=c.node, stmt="in-place filled attributes are not returned")
    ctx.floor(rule, floor)
