"""C13 -- parallel execution is order-preserving (index provenance, one answer per task, locks)."""

from __future__ import annotations

import ast

from gv import rules
from gv.astutil import AnalysisError
from gv.astutil import arg_or_kw
from gv.astutil import as_update
from gv.astutil import decorator_names
from gv.astutil import dotted
from gv.astutil import last_attr
from gv.astutil import names_in
from gv.astutil import norm_stmt
from gv.astutil import stmts_of
from gv.astutil import walk_body
from gv.cfg import cfg_of
from gv.props.shared import unfolded
from gv.dataflow import SymValues
from gv.dataflow import possibly_unbound
from gv.props import describe
from gv.props.shared import branch_conditions
from gv.props.shared import conj_literals
from gv.props.shared import lock_discipline
from gv.report import Ctx
from gv.report import cname

CP = "core/parallel_execution/callable_parallel_execution.py"
DOE = "algos/doe/base_doe_library.py"

describe(
    "C13",
    explanation=(
        "The properties below hold for every completion order because they are facts about every path of the "
        "dispatcher and of the workers, not about a schedule: the task index travels with the task through both "
        "queues and addresses the result slot and the callbacks; each task produces exactly one answer and one "
        "task_done on the normal and on the exception path and the collector counts every answer; a failure only "
        "leaves its own slot empty, callbacks run on success only, the stop flag is set only for the exceptions to "
        "re-raise, one sentinel per started worker is queued before joining; no local is read before assignment "
        "for any task count; shared cache/database state is touched under the lock; DOE order is fixed before "
        "the parallel run."
    ),
    decided=["13.1 index provenance", "13.2 one answer per task", "13.3 failure isolation / callbacks / shutdown", "13.4 lock discipline", "13.5 DOE pre-seeding", "13.6 definite assignment for every task count", "13.8 discipline executors keep one slot per input", "13.9 one deep copy per discipline", "13.11 queues created per execution"],
    not_decided=["numerical equality of results between back-ends (they run the same callables)", "OS scheduling"],
)


def _binders(f: ast.AST, cfg, name: str) -> set[int]:
    """CFG nodes that (re)bind the local ``name`` (assignment / loop / with targets, walrus, handler names)."""
    out = set()
    for n in walk_body(f):
        if isinstance(n, ast.Name) and isinstance(n.ctx, (ast.Store, ast.Del)) and n.id == name and cfg.has(n):
            out.add(cfg.node_of(n))
        elif isinstance(n, ast.ExceptHandler) and n.name == name and cfg.has(n):
            out.add(cfg.node_of(n))
    return out


def _reaching(cfg, binders: set[int], src: int, use: int, stop: set[int]) -> set:
    """The binders of one local whose value can be read at ``use`` on a path that starts at ``src`` and never passes
    ``stop`` (normal and exceptional edges); ``None`` stands for the value the local had when ``src`` was reached."""
    out: set = set()
    if src in binders:
        if cfg.path(src, use, avoid=(binders - {src}) | stop, exc=True) is not None:
            out.add(src)
    elif cfg.path(src, use, avoid=binders | stop, exc=True) is not None:
        out.add(None)
    for d in binders - {src} - stop:  # a binder in ``stop`` (the loop header) is only reached by ending the iteration
        if cfg.path(src, d, avoid=stop, exc=True) is not None and cfg.path(d, use, avoid=(binders - {d}) | stop, exc=True) is not None:
            out.add(d)
    return out


class _QueueItem:
    """Which component (0 = index, 1 = input) of the item taken from the queue IN THIS ITERATION an expression of the
    worker loop denotes, whether the item is unpacked in the loop header, by ``a, b = item`` or read as ``item[k]``."""

    def __init__(self, f: ast.AST, cfg, loop: ast.For):
        self.f, self.cfg, self.loop = f, cfg, loop
        self.head = cfg.node_of(loop)
        self.start = cfg.branch[(self.head, True)]

    def _defs(self, name: str, use: int) -> set:
        return _reaching(self.cfg, _binders(self.f, self.cfg, name), self.start, use, {self.head})

    def _is_item(self, e: ast.AST, use: int) -> bool:
        t = self.loop.target
        return isinstance(e, ast.Name) and isinstance(t, ast.Name) and e.id == t.id and self._defs(e.id, use) == {None}

    def component(self, e: ast.AST | None, use: int, depth: int = 0) -> int | None:
        t = self.loop.target
        if e is None or depth > 4:
            return None
        if isinstance(e, ast.Subscript) and isinstance(e.slice, ast.Constant) and e.slice.value in (0, 1) and type(e.slice.value) is int and self._is_item(e.value, use):
            return e.slice.value
        if not isinstance(e, ast.Name):
            return None
        if isinstance(t, (ast.Tuple, ast.List)) and len(t.elts) == 2:
            ks = [k for k, el in enumerate(t.elts) if isinstance(el, ast.Name) and el.id == e.id]
            if ks:
                return ks[0] if len(ks) == 1 and self._defs(e.id, use) == {None} else None
        found = set()
        defs = self._defs(e.id, use)
        if not defs:
            return None
        for d in defs:
            st = self.cfg.ast[d] if d is not None else None
            if not (isinstance(st, ast.Assign) and len(st.targets) == 1):
                return None
            tg = st.targets[0]
            if isinstance(tg, (ast.Tuple, ast.List)) and len(tg.elts) == 2 and self._is_item(st.value, d):
                ks = [k for k, el in enumerate(tg.elts) if isinstance(el, ast.Name) and el.id == e.id]
                if len(ks) != 1:
                    return None
                found.add(ks[0])
            elif isinstance(tg, ast.Name):
                found.add(self.component(st.value, d, depth + 1))
            else:
                return None
        return found.pop() if len(found) == 1 else None


def check_worker(ctx: Ctx) -> None:
    f = ctx.index.func(CP, "_execute_workers")
    con = cname(CP, None, "_execute_workers")
    cfg = cfg_of(f)
    qin, qout = f.args.args[1].arg, f.args.args[2].arg

    def from_queue(it: ast.AST) -> bool:
        return isinstance(it, ast.Call) and dotted(it.func) == "iter" and len(it.args) == 2 and dotted(it.args[0]) == f"{qin}.get" and isinstance(it.args[1], ast.Constant) and it.args[1].value is None

    loops = [s for s in stmts_of(f) if isinstance(s, ast.For)]
    ctx.need(len(loops) == 1, "_execute_workers: task loop not found")
    lp = loops[0]
    item = _QueueItem(f, cfg, lp)
    head, start = item.head, item.start
    ctx.ob("13.1-worker-item", con, from_queue(lp.iter), "a worker must take (index, input) items from the input queue until the None sentinel", node=lp)
    calls = [c for c in ast.walk(lp) if isinstance(c, ast.Call) and dotted(c.func) == f.args.args[0].arg]
    ok = len(calls) == 1 and not calls[0].keywords and [item.component(a, cfg.node_of(calls[0])) for a in calls[0].args] == [0, 1]
    ctx.ob("13.1-worker-item", con, ok, "the task must be executed with the index and the input of the same queue item", node=(calls or [lp])[0])
    puts = [c for c in ast.walk(lp) if isinstance(c, ast.Call) and dotted(c.func) == f"{qout}.put"]
    put_nodes = {cfg.node_of(p) for p in puts}
    # the try statement that guards the task
    tries = [s for s in ast.walk(lp) if isinstance(s, ast.Try) and calls and any(sub is calls[0] for b in s.body for sub in ast.walk(b))]
    guarded = len(tries) == 1 and len(tries[0].handlers) == 1 and dotted(tries[0].handlers[0].type) == "BaseException" and tries[0].handlers[0].name is not None
    hn = cfg.node_of(tries[0].handlers[0]) if guarded else None
    ok = bool(puts) and guarded and len(calls) == 1
    if ok:
        # an answer follows the normal completion of the task, and an answer follows its failure
        ok = cfg.path(cfg.node_of(calls[0]), head, avoid=put_nodes) is None and cfg.path(hn, head, avoid=put_nodes, exc=True) is None
    ctx.ob("13.2-one-answer", con, ok, "the worker must answer on the normal path and on the exception path", node=lp, stmt="two put sites (normal, exception)")
    for p in puts:
        a = p.args[0] if p.args else None
        ok = isinstance(a, ast.Tuple) and len(a.elts) == 2 and item.component(a.elts[0], cfg.node_of(p)) == 0
        ctx.ob("13.1-worker-index", con, ok, "every answer must carry the index that arrived with the task: the collector places the result by this index, in whatever order tasks complete", node=p)
    done = [c for c in ast.walk(lp) if isinstance(c, ast.Call) and dotted(c.func) == f"{qin}.task_done"]
    done_nodes = {cfg.node_of(c) for c in done}
    ok = bool(put_nodes) and cfg.path(start, head, avoid=put_nodes, exc=True) is None
    ctx.ob("13.2-one-answer", con, ok, "an iteration can end without any answer being queued (the collector then waits forever or misses a result): " + cfg.describe_path(cfg.path(start, head, avoid=put_nodes, exc=True)), node=lp, stmt="at least one answer per task on every path")
    twice = any(cfg.path(a, b, avoid={head}, exc=True) is not None for a in put_nodes for b in put_nodes if a != b)
    ctx.ob("13.2-one-answer", con, not twice, "a task can be answered twice in one iteration (a later task's slot is then never collected)", node=lp, stmt="at most one answer per task")
    ok = bool(done_nodes) and cfg.path(start, head, avoid=done_nodes, exc=True) is None and not any(cfg.path(a, b, avoid={head}, exc=True) is not None for a in done_nodes for b in done_nodes if a != b)
    ctx.ob("13.2-one-answer", con, ok, "task_done must be called exactly once per task", node=(done or [lp])[0], stmt="one task_done per task")
    # the exception answer carries the exception object, and the worker then takes the next task
    ok = guarded
    if ok:
        en = tries[0].handlers[0].name
        en_binders = _binders(f, cfg, en)

        def is_exception(e: ast.AST | None, use: int) -> bool:
            """``e`` read at ``use`` after the handler was entered can only be the exception caught by it."""
            if not isinstance(e, ast.Name):
                return False
            defs = _reaching(cfg, _binders(f, cfg, e.id), hn, use, {head})
            if not defs:
                return False
            for d in defs:
                if d == hn and e.id == en:
                    continue
                st = cfg.ast[d] if d is not None else None
                if isinstance(st, ast.Assign) and len(st.targets) == 1 and isinstance(st.targets[0], ast.Name) and isinstance(st.value, ast.Name) and st.value.id == en and _reaching(cfg, en_binders, hn, d, {head}) == {hn}:
                    continue
                return False
            return True

        hp = [p for p in puts if cfg.path(hn, cfg.node_of(p), avoid={head}, exc=True) is not None]
        ok = bool(hp) and all(p.args and isinstance(p.args[0], ast.Tuple) and len(p.args[0].elts) == 2 and is_exception(p.args[0].elts[1], cfg.node_of(p)) for p in hp)
        # ... and goes on with the next task: whatever the handler does, control comes back to the loop header
        ok = ok and cfg.path(hn, head, exc=True) is not None and cfg.path(hn, cfg.exit, avoid={head}, exc=True) is None and cfg.path(hn, cfg.raise_exit, avoid={head}, exc=True) is None
    ctx.ob("13.3-failure", con, ok, "a failing task must be answered with its own exception (any BaseException) and the worker must go on with the next task", node=(tries or [lp])[0])
    # the dispatcher picks the callable of the task index
    tc = ctx.index.method(CP, "_TaskCallables", "__call__")
    sub = [n for n in walk_body(tc) if isinstance(n, ast.Subscript) and dotted(n.value) == "self.callables" and not isinstance(n.slice, ast.Constant)]
    ok = len(sub) == 1 and dotted(sub[0].slice) == tc.args.args[1].arg
    rets = [s for s in stmts_of(tc) if isinstance(s, ast.Return)]
    ok = ok and len(rets) == 1 and isinstance(rets[0].value, ast.Call) and dotted(rets[0].value.args[0]) == tc.args.args[2].arg
    ctx.ob("13.1-worker-item", cname(CP, "_TaskCallables", "__call__"), ok, "with several callables, task i runs callable i on its own input", node=(sub or [tc])[0])


def _list_size(e: ast.AST | None) -> ast.AST | None:
    """The length expression of a list of ``None`` slots: ``[None] * n``, ``n * [None]``, ``[None for _ in range(n)]``."""

    def none_list(x):
        return isinstance(x, ast.List) and len(x.elts) == 1 and isinstance(x.elts[0], ast.Constant) and x.elts[0].value is None

    if isinstance(e, ast.BinOp) and isinstance(e.op, ast.Mult):
        if none_list(e.left):
            return e.right
        if none_list(e.right):
            return e.left
    if isinstance(e, ast.ListComp) and isinstance(e.elt, ast.Constant) and e.elt.value is None and len(e.generators) == 1 and not e.generators[0].ifs:
        it = e.generators[0].iter
        if isinstance(it, ast.Call) and dotted(it.func) == "range" and len(it.args) == 1 and not it.keywords:
            return it.args[0]
    return None


def _iteration_count(it: ast.AST) -> str | None:
    """Text of the number of iterations of ``for _ in <it>``: ``xs`` and ``range(len(xs))`` both give ``len(xs)``."""
    if isinstance(it, (ast.Name, ast.Attribute)):
        return f"len({dotted(it)})"
    if isinstance(it, ast.Call) and not it.keywords and len(it.args) == 1:
        if dotted(it.func) == "range":
            return norm_stmt(it.args[0])
        if dotted(it.func) in ("enumerate", "list", "tuple", "reversed"):
            return _iteration_count(it.args[0])
    return None


def check_dispatcher(ctx: Ctx) -> None:
    f = ctx.index.method(CP, "CallableParallelExecution", "execute")
    con = cname(CP, "CallableParallelExecution", "execute")
    cfg = cfg_of(f)
    puts = [c for c in walk_body(f) if isinstance(c, ast.Call) and dotted(c.func) == "queue_in.put"]
    task_puts = [c for c in puts if c.args and isinstance(c.args[0], ast.Tuple)]
    ok = len(task_puts) == 1
    if ok:
        a = task_puts[0].args[0]
        ok = len(a.elts) == 2 and isinstance(a.elts[1], ast.Subscript) and dotted(a.elts[1].value) == f.args.args[1].arg and dotted(a.elts[1].slice) == dotted(a.elts[0]) and isinstance(a.elts[0], ast.Name)
    ctx.ob("13.1-submit", con, ok, "a task must be submitted as (i, inputs[i]) with one and the same i", node=(task_puts or [f])[0])
    # every index is submitted once: tasks = list(range(n_tasks)) popped until empty
    sv = SymValues(f)
    n_inputs = f"len({f.args.args[1].arg})"

    def is_n_tasks(e: ast.AST | None) -> bool:
        """``e`` can only stand for the number of inputs (directly or through locals)."""
        return e is not None and cfg.has(e) and sv.texts(e) == [n_inputs]

    def range_args(e: ast.AST) -> list[ast.AST]:
        return [c.args[0] for c in ast.walk(e) if isinstance(c, ast.Call) and dotted(c.func) == "range" and len(c.args) == 1 and not c.keywords]

    tasks = [s for s in stmts_of(f) if isinstance(s, (ast.Assign, ast.AnnAssign)) and dotted(s.targets[0] if isinstance(s, ast.Assign) else s.target) == "tasks" and s.value is not None and range_args(s.value)]
    wl = [s for s in stmts_of(f) if isinstance(s, ast.While) and dotted(s.test) == "tasks"]
    ok = len(tasks) == 1 and len(wl) == 1 and task_puts and any(sub is task_puts[0] for sub in ast.walk(wl[0])) and any(isinstance(x, ast.Assign) and norm_stmt(x.value) == "tasks.pop()" and dotted(x.targets[0]) == dotted(task_puts[0].args[0].elts[0]) for x in ast.walk(wl[0]))
    ctx.ob("13.1-submit", con, bool(ok), "every index 0..n_tasks-1 must be submitted exactly once (pop until the task list is empty)", node=(wl or [f])[0])
    ok = len(tasks) == 1 and len(range_args(tasks[0].value)) == 1 and is_n_tasks(range_args(tasks[0].value)[0])
    ctx.ob("13.1-submit", con, ok, "the number of tasks is the number of inputs", node=(tasks or [f])[0])
    # the two queues belong to THIS execution: answers left in a queue by an execution that was interrupted (an exception
    # re-raised while other tasks were still running) would otherwise be collected by the next one, at their old indices
    n_q = 0
    for q in ("queue_in", "queue_out"):
        defs = [s_ for s_ in stmts_of(f) if isinstance(s_, ast.Assign) and any(q in [dotted(e_) for e_ in (t.elts if isinstance(t, ast.Tuple) else [t])] for t in s_.targets)]
        okq = bool(defs)
        for d in defs:
            tg = d.targets[0]
            vals = [d.value]
            if isinstance(tg, ast.Tuple):
                vals = [v_ for e_, v_ in zip(tg.elts, d.value.elts)] if isinstance(d.value, ast.Tuple) and len(d.value.elts) == len(tg.elts) else [d.value]
                if len(vals) == len(tg.elts):
                    vals = [v_ for e_, v_ in zip(tg.elts, vals) if dotted(e_) == q]
            for v in vals:
                alts = sv.exprs(v) if cfg.has(d) else []
                okq = okq and bool(alts) and all(isinstance(a_, ast.Call) and last_attr(a_) in ("Queue", "JoinableQueue", "SimpleQueue") for a_ in alts)
        n_q += 1
        ctx.ob("13.11-fresh-queues", con, okq, f"`{q}` must be a queue created by this call of execute (manager.Queue() / queue.Queue()): a queue kept on the instance carries the unanswered tasks and uncollected answers of an interrupted execution into the next one", node=(defs or [f])[0], stmt=f"{q} is created in execute")
    # collection
    gets = [s for s in stmts_of(f) if isinstance(s, ast.Assign) and isinstance(s.value, ast.Call) and dotted(s.value.func) == "queue_out.get" and isinstance(s.targets[0], ast.Tuple)]
    ctx.need(len(gets) == 1 and len(gets[0].targets[0].elts) == 2, "execute: `index, output = queue_out.get()` not found")
    i_var, o_var = (dotted(e) for e in gets[0].targets[0].elts)
    slot = [s for s in stmts_of(f) if isinstance(s, ast.Assign) and isinstance(s.targets[0], ast.Subscript) and dotted(s.targets[0].value) == "ordered_outputs"]
    ok = len(slot) == 1 and dotted(slot[0].targets[0].slice) == i_var and dotted(slot[0].value) == o_var
    ctx.ob("13.1-collect", con, ok, "a result must be placed in the slot of the index received with it (never by arrival order)", node=(slot or gets)[0])
    cbs = [c for c in walk_body(f) if isinstance(c, ast.Call) and dotted(c.func) == "callback"]
    ok = len(cbs) == 1 and [dotted(a) for a in cbs[0].args] == [i_var, o_var]
    ctx.ob("13.1-collect", con, ok, "callbacks must receive the index and the output received together", node=(cbs or gets)[0])
    init = [s for s in stmts_of(f) if isinstance(s, (ast.Assign, ast.AnnAssign)) and dotted(s.targets[0] if isinstance(s, ast.Assign) else s.target) == "ordered_outputs" and s.value is not None]
    ok = len(init) == 1 and is_n_tasks(_list_size(init[0].value))
    ctx.ob("13.1-collect", con, ok, "the result list must have one slot per task", node=(init or [f])[0])
    rets = [s for s in stmts_of(f) if isinstance(s, ast.Return) and dotted(s.value) == "ordered_outputs"]
    ctx.ob("13.1-collect", con, len(rets) == 1, "the slots are what is returned", node=(rets or [f])[0])
    # 13.3 success-only branch
    exc_tests = [n for n in cfg.nodes(lambda k: cfg.kind[k] == "test") if norm_stmt(cfg.ast[n].test) == f"isinstance({o_var}, BaseException)"]
    ok = len(exc_tests) == 1 and slot and cbs and cfg.under_branch(cfg.node_of(slot[0]), exc_tests[0], False) and cfg.under_branch(cfg.node_of(cbs[0]), exc_tests[0], False)
    ctx.ob("13.3-success-only", con, bool(ok), "slot assignment and callbacks belong to the non-exception branch: a failed task must leave its slot empty and trigger no callback", node=(cbs or gets)[0])
    # every assignment that can make ``stop`` true: `stop = True` under the two tests, or `stop = <the tests>`
    stops = [s for s in stmts_of(f) if isinstance(s, (ast.Assign, ast.AnnAssign, ast.AugAssign)) and "stop" in [dotted(t) for t in (s.targets if isinstance(s, ast.Assign) else [s.target])] and s.value is not None and not (isinstance(s.value, ast.Constant) and s.value.value is False)]
    ok = bool(stops)
    for st in stops:
        if not isinstance(st, (ast.Assign, ast.AnnAssign)) or (isinstance(st, ast.Assign) and len(st.targets) != 1):
            ok = False
            break
        conds = [norm_stmt(lit) for t, v in branch_conditions(cfg, cfg.node_of(st)) if v and cfg.kind[t] == "test" for pol, lit in conj_literals(cfg.ast[t].test) if pol]
        # `stop = stop or <c>`: each disjunct other than the flag itself must imply the two tests
        disjuncts = st.value.values if isinstance(st.value, ast.BoolOp) and isinstance(st.value.op, ast.Or) else [st.value]
        for d in disjuncts:
            if dotted(d) == "stop":
                continue
            own = [] if isinstance(d, ast.Constant) and d.value is True else [norm_stmt(lit) for pol, lit in conj_literals(d) if pol]
            if not own and not (isinstance(d, ast.Constant) and d.value is True):
                ok = False
            allc = conds + own
            if not (any(c.startswith(f"isinstance({o_var}, ") and "__exceptions_to_re_raise" in c for c in allc) and any(c == f"isinstance({o_var}, BaseException)" for c in allc)):
                ok = False
    ctx.ob("13.3-stop", con, ok, "collection may be interrupted only by an exception listed in exceptions_to_re_raise: any other failure affects only its own slot", node=(stops or [f])[0])
    # counting
    wl2 = [s for s in stmts_of(f) if isinstance(s, ast.While) and "n_outputs" in names_in(s.test)]
    ok = len(wl2) == 1
    if ok:
        head = cfg.node_of(wl2[0])
        inside = {cfg.node_of(s) for s in ast.walk(wl2[0]) if isinstance(s, ast.stmt) and s is not wl2[0] and cfg.has(s)}
        incs = [s for s in ast.walk(wl2[0]) if isinstance(s, ast.stmt) and as_update(s) is not None and dotted(as_update(s)[0]) == "n_outputs" and isinstance(as_update(s)[1], ast.Add) and isinstance(as_update(s)[2], ast.Constant) and as_update(s)[2].value == 1]
        # the counter starts at 0 before the loop and is changed by nothing but the increment
        others = _binders(f, cfg, "n_outputs") - {cfg.node_of(s) for s in incs}
        starts_at_0 = bool(others) and all(b not in inside and isinstance(cfg.ast[b], (ast.Assign, ast.AnnAssign)) and isinstance(cfg.ast[b].value, ast.Constant) and cfg.ast[b].value.value == 0 and type(cfg.ast[b].value.value) is int and cfg.dominates(b, head) for b in others)
        ok = len(incs) == 1 and starts_at_0 and cfg.path(cfg.branch[(head, True)], head, avoid={cfg.node_of(incs[0])}) is None
        if ok:
            # given 0 <= n_outputs <= n_tasks (which this very test keeps true) the loop goes on while an answer is missing
            # unless it was stopped, and ends when none is: `n_outputs < n_tasks` is the same predicate as `!=`,
            # `n_outputs <= n_tasks` is not (it waits for an answer that never comes)
            from gv.ordering import Unsupported
            from gv.ordering import same_predicate

            atoms = {"n_outputs": "a", "stop": "s", n_inputs: "b"}
            for x in ast.walk(wl2[0].test):
                if isinstance(x, ast.Name) and x.id not in atoms and is_n_tasks(x):
                    atoms[x.id] = "b"
            pred = ast.parse("def _p():\n    return " + ast.unparse(wl2[0].test)).body[0]
            try:
                ok = same_predicate(pred, atoms, lambda a, b, s: a != b, where=lambda a, b, s: 0 <= a <= b and (s == 0 or a == b))[0]
            except Unsupported:
                ok = False
    ctx.ob("13.2-count", con, ok, "every answer (success or failure) must be counted once and collection must go on until all tasks have answered", node=(wl2 or [f])[0])
    # shutdown: one sentinel per started process, then join
    started = [c for c in walk_body(f) if isinstance(c, ast.Call) and norm_stmt(c.func) == "processes.append"]
    sent = [c for c in puts if c.args and isinstance(c.args[0], ast.Constant) and c.args[0].value is None]
    ok = len(started) == 1 and len(sent) == 1
    if ok:
        sl = [s for s in stmts_of(f) if isinstance(s, ast.For) and any(sub is sent[0] for sub in ast.walk(s))]
        jl = [s for s in stmts_of(f) if isinstance(s, ast.For) and any(isinstance(c, ast.Call) and last_attr(c) == "join" for c in ast.walk(s))]
        ok = len(sl) == 1 and _iteration_count(sl[0].iter) == "len(processes)" and len(jl) == 1 and dotted(jl[0].iter) == "processes" and cfg.reachable(cfg.node_of(sl[0]), cfg.node_of(jl[0])) and not cfg.reachable(cfg.node_of(jl[0]), cfg.node_of(sl[0]))
        ok = ok and wl2 and cfg.reachable(cfg.node_of(wl2[0]), cfg.node_of(sl[0]))
    ctx.ob("13.3-shutdown", con, bool(ok), "after collection one None sentinel per started worker must be queued, then every worker joined (fewer sentinels leave workers blocked forever)", node=(sent or [f])[0])
    # 13.6 definite assignment
    unb = possibly_unbound(f)
    seen = set()
    for node, name in unb:
        if name in seen:
            continue
        seen.add(name)
        ctx.ob("13.6-unbound", con, False, f"`{name}` can be read before it is assigned (e.g. with an empty list of inputs the collection loop never runs): execute() then raises UnboundLocalError instead of returning the (empty) result list", node=rules.enclosing_stmt(f, node), stmt=f"read of `{name}` before assignment: {norm_stmt(rules.enclosing_stmt(f, node), 60)}")
    ctx.ob("13.6-unbound", con, True, "definite-assignment analysis ran", stmt=f"{len(seen)} possibly-unbound local(s)")
    w = ctx.index.func(CP, "_execute_workers")
    ctx.ob("13.6-unbound", cname(CP, None, "_execute_workers"), not possibly_unbound(w), "a worker local can be read before assignment", node=w, stmt="no possibly-unbound local in the worker")


def check_doe(ctx: Ctx) -> None:
    cls = ctx.index.cls(DOE, "BaseDOELibrary")
    f = cls.methods.get("__store_in_database")
    ctx.need(f is not None, "BaseDOELibrary.__store_in_database not found")
    con = cname(DOE, "BaseDOELibrary", "__store_in_database")
    # (no obligation on @synchronized here: the callback is only called from the collector loop of the calling thread, one call at a time)
    stores = [c for c in walk_body(f) if isinstance(c, ast.Call) and last_attr(c) == "store"]
    ok = len(stores) == 1 and isinstance(stores[0].args[0], ast.Subscript) and dotted(stores[0].args[0].value) == "self.samples" and dotted(stores[0].args[0].slice) == f.args.args[1].arg
    ctx.ob("13.1-doe-slot", con, ok, "the outputs of task i must be stored at the i-th generated sample", node=(stores or [f])[0])
    init = ctx.index.method(DOE, "BaseDOELibrary", "__init__")
    lk = rules.assigns_to_self(init, "lock")
    pass
    r = ctx.index.method(DOE, "BaseDOELibrary", "_run")
    cfg = cfg_of(r)
    # the parallel execution over self.samples, its arguments bound through the signature of execute()
    params = [a_.arg for a_ in ctx.index.method(CP, "CallableParallelExecution", "execute").args.args][1:]

    def bound(call: ast.Call) -> dict[str, ast.AST]:
        if any(isinstance(a_, ast.Starred) for a_ in call.args) or len(call.args) > len(params):
            return {}
        return {**dict(zip(params, call.args)), **{k.arg: k.value for k in call.keywords if k.arg in params}}

    ex = [c for c in walk_body(r) if isinstance(c, ast.Call) and last_attr(c) == "execute" and dotted(bound(c).get("inputs")) == "self.samples"]
    cb = bound(ex[0]).get("exec_callback") if len(ex) == 1 else None

    def is_store(e: ast.AST) -> bool:
        return isinstance(e, ast.Attribute) and dotted(e.value) == "self" and e.attr.endswith("__store_in_database")

    def has_store(e: ast.AST) -> bool:
        """A list expression one element of which is the storing callback: [.., s], [*xs, s], xs + [s]."""
        if isinstance(e, (ast.List, ast.Tuple)):
            return any(is_store(x) for x in e.elts)
        if isinstance(e, ast.BinOp) and isinstance(e.op, ast.Add):
            return has_store(e.left) or has_store(e.right)
        return False

    ok = False
    node = r
    if isinstance(cb, ast.Name):
        node = ex[0]
        # (a) the list is extended in place (append / extend / += / insert) with a database, on the way to execute()
        adds = []
        for st in stmts_of(r):
            if isinstance(st, ast.Expr) and isinstance(st.value, ast.Call) and isinstance(st.value.func, ast.Attribute) and dotted(st.value.func.value) == cb.id:
                c, m = st.value, st.value.func.attr
                if (m == "append" and len(c.args) == 1 and is_store(c.args[0])) or (m == "extend" and len(c.args) == 1 and has_store(c.args[0])) or (m == "insert" and len(c.args) == 2 and is_store(c.args[1])):
                    adds.append(st)
            elif isinstance(st, ast.AugAssign) and dotted(st.target) == cb.id and isinstance(st.op, ast.Add) and has_store(st.value):
                adds.append(st)
        rebinds = _binders(r, cfg, cb.id)
        for ad in adds:
            an = cfg.node_of(ad)
            under_db = any(v and dotted(cfg.ast[t].test) == "use_database" for t, v in branch_conditions(cfg, an) if cfg.kind[t] == "test")
            # ... and the extended list is the one that reaches execute() (not re-bound in between)
            if under_db and cfg.path(an, cfg.node_of(ex[0]), avoid=rebinds - {an}) is not None and not any(cfg.reachable(an, b_) and cfg.reachable(b_, cfg.node_of(ex[0])) for b_ in rebinds - {an}):
                ok = True
                node = ad
        # (b) the list is re-built with the callback in it: with a database, every value of the argument contains it
        if not ok:
            from gv.props.shared import unfolded

            alts = unfolded(r, ex[0], {"use_database": True}, get=lambda c_: bound(c_).get("exec_callback"))
            ok = bool(alts) and all(has_store(a_) for a_ in alts)
    ctx.ob("13.1-doe-slot", cname(DOE, "BaseDOELibrary", "_run"), ok, "with a database, the storing callback must be among the callbacks of the parallel execution over self.samples", node=node)


FDF = "utils/derivatives/finite_differences.py"


def _element_text(e: ast.AST, var: str | None) -> str:
    """Text of ``e`` with the iteration variable ``var`` called ``i`` (so that `xs[:, j]` of a comprehension over j
    and `xs[:, k]` of a loop over k are the same element)."""
    import copy

    e = copy.deepcopy(e)
    for n_ in ast.walk(e):
        if isinstance(n_, ast.Name) and var is not None and n_.id == var:
            n_.id = "i"
    return norm_stmt(e)


def check_optimal_step_slots(ctx: Ctx) -> None:
    """13.6: in the parallel branch of FirstOrderFD.compute_optimal_step every output is read from the slot of
    the point it was computed at (the task list is [x] + forward points + backward points).

    The task list is understood whether it is built by ``+``, ``+=``, ``extend``/``append``, unpacking or in the call;
    an output is understood whether it is read as ``outputs[k]``, through a slice of the outputs or as the element of a
    loop over (a zip / an enumeration of) such slices; a value of the parallel branch and a value of the sequential
    branch are the same quantity when they reach the same argument of the same consumer (``comp_step(f_p, f_0, f_m)``).
    """
    import sympy as sp

    f = ctx.index.method(FDF, "FirstOrderFD", "compute_optimal_step")
    con = cname(FDF, "FirstOrderFD", "compute_optimal_step")
    cfg = cfg_of(f)
    sv = SymValues(f)
    comp_vars = {id(n_) for c_ in ast.walk(f) if isinstance(c_, ast.comprehension) for n_ in ast.walk(c_.target)}

    def binders(name: str) -> set[int]:
        """CFG nodes that bind the local ``name`` (the variables of comprehensions are not locals)."""
        return {cfg.node_of(n_) for n_ in walk_body(f) if isinstance(n_, ast.Name) and isinstance(n_.ctx, (ast.Store, ast.Del)) and n_.id == name and id(n_) not in comp_vars and cfg.has(n_)}

    def is_parallel_execute(c: ast.AST) -> bool:
        if not (isinstance(c, ast.Call) and last_attr(c) == "execute" and isinstance(c.func, ast.Attribute)):
            return False
        if "parallel" in norm_stmt(c.func):
            return True
        try:
            return any("ParallelExecution(" in t for t in sv.texts(c.func.value))
        except Exception:  # noqa: BLE001
            return False

    ex = [st for st in stmts_of(f) if isinstance(st, ast.Assign) and len(st.targets) == 1 and isinstance(st.targets[0], ast.Name) and is_parallel_execute(st.value)]
    task_list = arg_or_kw(ex[0].value, 0, "inputs") if len(ex) == 1 else None
    if task_list is None or set(binders(ex[0].targets[0].id)) != {cfg.node_of(ex[0])}:
        ctx.ob("13.7-slots", con, False, "the parallel evaluation of the perturbed points was not recognised (outputs = parallel_execution.execute(<list of points>))", node=f, stmt="parallel evaluation recognised")
        return
    out_var = ex[0].targets[0].id
    I = sp.Symbol("i", integer=True, nonnegative=True)

    def only_def(name: str) -> ast.AST | None:
        """The value of the local ``name`` when it is bound exactly once, by a plain assignment."""
        bs = binders(name)
        if len(bs) == 1:
            st = cfg.ast[next(iter(bs))]
            if isinstance(st, ast.Assign) and len(st.targets) == 1 and isinstance(st.targets[0], ast.Name):
                return st.value
        return None

    def loop_roles(name: str, at: ast.AST) -> tuple | None:
        """What the loop variable ``name`` read at ``at`` stands for: ("index",) for the position 0, 1, ... of the
        iteration, ("elem", xs) for the element of ``xs`` at that position; None when it is not (only) a loop variable."""
        if not cfg.has(at):
            return None
        # the bindings of the name that can be read at ``at`` are loop headers only (a name bound by a loop in one
        # branch and by an assignment in the other is a loop variable where the loop's binding is the one read)
        bs = _reaching(cfg, binders(name), cfg.entry, cfg.node_of(at), set())
        if not bs or not all(b is not None and isinstance(cfg.ast[b], ast.For) for b in bs):
            return None
        loops = [lp for lp in stmts_of(f) if isinstance(lp, ast.For) and cfg.node_of(lp) in bs and any(sub is at for b_ in lp.body for sub in ast.walk(b_))]
        if not loops:
            return None
        lp = loops[-1]  # the innermost one
        found: dict[str, tuple] = {}
        dup = set()

        def bind(t: ast.AST, it: ast.AST) -> None:
            fn = dotted(it.func) if isinstance(it, ast.Call) else None
            plain = isinstance(it, ast.Call) and not any(isinstance(a_, ast.Starred) for a_ in it.args)
            if isinstance(t, ast.Name):
                if t.id in found:
                    dup.add(t.id)
                if fn == "range":
                    if len(it.args) == 1 and not it.keywords:
                        found[t.id] = ("index",)
                elif fn in ("enumerate", "zip"):
                    pass
                else:
                    found[t.id] = ("elem", it)
            elif isinstance(t, (ast.Tuple, ast.List)) and plain:
                if fn == "enumerate" and len(t.elts) == 2 and len(it.args) == 1 and (not it.keywords or (len(it.keywords) == 1 and it.keywords[0].arg == "start" and isinstance(it.keywords[0].value, ast.Constant) and it.keywords[0].value.value == 0)):
                    if isinstance(t.elts[0], ast.Name):
                        found[t.elts[0].id] = ("index",)
                    bind(t.elts[1], it.args[0])
                elif fn == "zip" and len(t.elts) == len(it.args) and all(k.arg == "strict" for k in it.keywords):
                    for t_, x_ in zip(t.elts, it.args):
                        bind(t_, x_)

        bind(lp.target, lp.iter)
        return found.get(name) if name not in dup else None

    def sym(e: ast.AST | None, at: ast.AST):
        """An integer expression as a sympy term: loop positions are ``i``, other locals stand for their definition
        (so ``n_dim`` and ``len(x_vect)`` are the same symbol)."""
        if e is None:
            return None
        if isinstance(e, ast.Constant):
            return sp.Integer(e.value) if type(e.value) is int else None
        if isinstance(e, ast.UnaryOp) and isinstance(e.op, ast.USub):
            v = sym(e.operand, at)
            return None if v is None else -v
        if isinstance(e, ast.BinOp) and isinstance(e.op, (ast.Add, ast.Sub, ast.Mult)):
            l_, r_ = sym(e.left, at), sym(e.right, at)
            if l_ is None or r_ is None:
                return None
            return l_ + r_ if isinstance(e.op, ast.Add) else l_ - r_ if isinstance(e.op, ast.Sub) else l_ * r_
        if isinstance(e, ast.Name):
            role = loop_roles(e.id, at)
            if role is not None:
                return I if role == ("index",) else None
            if binders(e.id) and only_def(e.id) is None:
                return None  # re-assigned local
        try:
            ts = sv.texts(e) if cfg.has(e) else [norm_stmt(e)]
        except Exception:  # noqa: BLE001
            ts = [norm_stmt(e)]
        if len(ts) != 1:
            return None
        t = ts[0]
        if isinstance(e, ast.Name) and t == e.id and only_def(e.id) is not None:
            return sym(only_def(e.id), at) if not isinstance(only_def(e.id), ast.Name) else None
        return sp.Symbol(t, integer=True, positive=True)

    # the task list: segments (size, element, source array, comprehension variable) in list order
    segs: list[tuple] = []

    def segments(e: ast.AST, at: ast.AST, depth: int = 0) -> list[tuple]:
        if isinstance(e, ast.BinOp) and isinstance(e.op, ast.Add):
            return segments(e.left, at, depth) + segments(e.right, at, depth)
        if isinstance(e, (ast.List, ast.Tuple)):
            out = []
            for x in e.elts:
                out += segments(x.value, at, depth) if isinstance(x, ast.Starred) else [(sp.Integer(1), x, norm_stmt(x), None)]
            return out
        if isinstance(e, ast.Call) and dotted(e.func) in ("list", "tuple") and len(e.args) == 1 and not e.keywords:
            return segments(e.args[0], at, depth)
        if isinstance(e, (ast.ListComp, ast.GeneratorExp)) and len(e.generators) == 1 and not e.generators[0].ifs and isinstance(e.generators[0].target, ast.Name) and isinstance(e.generators[0].iter, ast.Call) and dotted(e.generators[0].iter.func) == "range" and len(e.generators[0].iter.args) == 1 and not e.generators[0].iter.keywords:
            n = sym(e.generators[0].iter.args[0], at)
            if n is not None:
                src = e.elt.value if isinstance(e.elt, ast.Subscript) else e.elt
                return [(n, e.elt, norm_stmt(src), e.generators[0].target.id)]
        if isinstance(e, ast.Name) and e.id != pts and depth < 4 and only_def(e.id) is not None:
            return segments(only_def(e.id), at, depth + 1)
        raise AnalysisError(f"compute_optimal_step: task list segment `{norm_stmt(e, 50)}` not understood")

    pts = task_list.id if isinstance(task_list, ast.Name) else None
    if pts is None:
        segs = segments(task_list, ex[0])
    else:
        for st in stmts_of(f):
            if isinstance(st, ast.Assign) and len(st.targets) == 1 and dotted(st.targets[0]) == pts:
                v = st.value
                if isinstance(v, ast.BinOp) and isinstance(v.op, ast.Add) and dotted(v.left) == pts:
                    segs = segs + segments(v.right, st)
                elif isinstance(v, ast.BinOp) and isinstance(v.op, ast.Add) and dotted(v.right) == pts:
                    segs = segments(v.left, st) + segs
                else:
                    segs = segs + segments(v, st)
            elif isinstance(st, ast.AugAssign) and dotted(st.target) == pts and isinstance(st.op, ast.Add):
                segs = segs + segments(st.value, st)
            elif isinstance(st, ast.Expr) and isinstance(st.value, ast.Call) and isinstance(st.value.func, ast.Attribute) and dotted(st.value.func.value) == pts:
                c, m = st.value, st.value.func.attr
                if m == "extend" and len(c.args) == 1 and not c.keywords:
                    segs = segs + segments(c.args[0], st)
                elif m == "append" and len(c.args) == 1 and not c.keywords:
                    segs = segs + [(sp.Integer(1), c.args[0], norm_stmt(c.args[0]), None)]
                else:
                    raise AnalysisError(f"compute_optimal_step: task list changed by `{norm_stmt(st, 50)}`: not understood")
            elif any(isinstance(t, ast.Name) and t.id == pts and isinstance(t.ctx, (ast.Store, ast.Del)) for t in ast.walk(st) if not isinstance(st, (ast.For, ast.While, ast.If, ast.With, ast.Try))):
                raise AnalysisError(f"compute_optimal_step: task list bound by `{norm_stmt(st, 50)}`: not understood")
    total = sum((s_[0] for s_ in segs), sp.Integer(0))
    offsets = []
    off = sp.Integer(0)
    for s_ in segs:
        offsets.append(off)
        off += s_[0]

    def same(a, b) -> bool:
        return a is not None and b is not None and sp.simplify(a - b) == 0

    def view_of(e: ast.AST, at: ast.AST, depth: int = 0) -> tuple | None:
        """(offset, length) of a contiguous part of the outputs: the outputs, a slice of a part, a local bound to one."""
        if depth > 4:
            return None
        if isinstance(e, ast.Name):
            if e.id == out_var:
                return (sp.Integer(0), total)
            v = only_def(e.id)
            return view_of(v, at, depth + 1) if v is not None else None
        if isinstance(e, ast.Call) and dotted(e.func) in ("list", "tuple") and len(e.args) == 1 and not e.keywords:
            return view_of(e.args[0], at, depth + 1)
        if isinstance(e, ast.Subscript) and isinstance(e.slice, ast.Slice) and e.slice.step is None:
            base = view_of(e.value, at, depth + 1)
            if base is None:
                return None
            bounds = []
            for b_, dflt in ((e.slice.lower, sp.Integer(0)), (e.slice.upper, base[1])):
                v = dflt if b_ is None else sym(b_, at)
                if v is None:
                    return None
                if v.is_negative:
                    v = base[1] + v
                elif not v.is_nonnegative:
                    return None
                bounds.append(v)
            # (a bound beyond the end is clipped by Python; the symbolic sizes are those of the segments, so a slice
            # that names a whole segment has bounds within the list)
            return (base[0] + bounds[0], bounds[1] - bounds[0])
        return None

    def slot_of(e: ast.AST, at: ast.AST):
        """(index in the outputs as a term in the loop position ``i``, length of the part iterated or None)."""
        if isinstance(e, ast.Subscript) and not isinstance(e.slice, (ast.Slice, ast.Tuple)):
            base = view_of(e.value, at)
            k = sym(e.slice, at)
            if base is None or k is None:
                return None
            if k.is_negative:
                k = base[1] + k
            return (base[0] + k, None)
        if isinstance(e, ast.Name):
            role = loop_roles(e.id, at)
            if role is not None and role[0] == "elem":
                base = view_of(role[1], at)
                return None if base is None else (base[0] + I, base[1])
        return None

    def source_of(slot) -> str | None:
        """The array (and element) whose image is stored in the slot: the segment of the task list the index falls in."""
        idx, length = slot
        for s_, o_ in zip(segs, offsets):
            size, elt, source, var = s_
            if var is None and same(idx, o_):
                return source
            if var is not None and same(idx, o_ + I) and (length is None or same(length, size)):
                # element i of the segment is the image of element i of its source: the comprehension `src[.., v]`
                return _element_text(elt, var)
        return None

    def values(e: ast.AST, at: ast.AST, depth: int = 0) -> list[tuple] | None:
        """What an argument of the consumer stands for: ("par", source | None, node) for an output of the parallel
        run, ("seq", source, node) for a direct evaluation ``f_pointer(point)``; None when it is neither."""
        if isinstance(e, ast.Call) and last_attr(e) == "f_pointer" and e.args and not isinstance(e.args[0], ast.Starred):
            a_ = e.args[0]
            lv = [n_.id for n_ in ast.walk(a_) if isinstance(n_, ast.Name) and loop_roles(n_.id, at) == ("index",)]
            return [("seq", _element_text(a_, lv[0] if lv else None), rules.enclosing_stmt(f, e) if cfg.has(e) else at)]
        s = slot_of(e, at)
        if s is not None:
            return [("par", source_of(s), rules.enclosing_stmt(f, e) if cfg.has(e) else at)]
        if isinstance(e, ast.Name) and depth < 4 and loop_roles(e.id, at) is None:
            use = cfg.node_of(at)
            defs = _reaching(cfg, binders(e.id), cfg.entry, use, set())
            out = []
            for d in defs:
                st = cfg.ast[d] if d is not None else None
                if not (isinstance(st, ast.Assign) and len(st.targets) == 1 and isinstance(st.targets[0], ast.Name)):
                    return None
                sub = values(st.value, st, depth + 1)
                if sub is None:
                    return None
                out += sub
            return out or None
        return None

    # consumers: calls some argument of which is an output of the parallel run / a direct evaluation
    roles: dict[tuple, dict] = {}
    for c in [c for c in walk_body(f) if isinstance(c, ast.Call) and cfg.has(c)]:
        if last_attr(c) == "f_pointer" or is_parallel_execute(c):
            continue
        st = rules.enclosing_stmt(f, c)
        try:
            callee = "|".join(sv.texts(c.func))
        except Exception:  # noqa: BLE001
            callee = norm_stmt(c.func)
        for key, a_ in [*enumerate(c.args), *[(k.arg, k.value) for k in c.keywords]]:
            if isinstance(a_, ast.Starred) or key is None:
                continue
            vs = values(a_, st)
            if vs:
                r = roles.setdefault((callee, key), {"par": [], "seq": [], "label": a_.id if isinstance(a_, ast.Name) else f"argument {key} of {norm_stmt(c.func)}"})
                for kind, source, node in vs:
                    r[kind].append((source, node))
    n = 0
    for key, r in sorted(roles.items(), key=lambda kv: kv[1]["label"]):
        wants = sorted({s_ for s_, _ in r["seq"]})
        if not r["par"] or len(wants) != 1:
            continue
        n += 1
        want, name = wants[0], r["label"]
        for got, node in r["par"]:
            ctx.ob("13.7-slots", con, got == want, f"in the parallel branch `{name}` is read from the slot of `{got}`; the sequential branch computes it at `{want}`: parallel and sequential optimal steps (and the gradients that use them) differ", node=node, stmt=f"parallel {name} read from the slot of {want}")
    ctx.ob("13.7-slots", con, n >= 3, "the three values (base, forward, backward) of the parallel branch were not all recognised", node=f, stmt="base, forward and backward slots recognised")
    # both branches treat every component: when both loop over a range, it is the same range
    from gv.props.shared import unfolded as _unf

    branch = [s_ for s_ in stmts_of(f) if isinstance(s_, ast.If) and "_parallel" in norm_stmt(s_.test) and s_.orelse]
    if len(branch) == 1:
        def range_loops(block):
            out = []
            for s_ in block:
                for l_ in ast.walk(s_):
                    if isinstance(l_, ast.For) and isinstance(l_.iter, ast.Call) and dotted(l_.iter.func) == "range" and any(isinstance(c_, ast.Call) for b_ in l_.body for c_ in ast.walk(b_)):
                        out.append(l_)
            return out

        lp, ls = range_loops(branch[0].body), range_loops(branch[0].orelse)
        if lp and ls:
            def span(l_):
                alts = _unf(f, l_.iter) or [l_.iter]
                return sorted({norm_stmt(a_, 200).replace("range(0, ", "range(") for a_ in alts})

            want_ = span(ls[0])
            for l_ in lp:
                ctx.ob("13.7-slots", con, span(l_) == want_, f"the parallel branch loops over `{', '.join(span(l_))}` while the sequential branch loops over `{', '.join(want_)}`: some components keep their initial step in one mode only", node=l_, stmt="parallel and sequential branches loop over the same components")


_DPL = "core/parallel_execution/disc_parallel_linearization.py"
_DPE = "core/parallel_execution/disc_parallel_execution.py"


def check_discipline_slots(ctx: Ctx) -> None:
    """13.8: the discipline executors pair result i with discipline i / input i: nothing is filtered out before
    the pairing, and the returned list keeps one entry per input (None for a failed task)."""
    for rel, clsn in ((_DPL, "DiscParallelLinearization"), (_DPE, "DiscParallelExecution")):
        f = ctx.index.method(rel, clsn, "execute")
        con = cname(rel, clsn, "execute")
        sup = [s for s in stmts_of(f) if isinstance(s, ast.Assign) and isinstance(s.value, ast.Call) and isinstance(s.value.func, ast.Attribute) and s.value.func.attr == "execute" and norm_stmt(s.value.func.value) == "super()" and isinstance(s.targets[0], ast.Name)]
        ctx.need(len(sup) == 1, f"{clsn}.execute: `ordered = super().execute(...)` not found")
        ordered = sup[0].targets[0].id
        rebound = [s for s in stmts_of(f) if isinstance(s, (ast.Assign, ast.AugAssign)) and s is not sup[0] and any(isinstance(t, ast.Name) and t.id == ordered for t in (s.targets if isinstance(s, ast.Assign) else [s.target]))]
        ctx.ob("13.8-discipline-slots", con, not rebound, f"the ordered results `{ordered}` are re-bound (filtered / re-ordered) before they are paired with the disciplines: result i then no longer belongs to discipline i, and a failure shifts every later slot", node=(rebound or [sup[0]])[0], stmt="ordered results kept as returned")
        for z in [c for c in walk_body(f) if isinstance(c, ast.Call) and dotted(c.func) == "zip"]:
            args = [norm_stmt(a_) for a_ in z.args]
            if any("_disciplines" in a_ for a_ in args):
                ok = ordered in args and all(isinstance(a_, (ast.Name, ast.Attribute)) for a_ in z.args)
                ctx.ob("13.8-discipline-slots", con, ok, "the disciplines must be zipped with the unfiltered ordered results", node=z, stmt="zip(disciplines, ordered results)")
        for r in [s for s in stmts_of(f) if isinstance(s, ast.Return) and s.value is not None]:
            v = r.value
            if isinstance(v, ast.Name):
                ok = v.id == ordered
            else:
                ok = isinstance(v, ast.ListComp) and len(v.generators) == 1 and not v.generators[0].ifs and dotted(v.generators[0].iter) == ordered
            ctx.ob("13.8-discipline-slots", con, ok, "the list returned has one entry per input, in order (None for a failed task): dropping the failed entries makes it shorter than the inputs and un-matches every later entry", node=r, stmt="one returned entry per input")
    ctx.floor("13.8-discipline-slots", 5)


_PCH = "core/chains/parallel_chain.py"


def check_parallel_chain_inputs(ctx: Ctx) -> None:
    """13.9: with use_deep_copy each discipline of a parallel chain gets a deep copy OF ITS OWN: a discipline that
    works in place on its inputs must not change what its siblings read (a task affects only its own slot)."""
    f = ctx.index.method(_PCH, "MDOParallelChain", "_get_input_data_copies")
    con = cname(_PCH, "MDOParallelChain", "_get_input_data_copies")
    rets = [r for r in stmts_of(f) if isinstance(r, ast.Return) and r.value is not None]
    ctx.need(rets, "_get_input_data_copies: no return")
    n = 0
    for r in rets:
        alts = unfolded(f, r, {"self._use_deep_copy": True}, get=lambda st: st.value)
        if alts is None:
            continue
        n += 1
        ok = bool(alts)
        for a_ in alts:
            # one fresh deep copy per element: a comprehension (or a list built by append) whose ELEMENT is the copy
            if isinstance(a_, ast.ListComp) and len(a_.generators) == 1:
                el = a_.elt
                copies = [c for c in ast.walk(el) if isinstance(c, ast.Call) and last_attr(c) in ("deepcopy_dict_of_arrays", "deepcopy")]
                n_src = norm_stmt(a_.generators[0].iter)
                ok = ok and bool(copies) and ("self.disciplines" in n_src)
            else:
                ok = False
        ctx.ob("13.9-own-inputs", con, ok, "with use_deep_copy every discipline must receive its own deep copy of the chain's data (one copy made per discipline): `[copy] * n` hands the SAME object to all of them, so a discipline working in place on its inputs changes the inputs of the others", node=r, stmt="one deep copy per discipline")
    ctx.floor("13.9-own-inputs", 1)
    # the copies are what the executors are given
    for mname, callee in (("_execute", "parallel_execution"), ("_compute_jacobian", "parallel_lin")):
        g = ctx.index.method(_PCH, "MDOParallelChain", mname)
        ex = [c for c in walk_body(g) if isinstance(c, ast.Call) and last_attr(c) == "execute" and callee in norm_stmt(c.func)]
        given = arg_or_kw(ex[0], 0, "inputs") if len(ex) == 1 else None  # execute(inputs, ...) of the executors
        ok = given is not None and all(isinstance(a_, ast.Call) and last_attr(a_) == "_get_input_data_copies" for a_ in (unfolded(g, given) or [given]))
        ctx.ob("13.9-own-inputs", cname(_PCH, "MDOParallelChain", mname), bool(ok), "the parallel executor must be given the per-discipline copies", node=(ex or [g])[0], stmt=f"{callee}.execute(self._get_input_data_copies())")


def check_shared_cache_entry(ctx: Ctx) -> None:
    """13.10: workers sharing a cache interleave their calls (outputs(A), outputs(B), jacobian(A), jacobian(B)): every
    access, hit or creation, must designate ITS entry as the last accessed one before the values are written (rule 5.10
    of C05; sequential runs never see the difference)."""
    from gv.props import c05
    from gv.props.c12 import _Prefixed

    c05.check_last_accessed(_Prefixed(ctx, "13.10-shared-cache/"))


def run(ctx: Ctx) -> None:
    check_shared_cache_entry(ctx)
    check_optimal_step_slots(ctx)
    check_parallel_chain_inputs(ctx)
    check_discipline_slots(ctx)
    check_worker(ctx)
    check_dispatcher(ctx)
    lock_discipline(ctx, "13.4-lock")
    check_doe(ctx)
    from gv.props import c03

    class _P:
        def __init__(self, c):
            self._c = c

        def ob(self, rule, *a, **k):
            return self._c.ob("13.5/" + rule, *a, **k)

        def __getattr__(self, n):
            return getattr(self._c, n)

    c03.check_doe_run(_P(ctx))


# ---------------------------------------------------------------------------
WITNESSES = [
    {"name": "seeded-C13-11", "file": "core/parallel_execution/callable_parallel_execution.py", "old": "\n    def __init__(\n        self,\n        workers: Sequence[CallableType[ArgT, ReturnT]],\n        n_processes: int = N_CPUS,\n        use_threading: bool = False,\n        wait_time_between_fork: float = 0.0,\n        exceptions_to_re_raise: Sequence[type[Exception]] = (),\n    ) -> None:\n        \"\"\"\n        Args:\n            workers: The objects that perform the tasks.\n                Either pass one worker, and it will be forked in multiprocessing.\n                Or, when using multithreading or different workers, pass one worker\n                per input data.\n            n_processes: The maximum simultaneous number of threads,\n                if ``use_threading`` is True, or processes otherwise,\n                used to parallelize the execution.\n            use_threading: Whether to use threads instead of processes\n                to parallelize the execution.\n                Multiprocessing will copy (serialize) all the disciplines,\n                while threading will share all the memory.\n                This is important to note if you want to execute the same\n                discipline multiple times, in which case you shall use\n                multiprocessing.\n            wait_time_between_fork: The time to wait between two forks of the\n                process/thread.\n            exceptions_to_re_raise: The exceptions that should be raised again\n                when caught inside a worker. If ``None``, all exceptions coming from\n                workers are caught and the execution is allowed to continue.\n\n        Raises:\n            ValueError: If there are duplicated workers in ``workers`` when\n                using multithreading.\n        \"\"\"  # noqa: D205, D212, D415\n        self.workers = workers\n        self.n_processes = n_processes\n        self.use_threading = use_threading\n        self.wait_time_between_fork = wait_time_between_fork\n        self.__exceptions_to_re_raise = tuple(exceptions_to_re_raise)\n        self._check_unicity(workers)\n\n    def _check_unicity(self, objects: Any) -> None:\n        \"\"\"Check that the objects are unique.\n\n        Args:\n            objects: The objects to check.\n        \"\"\"\n        if self.use_threading:\n            ids = {id(obj) for obj in objects}\n            if len(ids) != len(objects):\n                msg = (\n                    \"When using multithreading, all workers shall be different objects.\"\n                )\n                raise ValueError(msg)\n\n    # TODO: API: let exec_callback always be iterable and renamed to callbacks.\n    def execute(\n        self,\n        inputs: Sequence[ArgT],\n        exec_callback: CallbackType | Iterable[CallbackType] = (),\n        task_submitted_callback: Callable[[], None] | None = None,\n    ) -> list[ReturnT | None]:\n        \"\"\"Execute all the processes.\n\n        Args:\n            inputs: The input values.\n            exec_callback: Callback functions called with the\n                pair (index, outputs) as arguments when an item is retrieved\n                from the processing. Index is the associated index\n                in inputs of the input used to compute the outputs.\n                If empty, no function is called.\n            task_submitted_callback: A callback function called when all the\n                tasks are submitted, but not done yet. If ``None``, no function\n                is called.\n\n        Returns:\n            The computed outputs.\n\n        Warnings:\n            This class relies on multiprocessing features, it is therefore\n            necessary to protect its execution with an ``if __name__ == '__main__':``\n            statement when working on Windows.\n        \"\"\"\n        if callable(exec_callback):\n            exec_callback = [exec_callback]\n\n        n_tasks = len(inputs)\n\n        tasks: list[int] | ListProxy[int] = list(range(n_tasks))[::-1]\n\n        queue_in: _QueueInType[ArgT]\n        queue_out: _QueueOutType[ReturnT]\n        processor: type[th.Thread | ForkProcess | SpawnProcess | ForkServerProcess]\n\n        # TODO: API: use subclass instead of if?\n        # Queue for workers.\n        if self.use_threading:\n            queue_in = queue.Queue()\n            queue_out = queue.Queue()\n            processor = th.Thread\n        else:\n            manager = get_multi_processing_manager()\n            queue_in = manager.Queue()\n            queue_out = manager.Queue()\n            tasks = manager.list(tasks)\n", "new": "\n    __manager_queues: tuple[_QueueInType[Any], _QueueOutType[Any]] | None\n    \"\"\"The input and output queues used for multiprocessing, created on first use.\"\"\"\n\n    def __init__(\n        self,\n        workers: Sequence[CallableType[ArgT, ReturnT]],\n        n_processes: int = N_CPUS,\n        use_threading: bool = False,\n        wait_time_between_fork: float = 0.0,\n        exceptions_to_re_raise: Sequence[type[Exception]] = (),\n    ) -> None:\n        \"\"\"\n        Args:\n            workers: The objects that perform the tasks.\n                Either pass one worker, and it will be forked in multiprocessing.\n                Or, when using multithreading or different workers, pass one worker\n                per input data.\n            n_processes: The maximum simultaneous number of threads,\n                if ``use_threading`` is True, or processes otherwise,\n                used to parallelize the execution.\n            use_threading: Whether to use threads instead of processes\n                to parallelize the execution.\n                Multiprocessing will copy (serialize) all the disciplines,\n                while threading will share all the memory.\n                This is important to note if you want to execute the same\n                discipline multiple times, in which case you shall use\n                multiprocessing.\n            wait_time_between_fork: The time to wait between two forks of the\n                process/thread.\n            exceptions_to_re_raise: The exceptions that should be raised again\n                when caught inside a worker. If ``None``, all exceptions coming from\n                workers are caught and the execution is allowed to continue.\n\n        Raises:\n            ValueError: If there are duplicated workers in ``workers`` when\n                using multithreading.\n        \"\"\"  # noqa: D205, D212, D415\n        self.workers = workers\n        self.n_processes = n_processes\n        self.use_threading = use_threading\n        self.wait_time_between_fork = wait_time_between_fork\n        self.__exceptions_to_re_raise = tuple(exceptions_to_re_raise)\n        self.__manager_queues = None\n        self._check_unicity(workers)\n\n    def _check_unicity(self, objects: Any) -> None:\n        \"\"\"Check that the objects are unique.\n\n        Args:\n            objects: The objects to check.\n        \"\"\"\n        if self.use_threading:\n            ids = {id(obj) for obj in objects}\n            if len(ids) != len(objects):\n                msg = (\n                    \"When using multithreading, all workers shall be different objects.\"\n                )\n                raise ValueError(msg)\n\n    # TODO: API: let exec_callback always be iterable and renamed to callbacks.\n    def execute(\n        self,\n        inputs: Sequence[ArgT],\n        exec_callback: CallbackType | Iterable[CallbackType] = (),\n        task_submitted_callback: Callable[[], None] | None = None,\n    ) -> list[ReturnT | None]:\n        \"\"\"Execute all the processes.\n\n        Args:\n            inputs: The input values.\n            exec_callback: Callback functions called with the\n                pair (index, outputs) as arguments when an item is retrieved\n                from the processing. Index is the associated index\n                in inputs of the input used to compute the outputs.\n                If empty, no function is called.\n            task_submitted_callback: A callback function called when all the\n                tasks are submitted, but not done yet. If ``None``, no function\n                is called.\n\n        Returns:\n            The computed outputs.\n\n        Warnings:\n            This class relies on multiprocessing features, it is therefore\n            necessary to protect its execution with an ``if __name__ == '__main__':``\n            statement when working on Windows.\n        \"\"\"\n        if callable(exec_callback):\n            exec_callback = [exec_callback]\n\n        n_tasks = len(inputs)\n\n        tasks: list[int] | ListProxy[int] = list(range(n_tasks))[::-1]\n\n        queue_in: _QueueInType[ArgT]\n        queue_out: _QueueOutType[ReturnT]\n        processor: type[th.Thread | ForkProcess | SpawnProcess | ForkServerProcess]\n\n        # TODO: API: use subclass instead of if?\n        # Queue for workers.\n        if self.use_threading:\n            queue_in = queue.Queue()\n            queue_out = queue.Queue()\n            processor = th.Thread\n        else:\n            manager = get_multi_processing_manager()\n            if self.__manager_queues is None:\n                # Creating a queue costs a round trip to the manager process:\n                # do it once for all the executions.\n                self.__manager_queues = (manager.Queue(), manager.Queue())\n            queue_in, queue_out = self.__manager_queues\n            tasks = manager.list(tasks)\n", "expect": "13.11", "note": "CallableParallelExecution reuses its multiprocessing queues between executions: "},
    {"name": "seeded-C13-10", "file": "caches/base_full_cache.py", "old": "                # The input data is already cached => we don't store it again.\n                self._last_accessed_index.value = index\n                return False\n", "new": "                # The input data is already cached => we don't store it again.\n                return False\n", "expect": "13.10", "note": "BaseFullCache: a cache hit on already stored inputs no longer updates the last a"},
    {"name": "parallel-steps-skip-the-last-component", "file": "utils/derivatives/finite_differences.py", "old": "            f_0 = outputs[0]\n            for i in range(n_dim):", "new": "            f_0 = outputs[0]\n            for i in range(n_dim - 1):", "expect": "13.7"},
    {"name": "linearization-drops-failed-slots", "file": _DPL, "old": "        return [out.jacobian if out is not None else None for out in ordered_outputs]", "new": "        return [out.jacobian for out in ordered_outputs if out is not None]", "expect": "13.8"},
    {"name": "cache-jacobian-under-the-hash-lock", "file": "caches/base_full_cache.py", "old": "    @synchronized\n    def cache_jacobian(", "new": "    @synchronized_hashes\n    def cache_jacobian(", "expect": "13.4"},
    {"name": "optimal-step-backward-slot-off-by-one", "file": FDF, "old": "                f_m = outputs[n_dim + i + 1]", "new": "                f_m = outputs[n_dim + i]", "expect": "13.7"},
    {"name": "optimal-step-forward-backward-swapped", "file": FDF, "old": "            all_x = [x_vect] + [x_p_arr[:, i] for i in range(n_dim)]\n            all_x += [x_m_arr[:, i] for i in range(n_dim)]", "new": "            all_x = [x_vect] + [x_m_arr[:, i] for i in range(n_dim)]\n            all_x += [x_p_arr[:, i] for i in range(n_dim)]", "expect": "13.7"},
    {"name": "answer-carries-a-counter", "file": CP, "old": "        queue_out.put((task_index, output))\n        queue_in.task_done()", "new": "        queue_out.put((queue_out.qsize(), output))\n        queue_in.task_done()", "expect": "13.1"},
    {"name": "submit-next-input", "file": CP, "old": "            queue_in.put((task_index, inputs[task_index]))", "new": "            queue_in.put((task_index, inputs[task_index - 1]))", "expect": "13.1"},
    {"name": "no-answer-on-exception", "file": CP, "old": "            traceback.print_exc()\n            queue_out.put((task_index, err))\n            queue_in.task_done()\n            continue", "new": "            traceback.print_exc()\n            queue_in.task_done()\n            continue", "expect": "13.2"},
    {"name": "no-continue-after-exception", "file": CP, "old": "            queue_out.put((task_index, err))\n            queue_in.task_done()\n            continue\n", "new": "            queue_out.put((task_index, err))\n            queue_in.task_done()\n            output = None\n", "expect": "13."},
    {"name": "slot-by-arrival-order", "file": CP, "old": "                ordered_outputs[index] = output", "new": "                ordered_outputs[n_outputs] = output", "expect": "13.1"},
    {"name": "callback-with-arrival-order", "file": CP, "old": "                    callback(index, output)", "new": "                    callback(n_outputs, output)", "expect": "13.1"},
    {"name": "callbacks-for-exceptions", "file": CP, "old": "            else:\n                ordered_outputs[index] = output\n                for callback in exec_callback:\n                    callback(index, output)\n            n_outputs += 1", "new": "            else:\n                ordered_outputs[index] = output\n            for callback in exec_callback:\n                callback(index, output)\n            n_outputs += 1", "expect": "13.3"},
    {"name": "stop-on-any-exception", "file": CP, "old": "                if isinstance(output, self.__exceptions_to_re_raise):\n                    stop = True", "new": "                stop = True", "expect": "13.3"},
    {"name": "failures-not-counted", "file": CP, "old": "                for callback in exec_callback:\n                    callback(index, output)\n            n_outputs += 1", "new": "                for callback in exec_callback:\n                    callback(index, output)\n                n_outputs += 1", "expect": "13.2"},
    {"name": "one-sentinel-too-few", "file": CP, "old": "        for _ in processes:\n            queue_in.put(None)", "new": "        for _ in processes[1:]:\n            queue_in.put(None)", "expect": "13.3"},
    {"name": "join-before-sentinels", "file": CP, "old": "        for _ in processes:\n            queue_in.put(None)\n\n        for process in processes:\n            process.join()", "new": "        for process in processes:\n            process.join()\n\n        for _ in processes:\n            queue_in.put(None)", "expect": "13.3"},
    {"name": "callable-of-other-task", "file": CP, "old": "            callable_ = self.callables[task_index]", "new": "            callable_ = self.callables[-task_index]", "expect": "13.1"},
    {"name": "doe-stores-at-other-sample", "file": DOE, "old": "        self._problem.database.store(self.samples[index], data)", "new": "        self._problem.database.store(self.samples[len(self._problem.database) - 1], data)", "expect": "13.1"},
    {"name": "cache-write-unlocked", "file": "caches/base_full_cache.py", "old": "    @synchronized\n    def cache_jacobian(", "new": "    def cache_jacobian(", "expect": "13.4"},
    {"name": "preseed-after-parallel-run", "file": DOE, "old": "                for sample in self.samples:\n                    database.store(sample, {})\n", "new": "", "expect": "13.5"},
    {"name": "output-unbound-for-no-task", "file": CP, "old": "        stop = False\n        output = None\n", "new": "        stop = False\n", "expect": "13.6"},
    {"name": "counter-starts-at-one", "file": CP, "old": "        n_outputs = 0\n", "new": "        n_outputs = 1\n", "expect": "13.2"},
    {"name": "collect-one-answer-too-many", "file": CP, "old": "while n_outputs != n_tasks and not stop:", "new": "while n_outputs <= n_tasks and not stop:", "expect": "13.2"},
    {"name": "one-slot-too-few", "file": CP, "old": "= [None] * n_tasks", "new": "= [None] * (n_tasks - 1)", "expect": "13.1"},
    {"name": "worker-stops-after-a-failure", "file": CP, "old": "            queue_out.put((task_index, err))\n            queue_in.task_done()\n            continue\n", "new": "            queue_out.put((task_index, err))\n            queue_in.task_done()\n            break\n", "expect": "13.3"},
]
TWINS = [
    {"name": "collect-while-fewer-answers", "file": CP, "old": "while n_outputs != n_tasks and not stop:", "new": "while n_outputs < n_tasks and not stop:"},
    {"name": "worker-single-answer-site", "file": CP, "old": "            traceback.print_exc()\n            queue_out.put((task_index, err))\n            queue_in.task_done()\n            continue\n", "new": "            traceback.print_exc()\n            output = err\n"},

    {"name": "optimal-step-slot-index-commuted", "file": FDF, "old": "                f_m = outputs[n_dim + i + 1]", "new": "                f_m = outputs[1 + i + n_dim]"},
    {"name": "rename-index", "file": CP, "old": "            index, output = queue_out.get()", "new": "            index, output = queue_out.get(block=True)"},
]
