"""C03 -- drivers respect the evaluation budget and always return a result."""

from __future__ import annotations

import ast

from gv import rules
from gv.astutil import AnalysisError
from gv.astutil import compare_parts
from gv.astutil import const_value
from gv.astutil import dotted
from gv.astutil import kwarg
from gv.astutil import last_attr
from gv.astutil import names_in
from gv.astutil import norm_stmt
from gv.astutil import same
from gv.astutil import stmts_of
from gv.astutil import walk_body
from gv.cfg import _handler_names
from gv.cfg import cfg_of
from gv.props import describe
from gv.props.c01 import compute_roles
from gv.props.shared import branch_conditions
from gv.props.shared import conj_literals
from gv.props.shared import literal_facts
from gv.props.shared import unfolded
from gv.props.shared import store_protocol
from gv.report import Ctx
from gv.report import cname

PF = "algos/problem_function.py"
DL = "algos/base_driver_library.py"
EC = "algos/evaluation_counter.py"
SC = "algos/stop_criteria.py"
DOE = "algos/doe/base_doe_library.py"

describe(
    "C03",
    explanation=(
        "The wrappers disable the third-party budgets, so GEMSEO's listener/counter protocol is the only "
        "enforcement; its shape is decided statically: budget guard dominating every evaluation of an unseen "
        "point; exactly one counter increment per new iteration, before any raise, in the base callback and "
        "through super() in every override; new-iteration signalled on the first non-empty store; listener "
        "registered before _pre_run/_run and removed after; every _pre_run reaches _init_iter_observer; every "
        "stop exception derives from TerminationCriterion which execute() catches at the root and converts "
        "into a result; no wrapper swallows it; DOE evaluates samples in order, once, pre-seeded in order."
    ),
    decided=["3.11 structured designs within the sample budget (rule group 14.5 of C14)", "3.1 budget guard", "3.2 counter increment", "3.3 new-iteration signal", "3.4 listening window", "3.5 termination -> result", "3.6 no swallowed stop signal", "3.7 DOE order", "3.8 the NaN policy reaches every NaN check", "3.9 no stop criterion resets the evaluation counter"],
    not_decided=["behaviour of third-party optimisers between callbacks", "time-limit accuracy", "per-level budgets of composite algorithms"],
)


def check_budget_guard(ctx: Ctx) -> None:
    roles = compute_roles(ctx)
    for m, info in sorted(roles.items()):
        if not info["db"]:
            continue
        f = ctx.index.method(PF, "ProblemFunction", m)
        con = cname(PF, "ProblemFunction", m)
        cfg = cfg_of(f)
        comp = "_compute_output" if info["role"] == "output" else "_compute_jacobian"
        computes = rules.self_calls(f, comp)
        ctx.need(computes, f"{m}: no compute call")
        raises = [s for s in stmts_of(f) if isinstance(s, ast.Raise) and s.exc is not None and (dotted(s.exc.func if isinstance(s.exc, ast.Call) else s.exc) or "").endswith("MaxIterReachedException")]
        lookups = rules.calls_named(f, "get_function_value")
        lk_key = lookups[0].args[1] if lookups and len(lookups[0].args) > 1 else None
        for c in computes:
            cn = cfg.node_of(c)
            c_conds = set(branch_conditions(cfg, cn))
            ok = False
            detail = "no `raise MaxIterReachedException` guards the evaluation"
            for r in raises:
                rn = cfg.node_of(r)
                own = [tv for tv in branch_conditions(cfg, rn) if tv not in c_conds]
                lits = []
                bad_branch = False
                for t, v in own:
                    cl = conj_literals(cfg.ast[t].test)
                    if v:
                        lits += cl
                    elif len(cl) == 1:
                        lits.append((not cl[0][0], cl[0][1]))  # the false branch of a single literal is its negation
                    else:
                        bad_branch = True
                if not own or bad_branch:
                    detail = "the raise is not under a guard made of literal conditions"
                    continue
                pos = [e for p, e in lits if p]
                neg = [e for p, e in lits if not p]
                has_max = len(pos) == 1 and isinstance(pos[0], ast.Attribute) and pos[0].attr == "maximum_is_reached" and (dotted(pos[0].value) or "").endswith("_evaluation_counter")
                has_new = len(neg) == 1 and isinstance(neg[0], ast.Call) and last_attr(neg[0]) == "get" and neg[0].args and (lk_key is None or same(neg[0].args[0], lk_key))
                # the outermost test of the guard is evaluated on every path to the evaluation
                tests_dom = any(cfg.dominates(t, cn) and all(cfg.dominates(t, t2) for t2, _ in own) for t, _ in own)
                # the guard must not be evaluated after the compute call
                before = all(not cfg.reachable(cn, t) for t, _ in own)
                if has_max and has_new and tests_dom and before and len(lits) == 2:
                    ok = True
                    break
                detail = f"guard literals: +{[norm_stmt(e) for e in pos]} -{[norm_stmt(e) for e in neg]}; dominates compute: {tests_dom}"
            ctx.ob("3.1-guard", con, ok, "an unseen point can be evaluated although the evaluation budget is used up: the evaluation must be dominated by `if not database.get(<key>) and counter.maximum_is_reached: raise MaxIterReachedException` (" + detail + ")", node=c)
    ctx.floor("3.1-guard", 4)


def check_counter(ctx: Ctx) -> None:
    base = ctx.index.cls(DL, "BaseDriverLibrary")
    f = ctx.index.method(DL, "BaseDriverLibrary", "_new_iteration_callback")
    con = cname(DL, "BaseDriverLibrary", "_new_iteration_callback")
    cfg = cfg_of(f)
    incs = [s for s in stmts_of(f) if isinstance(s, ast.AugAssign) and (dotted(s.target) or "").endswith("evaluation_counter.current")]
    ok = len(incs) == 1 and isinstance(incs[0].op, ast.Add) and const_value(incs[0].value) == 1
    ctx.ob("3.2-increment", con, ok, "the new-iteration callback must increment evaluation_counter.current by exactly 1, once", node=(incs or [f])[0], stmt="evaluation_counter.current += 1 (once)")
    if ok:
        n = cfg.node_of(incs[0])
        ctx.ob("3.2-increment", con, cfg.must_pass(cfg.entry, {n}) and cfg.must_pass(cfg.entry, {n}, cfg.raise_exit, exc=True), "some path through the callback (normal or raising) does not count the iteration", node=incs[0], stmt="increment on every path")
        for r in [s for s in stmts_of(f) if isinstance(s, ast.Raise)]:
            ctx.ob("3.2-before-raise", con, cfg.dominates(n, cfg.node_of(r)), "the callback can raise a termination criterion before counting the iteration that triggered it: the recorded point is then not counted in the budget", node=r)
        ctx.ob("3.2-increment", con, not any(isinstance(cfg.ast[t], (ast.For, ast.While)) and cfg.dominates(cfg.branch.get((t, True), -1), n) for t in cfg.nodes(lambda k: cfg.kind[k] in ("loop", "test"))), "the increment must not be inside a loop", node=incs[0], stmt="increment not in a loop")
    # overrides
    n_over = 0
    for cls, g in ctx.index.overriders(base, "_new_iteration_callback"):
        if cls == base:
            continue
        n_over += 1
        con2 = cname(cls.module.relpath, cls.qualname, "_new_iteration_callback")
        sup = rules.super_calls(g, "_new_iteration_callback")
        cfg2 = cfg_of(g)
        ok = len(sup) >= 1 and cfg2.must_pass(cfg2.entry, {cfg2.node_of(sup[0])})
        first = rules.first_effectful_stmt(g)
        ok = ok and first is not None and any(sub is sup[0] for sub in ast.walk(first))
        ok = ok and bool(sup[0].args) and dotted(sup[0].args[0]) == g.args.args[1].arg
        ctx.ob("3.2-override", con2, ok, "an override of the new-iteration callback must first call super()._new_iteration_callback(x_vect): otherwise the iteration is not counted (or is counted after a tolerance criterion already raised)", node=(sup or [g])[0])
    ctx.counts["3.2-overrides"] = n_over
    # the counter predicate
    p = ctx.index.method(EC, "EvaluationCounter", "maximum_is_reached")
    con3 = cname(EC, "EvaluationCounter", "maximum_is_reached")
    rets = [s for s in stmts_of(p) if isinstance(s, ast.Return)]
    # the predicate reads its two operands only through comparisons: it is decided over every ordering of
    # (0, current, maximum), whatever its spelling (guard clause, one boolean expression, chained comparison)
    from gv.ordering import Unsupported
    from gv.ordering import same_predicate

    p = _comparison_form(ctx.index, ctx.index.cls(EC, "EvaluationCounter"), p)
    try:
        ok, cex = same_predicate(p, {"self.current": "current", "self.maximum": "maximum"}, lambda current, maximum: maximum != 0 and current >= maximum, where=lambda current, maximum: current >= 0 and maximum >= 0)
        why = f" (counter-example: {cex})" if cex else ""
    except Unsupported as e:
        ok, why = False, f" (the predicate is no longer a pure comparison of current and maximum: {e})"
    ctx.ob("3.2-predicate", con3, ok, "the budget is reached exactly when a budget is set (maximum != 0) and current >= maximum; with > one extra new point is evaluated" + why, node=(rets or [p])[0], stmt="reached iff maximum != 0 and current >= maximum")


def _comparison_form(index, cls, func: ast.AST) -> ast.AST:
    """A copy of the predicate ``func`` spelt with comparisons of attributes only (what gv.ordering decides):

    - ``self.<p>`` where ``p`` is a property of ``cls`` whose body is one ``return <expr>`` is replaced by ``<expr>``;
    - the locals read by a test or a returned value are replaced by their definition (``r = a - b; return r <= 0``);
    - ``a - b <op> 0`` (and ``0 <op> a - b``) is written ``a <op> b`` (``b <op> a``): the same relation on numbers.
    The original node is returned when nothing applies.
    """
    import copy

    from gv.dataflow import SymValues

    props = {}
    for c_ in index.mro(cls):
        for name in c_.properties:
            fn = c_.methods.get(name)
            if name in props or fn is None or fn is func:
                continue
            body = [b for b in fn.body if not (isinstance(b, ast.Expr) and isinstance(b.value, ast.Constant))]
            if len(body) == 1 and isinstance(body[0], ast.Return) and body[0].value is not None:
                props[name] = body[0].value

    class Props(ast.NodeTransformer):
        def visit_Attribute(self, n):  # noqa: N802
            self.generic_visit(n)
            if isinstance(n.ctx, ast.Load) and isinstance(n.value, ast.Name) and n.value.id == "self" and n.attr in props:
                return copy.deepcopy(props[n.attr])
            return n

    def is_zero(e):
        return isinstance(e, ast.Constant) and not isinstance(e.value, bool) and e.value == 0

    def is_diff(e):
        return isinstance(e, ast.BinOp) and isinstance(e.op, ast.Sub)

    class Diffs(ast.NodeTransformer):
        def visit_Compare(self, n):  # noqa: N802
            self.generic_visit(n)
            if len(n.ops) == 1 and type(n.ops[0]) in (ast.Eq, ast.NotEq, ast.Lt, ast.LtE, ast.Gt, ast.GtE):
                left, right = n.left, n.comparators[0]
                if is_diff(left) and is_zero(right):
                    return ast.copy_location(ast.Compare(left=left.left, ops=n.ops, comparators=[left.right]), n)
                if is_zero(left) and is_diff(right):
                    return ast.copy_location(ast.Compare(left=right.right, ops=n.ops, comparators=[right.left]), n)
            return n

    g = copy.deepcopy(func)
    for _ in range(3):  # a property may read another one
        g = Props().visit(g)
    try:
        sv = SymValues(g)
        sites = [(s_, "value" if isinstance(s_, ast.Return) else "test") for s_ in stmts_of(g) if (isinstance(s_, ast.Return) and s_.value is not None) or isinstance(s_, ast.If)]
        repl = []
        for s_, field in sites:
            alts = sv.exprs(getattr(s_, field))
            if alts is not None and len(alts) == 1:
                repl.append((s_, field, copy.deepcopy(alts[0])))
        for s_, field, e_ in repl:
            setattr(s_, field, e_)
    except Exception:  # noqa: BLE001 - the unfolding is an aid: without it the predicate is judged as it is spelt
        pass
    g = Diffs().visit(g)
    return ast.fix_missing_locations(g)


def check_execute(ctx: Ctx) -> None:
    f = ctx.index.method(DL, "BaseDriverLibrary", "execute")
    con = cname(DL, "BaseDriverLibrary", "execute")
    cfg = cfg_of(f)
    pre = rules.self_calls(f, "_pre_run")
    run = rules.self_calls(f, "_run")
    ctx.need(len(pre) == 1 and len(run) == 1, "execute: _pre_run/_run calls not found")
    pre_n, run_n = cfg.node_of(pre[0]), cfg.node_of(run[0])
    # registration of the callback
    regs = rules.calls_named(f, "add_new_iter_listener")
    ctx.need(regs, "execute: add_new_iter_listener call not found")
    cb_direct = [c for c in regs if c.args and dotted(c.args[0]) == "self._new_iteration_callback"]
    reg_nodes = set()
    flows = bool(cb_direct)
    for c in cb_direct:
        reg_nodes.add(cfg.node_of(c))
    if not flows:
        # list idiom: lst.append(self._new_iteration_callback); for l in lst: add_new_iter_listener(l)
        appends = [c for c in walk_body(f) if isinstance(c, ast.Call) and isinstance(c.func, ast.Attribute) and c.func.attr == "append" and c.args and dotted(c.args[0]) == "self._new_iteration_callback"]
        for a in appends:
            lst = dotted(a.func.value)
            an = cfg.node_of(a)
            for c in regs:
                cn = cfg.node_of(c)
                loops = [t for (t, v), b in cfg.branch.items() if v and cfg.kind[t] == "loop" and cfg.dominates(b, cn) and dotted(cfg.ast[t].iter) == lst and c.args and dotted(c.args[0]) in {n.id for n in ast.walk(cfg.ast[t].target) if isinstance(n, ast.Name)}]
                for lp in loops:
                    if cfg.dominates(an, lp) and not branch_conditions(cfg, an):
                        flows = True
                        reg_nodes.add(lp)
    ctx.ob("3.4-listening", con, flows, "the driver's _new_iteration_callback is not (unconditionally) registered as a new-iteration listener of the database: iterations are not counted", node=regs[0])
    for rn in sorted(reg_nodes):
        ok = cfg.dominates(rn, pre_n) and cfg.dominates(rn, run_n) and not cfg.reachable(pre_n, rn)
        ctx.ob("3.4-listening", con, ok, "the listener must be registered before _pre_run and _run (the first evaluations happen in _pre_run)", node=cfg.ast[rn], stmt="registration dominates _pre_run/_run")
    clears = rules.self_calls(f, "_clear_listeners")
    ctx.need(clears, "execute: _clear_listeners call not found")
    cl = {cfg.node_of(c) for c in clears}
    ok = cfg.must_pass(run_n, cl) and cfg.must_pass(pre_n, cl) and cfg.must_pass(pre_n, cl, exc=True)
    ctx.ob("3.4-listening", con, ok, "listeners must be removed on every path after the run, including the early-stopping path: " + cfg.describe_path(cfg.escape_path(pre_n, cl, exc=True)), node=clears[0], stmt="_clear_listeners post-dominates the run")
    # 3.5 termination -> result
    tries = [s for s in stmts_of(f) if isinstance(s, ast.Try) and any(sub is pre[0] for sub in ast.walk(s)) and any(sub is run[0] for sub in ast.walk(s))]
    ctx.need(len(tries) == 1, "execute: the try statement around _pre_run/_run was not found")
    t = tries[0]
    in_body = any(sub is pre[0] for b in t.body for sub in ast.walk(b)) and any(sub is run[0] for b in t.body for sub in ast.walk(b))
    names = set()
    for h in t.handlers:
        names |= _handler_names(h)
    ok = in_body and "TerminationCriterion" in names
    ctx.ob("3.5-catch-root", con, ok, "execute must catch the root class TerminationCriterion around _pre_run and _run: catching a subset lets the other stop signals escape as exceptions", node=t.handlers[0] if t.handlers else t, stmt="except TerminationCriterion around _pre_run/_run", slots={"handlers": sorted(names)})
    for h in t.handlers:
        if "TerminationCriterion" not in _handler_names(h):
            continue
        reraises = [s for b in h.body for s in ast.walk(b) if isinstance(s, ast.Raise)]
        ctx.ob("3.5-convert", con, not reraises, "the termination handler re-raises instead of building a result", node=(reraises or [h])[0], stmt="handler does not raise")
        asg = [s for b in h.body for s in ast.walk(b) if isinstance(s, ast.Assign) and dotted(s.targets[0]) == "result" and isinstance(s.value, ast.Call) and last_attr(s.value) == "_get_early_stopping_result"]
        ctx.ob("3.5-convert", con, len(asg) == 1, "the termination handler must assign result = self._get_early_stopping_result(...)", node=(asg or [h])[0], stmt="result = _get_early_stopping_result(...)")
        for a in asg:
            conds = branch_conditions(cfg, cfg.node_of(a))
            own = [(tt, v) for tt, v in conds if any(sub is cfg.ast[tt] for b in h.body for sub in ast.walk(b))]
            ok = all(v and dotted(cfg.ast[tt].test) == "is_optimization_problem" for tt, v in own)
            ctx.ob("3.5-convert", con, ok, "the early-stopping result may only be skipped for non-optimisation problems", node=a, stmt="conversion only conditioned by is_optimization_problem")
    rets = [s for s in stmts_of(f) if isinstance(s, ast.Return)]
    ok = len(rets) >= 1 and all(dotted(r.value) == "result" for r in rets) and cfg.reachable(run_n, cfg.exit)
    ctx.ob("3.5-return", con, ok, "execute must return the result on the normal and on the early-stopping path", node=(rets or [f])[0])
    g = ctx.index.method(DL, "BaseDriverLibrary", "_get_early_stopping_result")
    con2 = cname(DL, "BaseDriverLibrary", "_get_early_stopping_result")
    rets = [s for s in stmts_of(g) if isinstance(s, ast.Return)]
    raises = [s for s in stmts_of(g) if isinstance(s, ast.Raise)]
    ok = rets and not raises and all(isinstance(r.value, ast.Call) and last_attr(r.value) == "_get_result" for r in rets)
    ctx.ob("3.5-convert", con2, bool(ok), "_get_early_stopping_result must return self._get_result(...) for every termination criterion (no raise, no None)", node=(raises or rets or [g])[0])
    # init observer sets the maximum
    io = ctx.index.method(DL, "BaseDriverLibrary", "_init_iter_observer")
    con3 = cname(DL, "BaseDriverLibrary", "_init_iter_observer")
    sets = [s for s in stmts_of(io) if isinstance(s, ast.Assign) and (dotted(s.targets[0]) or "").endswith("evaluation_counter.maximum")]
    ok = len(sets) == 1 and dotted(sets[0].value) == io.args.args[2].arg and not branch_conditions(cfg_of(io), cfg_of(io).node_of(sets[0]))
    ctx.ob("3.4-budget-set", con3, ok, "_init_iter_observer must set evaluation_counter.maximum to the requested budget", node=(sets or [io])[0])


def check_pre_runs(ctx: Ctx) -> None:
    base = ctx.index.cls(DL, "BaseDriverLibrary")
    index = ctx.index

    def reaches(cls, after=None, depth=0) -> tuple[bool, str]:
        r = index.resolve_method(cls, "_pre_run", after=after)
        if r is None or depth > 8:
            return False, "no further _pre_run"
        c, f = r
        cfg = cfg_of(f)
        direct = rules.self_calls(f, "_init_iter_observer")
        if direct and any(cfg.must_pass(cfg.entry, {cfg.node_of(d)}) for d in direct):
            return True, f"{c.name}._pre_run calls _init_iter_observer"
        sups = rules.super_calls(f, "_pre_run")
        if sups and any(cfg.must_pass(cfg.entry, {cfg.node_of(s)}) for s in sups):
            ok, why = reaches(cls, after=c, depth=depth + 1)
            return ok, f"{c.name} -> {why}"
        return False, f"{c.name}._pre_run neither sets the budget nor delegates to super()._pre_run on every path"

    seen = set()
    n = 0
    for cls in index.subclasses(base):
        r = index.resolve_method(cls, "_pre_run")
        if r is None:
            continue
        if r[0].key in seen:
            continue
        seen.add(r[0].key)
        if not index.is_subclass(r[0], base):
            ctx.ob("3.4-pre-run", cname(cls.module.relpath, cls.qualname, "_pre_run"), False, f"{cls.name} resolves _pre_run to {r[0].name}, which never initialises the iteration budget", node=r[1])
            continue
        ok, why = reaches(r[0])
        n += 1
        ctx.ob("3.4-pre-run", cname(r[0].module.relpath, r[0].qualname, "_pre_run"), ok, f"this _pre_run does not reach _init_iter_observer ({why}): the driver runs without an evaluation budget", node=r[1], stmt=f"{r[0].name}._pre_run reaches _init_iter_observer", slots={"chain": why})
    ctx.floor("3.4-pre-run", 4)
    # budget of a DOE = number of samples
    f = ctx.index.method(DOE, "BaseDOELibrary", "_pre_run")
    calls = rules.self_calls(f, "_init_iter_observer")
    ok = len(calls) == 1 and len(calls[0].args) >= 2 and norm_stmt(calls[0].args[1]) in ("len(self.unit_samples)", "len(self.samples)")
    ctx.ob("3.7-doe-budget", cname(DOE, "BaseDOELibrary", "_pre_run"), ok, "the budget of a DOE must be its number of samples", node=(calls or [f])[0])


def check_stop_classes(ctx: Ctx) -> None:
    mod = ctx.index.module(SC)
    root = ctx.index.cls(SC, "TerminationCriterion")
    n = 0
    for c in mod.classes.values():
        if c == root:
            continue
        is_exc = any(b.split(".")[-1] in ("Exception", "BaseException") or b.split(".")[-1].endswith("Error") for b in c.base_exprs) or any(root in ctx.index.mro(c) for _ in [0])
        if not (is_exc or any(e in ("Exception", "BaseException") for e in c.base_exprs)):
            continue
        n += 1
        ctx.ob("3.5-hierarchy", cname(SC, c.qualname), root in ctx.index.mro(c), f"{c.name} is an exception meant to stop a driver but does not derive from TerminationCriterion: execute() would let it escape instead of returning a result", node=c.node)
    ctx.floor("3.5-hierarchy", 7)
    # testers' default criteria
    tb = ctx.index.cls(SC, "BaseToleranceTester")
    for c in ctx.index.subclasses(tb):
        a = c.class_attrs.get("termination_criterion")
        if a is None:
            continue
        val = a.value
        d = None
        if isinstance(val, ast.Call) and last_attr(val) == "field":
            for kw in val.keywords:
                if kw.arg == "default":
                    d = dotted(kw.value)
        else:
            d = dotted(val)
        tgt = _class_named(ctx.index, c.module, d)
        ok = tgt is not None and root in ctx.index.mro(tgt)
        ctx.ob("3.5-tester", cname(c.module.relpath, c.qualname), ok, f"the tolerance tester {c.name} raises {d}, which is not a TerminationCriterion", node=a)
    chk = ctx.index.method(SC, "BaseToleranceTester", "check")
    raises = [s for s in stmts_of(chk) if isinstance(s, ast.Raise)]
    exc = raises[0].exc if len(raises) == 1 else None
    if isinstance(exc, ast.Call):  # the class or an instance of it: the same exception type is raised
        exc = exc.func
    ok = exc is not None and dotted(exc) == "self.termination_criterion"
    ctx.ob("3.5-tester", cname(SC, "BaseToleranceTester", "check"), ok, "the tester must raise its termination_criterion", node=(raises or [chk])[0], stmt="raise self.termination_criterion")
    # raises in the callback / problem function resolve to stop classes
    for rel, cls, meth in ((DL, "BaseDriverLibrary", "_new_iteration_callback"), (PF, "ProblemFunction", "check_function_output_includes_nan")):
        f = ctx.index.method(rel, cls, meth)
        m = ctx.index.module(rel)
        for r in [s for s in stmts_of(f) if isinstance(s, ast.Raise) and s.exc is not None]:
            e = r.exc.func if isinstance(r.exc, ast.Call) else r.exc
            q = m.imports.get(dotted(e) or "", "")
            tgt = ctx.index.resolve_qualified(q) if q else None
            ok = tgt is not None and root in ctx.index.mro(tgt)
            ctx.ob("3.5-raised", cname(rel, cls, meth), ok, f"{meth} stops the run with {dotted(e)}, which is not a TerminationCriterion", node=r)


def _class_named(index, mod, name: str | None):
    """The class a (dotted) name denotes in ``mod``: a class of the module, an imported class, a class reached through
    an imported module (``stop_criteria.FtolReached``), or a module-level constant bound ONCE to such a name
    (``_CRITERION: Final[...] = FtolReached``)."""
    for _ in range(4):
        if not name:
            return None
        if name in mod.classes:
            return mod.classes[name]
        head, _, rest = name.partition(".")
        if head in mod.imports:
            q = mod.imports[head] + ("." + rest if rest else "")
            return index.resolve_qualified(q)
        if rest or name not in mod.assigns:
            return None
        stores = [n for n in ast.walk(mod.tree) if isinstance(n, ast.Name) and n.id == name and isinstance(n.ctx, (ast.Store, ast.Del))]
        if len(stores) != 1:
            return None  # re-bound somewhere: the constant does not denote one class
        name = dotted(mod.assigns[name])
    return None


def check_no_swallow(ctx: Ctx) -> None:
    root = ctx.index.cls(SC, "TerminationCriterion")
    stop_names = {c.name for c in [root, *ctx.index.subclasses(root)]}
    n = 0
    for rel, mod in sorted(ctx.index.modules.items()):
        if not (rel.startswith(("algos/opt/", "algos/doe/")) or rel in (DL, PF, "algos/evaluation_problem.py", "algos/optimization_problem.py", "algos/database.py")):
            continue
        for node in ast.walk(mod.tree):
            if not isinstance(node, ast.Try):
                continue
            for h in node.handlers:
                names = _handler_names(h)
                broad = h.type is None or names & {"Exception", "BaseException"} or names & stop_names
                if not broad:
                    continue
                # the driver's own conversion handler is the one legitimate catcher
                if rel == DL and "TerminationCriterion" in names:
                    continue
                n += 1
                reraises = any(isinstance(s, ast.Raise) for b in h.body for s in ast.walk(b))
                has_call = any(isinstance(s, ast.Call) for b in node.body for s in ast.walk(b))
                ctx.ob("3.6-swallow", cname(rel, None, "<module>"), reraises or not has_call, f"`except {', '.join(sorted(names)) or '<bare>'}` around calls swallows GEMSEO's stop signals (MaxIterReachedException, ...): the wrapped algorithm keeps evaluating beyond the budget", node=h, stmt=f"except {', '.join(sorted(names)) or '<bare>'} in {_fname(mod.tree, h)}")
    ctx.counts["3.6-handlers"] = n


def _fname(tree, node) -> str:
    best = "<module>"
    for f in ast.walk(tree):
        if isinstance(f, (ast.FunctionDef, ast.AsyncFunctionDef)) and any(s is node for s in ast.walk(f)):
            best = f.name
    return best


def check_doe_run(ctx: Ctx) -> None:
    f = ctx.index.method(DOE, "BaseDOELibrary", "_run")
    con = cname(DOE, "BaseDOELibrary", "_run")
    cfg = cfg_of(f)
    # sequential loop
    # the loop visits the samples in order with their index: `for i, x in enumerate(self.samples)` or
    # `for i in range(len(self.samples))` (the sample is then `self.samples[i]`, directly or through a local)
    def _over_samples(s):
        it = s.iter
        if not isinstance(it, ast.Call):
            return None
        if dotted(it.func) == "enumerate" and it.args and dotted(it.args[0]) == "self.samples":
            start = it.args[1] if len(it.args) > 1 else kwarg(it, "start")
            from_zero = start is None or (const_value(start, None) == 0 and not isinstance(const_value(start, None), bool))
            return "enumerate" if from_zero else "enumerate-shifted"
        if dotted(it.func) == "range" and isinstance(s.target, ast.Name) and not it.keywords:
            a = it.args
            if len(a) == 2 and const_value(a[0], None) == 0 and not isinstance(const_value(a[0], None), bool):
                a = a[1:]
            if len(a) == 1 and norm_stmt(a[0]) == "len(self.samples)":
                return "range"
        return None

    loops = [s for s in stmts_of(f) if isinstance(s, ast.For) and _over_samples(s)]
    ctx.need(len(loops) == 1, "BaseDOELibrary._run: sequential loop over enumerate(self.samples) not found")
    lp = loops[0]
    if _over_samples(lp) != "range":
        idx, val = (lp.target.elts[0].id, lp.target.elts[1].id) if isinstance(lp.target, ast.Tuple) and all(isinstance(e_, ast.Name) for e_ in lp.target.elts) else (None, None)
        if _over_samples(lp) == "enumerate-shifted":
            idx = None  # the counter of the loop is not the index of the sample

        def is_sample(arg):
            return val is not None and dotted(arg) == val
    else:
        idx, val = lp.target.id, None
        rebound = [n_ for b_ in lp.body for n_ in ast.walk(b_) if isinstance(n_, ast.Name) and n_.id == idx and isinstance(n_.ctx, (ast.Store, ast.Del))]

        def is_sample(arg):
            alts = unfolded(f, arg)
            return not rebound and bool(alts) and all(norm_stmt(a_) == f"self.samples[{idx}]" for a_ in alts)

    evals = [c for c in ast.walk(lp) if isinstance(c, ast.Call) and last_attr(c) == "_evaluate_functions"]
    ok = len(evals) == 1 and evals[0].args and is_sample(evals[0].args[0])
    ctx.ob("3.7-sequential", con, bool(ok), "the sequential DOE must evaluate each generated sample exactly once, in order", node=(evals or [lp])[0])
    if evals:
        en = cfg.node_of(evals[0])
        inner = [t for (t, v), b in cfg.branch.items() if cfg.kind[t] in ("loop", "test") and cfg.dominates(b, en) and t != cfg.node_of(lp) and any(sub is cfg.ast[t] for sub in ast.walk(lp))]
        ctx.ob("3.7-sequential", con, not inner, "the evaluation of a sample must not be conditional or repeated inside the loop", node=evals[0], stmt="one unconditional evaluation per sample")
    # a failing sample is skipped, the following ones are still evaluated: a handler of ValueError encloses the
    # evaluation INSIDE the loop (and no handler of it encloses the loop)
    if evals:
        inner_try = [t for t in ast.walk(lp) if isinstance(t, ast.Try) and evals[0] in [c for b_ in t.body for c in ast.walk(b_)] and any(h.type is None or "ValueError" in norm_stmt(h.type) or norm_stmt(h.type) in ("Exception", "BaseException") for h in t.handlers)]
        outer_try = [t for t in stmts_of(f) if isinstance(t, ast.Try) and lp in [c for b_ in t.body for c in ast.walk(b_)] and any(h.type is None or "ValueError" in norm_stmt(h.type) for h in t.handlers)]
        ctx.ob("3.7-sequential", con, bool(inner_try) and not outer_try, "a sample whose evaluation raises ValueError is skipped and the next samples are still evaluated: the handler must be inside the loop over the samples, not around it", node=(outer_try or inner_try or [lp])[0], stmt="ValueError of one sample handled inside the loop")
    cbs = [c for c in ast.walk(lp) if isinstance(c, ast.Call) and dotted(c.func) == "callback"]
    ok = idx is not None and all(c.args and dotted(c.args[0]) == idx for c in cbs) and bool(cbs)
    ctx.ob("3.7-sequential", con, ok, "callbacks must receive the index of the sample just evaluated", node=(cbs or [lp])[0])
    # parallel branch
    def _inputs_of(c):
        return c.args[0] if c.args else kwarg(c, "inputs")

    pex = [c for c in walk_body(f) if isinstance(c, ast.Call) and isinstance(c.func, ast.Attribute) and c.func.attr == "execute" and _inputs_of(c) is not None and dotted(_inputs_of(c)) == "self.samples"]
    ctx.need(len(pex) == 1, "BaseDOELibrary._run: parallel.execute(self.samples, ...) not found")
    pn = cfg.node_of(pex[0])
    seeds = [s for s in stmts_of(f) if isinstance(s, ast.For) and dotted(s.iter) == "self.samples" and any(isinstance(c, ast.Call) and last_attr(c) == "store" for c in ast.walk(s))]
    ok = len(seeds) == 1
    if ok:
        st = [c for c in ast.walk(seeds[0]) if isinstance(c, ast.Call) and last_attr(c) == "store"][0]
        ok = dotted(st.args[0]) == dotted(seeds[0].target) and isinstance(st.args[1], ast.Dict) and not st.args[1].keys
        sn = cfg.node_of(seeds[0])
        ok = ok and cfg.reachable(sn, pn) and not cfg.reachable(pn, sn)
        conds = branch_conditions(cfg, sn)
        ok = ok and any(v and dotted(cfg.ast[t].test) == "use_database" for t, v in conds)
    ctx.ob("3.7-preseed", con, ok, "before a parallel DOE the database must be seeded with empty entries in sample order (completion order is arbitrary)", node=(seeds or [pex[0]])[0], stmt="for sample in self.samples: database.store(sample, {}) before parallel.execute")
    rem = [c for c in walk_body(f) if isinstance(c, ast.Call) and last_attr(c) == "remove_empty_entries"]
    ok = len(rem) == 1 and cfg.reachable(pn, cfg.node_of(rem[0])) and not cfg.reachable(cfg.node_of(rem[0]), pn)
    ctx.ob("3.7-preseed", con, ok, "the empty seed entries of failed samples must be removed after the parallel run", node=(rem or [pex[0]])[0], stmt="remove_empty_entries after parallel.execute")


def check_nan_policy(ctx: Ctx) -> None:
    """3.8: the problem's NaN policy reaches every NaN check of the evaluated values.

    A DOE (and any driver run with ``stop_if_nan=False``) must go on after a NaN; the checks of the four memoising
    methods raise FunctionIsNan unless they are handed the policy, and the default of the parameter is "stop".
    """
    cls = ctx.index.cls(PF, "ProblemFunction")
    n = 0
    chk = cls.methods.get("check_function_output_includes_nan")
    ctx.need(chk is not None, "ProblemFunction.check_function_output_includes_nan not found")
    chk_params = [a_.arg for a_ in chk.args.args]
    chk_default = dict(zip(chk_params[len(chk_params) - len(chk.args.defaults):], chk.args.defaults)).get("stop_if_nan")
    # the check does nothing when it is told not to stop: every statement of it is guarded by `stop_if_nan and ...`
    chk_body = [b_ for b_ in chk.body if not (isinstance(b_, ast.Expr) and isinstance(b_.value, ast.Constant))]
    inert_when_off = bool(chk_body) and all(isinstance(b_, ast.If) and not b_.orelse and any(p_ and dotted(e_) == "stop_if_nan" for p_, e_ in conj_literals(b_.test)) for b_ in chk_body) and not any(isinstance(x_, ast.Name) and x_.id == "stop_if_nan" and isinstance(x_.ctx, ast.Store) for x_ in ast.walk(chk))
    for mname, m in sorted(cls.methods.items()):
        for c in walk_body(m):
            if not (isinstance(c, ast.Call) and last_attr(c) == "check_function_output_includes_nan"):
                continue
            params_ = {a_.arg for a_ in m.args.args}
            if c.args and isinstance(c.args[0], ast.Name) and c.args[0].id in params_:
                continue  # the check of the design point itself (DesvarIsNan): not subject to the policy
            con = cname(PF, "ProblemFunction", mname)
            pol = kwarg(c, "stop_if_nan")
            if pol is None and len(c.args) > 1:
                pol = c.args[1]
            if pol is None:
                pol = chk_default
            ok = pol is not None and dotted(pol) == "self.stop_if_nan"
            if not ok and pol is not None and const_value(pol, None) is True and inert_when_off:
                # `if self.stop_if_nan: check(value)`: the check stops (its default) exactly when the policy says so,
                # and skipping it when the policy is off is what the check itself does (it is inert then)
                cfg_m = cfg_of(m)
                ok = literal_facts(cfg_m, cfg_m.node_of(c)).get("self.stop_if_nan") is True and not _assigns_attr(m, "stop_if_nan")
            n += 1
            ctx.ob("3.8-nan-policy", con, ok, "the NaN check of an evaluated value is not given self.stop_if_nan: with the default (stop) a NaN ends a DOE, or an optimization asked to go on, at that point", node=c, stmt=f"NaN check of `{norm_stmt(c.args[0], 40) if c.args else '?'}` follows self.stop_if_nan")
    ctx.floor("3.8-nan-policy", 4)
    # the policy is an attribute the problem can switch after construction, and the DOE library switches it off
    init = ctx.index.method(PF, "ProblemFunction", "__init__")
    sets = [s_ for s_ in stmts_of(init) if isinstance(s_, ast.Assign) and dotted(s_.targets[0]) == "self.stop_if_nan"]
    ctx.ob("3.8-nan-policy", cname(PF, "ProblemFunction", "__init__"), len(sets) == 1 and dotted(sets[0].value) == "stop_if_nan", "ProblemFunction must keep the NaN policy it is constructed with", node=(sets or [init])[0], stmt="self.stop_if_nan = stop_if_nan")
    pre = ctx.index.method(DOE, "BaseDOELibrary", "_pre_run")
    off = [s_ for s_ in stmts_of(pre) if isinstance(s_, ast.Assign) and (dotted(s_.targets[0]) or "").endswith(".stop_if_nan")]
    ctx.ob("3.8-nan-policy", cname(DOE, "BaseDOELibrary", "_pre_run"), len(off) == 1 and const_value(off[0].value, True) is False, "a DOE must switch the NaN policy of its problem off: every generated sample is evaluated and recorded", node=(off or [pre])[0], stmt="problem.stop_if_nan = False")
    # ... and the switch reaches EVERY function of the problem: those held in the sequences (constraints, observables)
    # and those held under a name (the objective); likewise every other method that goes through "all the functions"
    ep = ctx.index.cls("algos/evaluation_problem.py", "EvaluationProblem")
    holders = ("_sequence_of_functions", "_function_names")
    n_h = 0
    for mname, m in sorted({**ep.methods, **{f"{k}.setter": v for k, v in ep.setters.items()}}.items()):
        used = {h_ for h_ in holders if any(isinstance(x, ast.Attribute) and x.attr == h_ and dotted(x.value) == "self" and isinstance(x.ctx, ast.Load) for lp in ast.walk(m) if isinstance(lp, (ast.For, ast.comprehension)) for x in ast.walk(lp.iter))}
        if not used:
            continue
        n_h += 1
        ctx.ob("3.8-nan-policy", cname("algos/evaluation_problem.py", "EvaluationProblem", mname), used == set(holders), f"{mname} goes through {sorted(used)} only: the functions of a problem are those of `_sequence_of_functions` AND those named in `_function_names` (the objective); the others keep their old setting", node=m, stmt="all the functions: sequences and named ones")
    ctx.need(n_h >= 2, "EvaluationProblem: the methods that go through all the functions were not found")
    st = ep.setters.get("stop_if_nan")
    ctx.need(st is not None, "EvaluationProblem.stop_if_nan setter not found")
    val = st.args.args[1].arg
    pushes = [s_ for s_ in stmts_of(st) if isinstance(s_, ast.Assign) and (dotted(s_.targets[0]) or "").endswith(".stop_if_nan") and dotted(s_.targets[0]) != "self.stop_if_nan"]
    loops_ = [lp for lp in stmts_of(st) if isinstance(lp, ast.For) and lp in [l2 for l2 in stmts_of(st) if isinstance(l2, ast.For)]]
    covered = {h_ for h_ in holders for lp in loops_ if any(isinstance(x, ast.Attribute) and x.attr == h_ for x in ast.walk(lp.iter)) and any(p_ in list(ast.walk(lp)) for p_ in pushes)}
    ok = covered == set(holders) and all(dotted(p_.value) == val for p_ in pushes)
    ctx.ob("3.8-nan-policy", cname("algos/evaluation_problem.py", "EvaluationProblem", "stop_if_nan.setter"), ok, f"the new policy must be pushed into the functions of both holders (pushed for {sorted(covered)})", node=st, stmt="policy pushed into every function")


def _assigns_attr(func: ast.AST, attr: str) -> bool:
    """Does ``func`` store into an attribute called ``attr``?"""
    return any(isinstance(x, ast.Attribute) and x.attr == attr and isinstance(x.ctx, (ast.Store, ast.Del)) for x in ast.walk(func))


def check_counter_kept(ctx: Ctx) -> None:
    """3.9: nothing a stop criterion runs puts the evaluation counter back to zero.

    The testers are called from the new-iteration callback, i.e. in the middle of a run; `EvaluationProblem.reset`
    zeroes the counter unless told `current_iter=False`.  Every function of algos/stop_criteria.py is followed through
    the functions and constructors it calls (names resolved in algos/, three levels): a reachable `reset(...)` that
    may zero the counter must be bracketed, in the stop-criteria function, by a save and a restore of
    `evaluation_counter.current`.
    """
    ep = ctx.index.method("algos/evaluation_problem.py", "EvaluationProblem", "reset")
    params = [a.arg for a in ep.args.args]
    ctx.need("current_iter" in params, "EvaluationProblem.reset has no current_iter parameter")
    defaults = dict(zip(params[len(params) - len(ep.args.defaults):], ep.args.defaults))
    zeroes_by_default = const_value(defaults.get("current_iter"), None) is True
    zero = [s_ for s_ in stmts_of(ep) if isinstance(s_, ast.Assign) and (dotted(s_.targets[0]) or "").endswith("evaluation_counter.current") and const_value(s_.value, None) == 0]
    ctx.need(len(zero) == 1, "EvaluationProblem.reset: `self.evaluation_counter.current = 0` not found")

    # callables defined under algos/: name -> function nodes (a class name stands for its __init__)
    table: dict[str, list[ast.AST]] = {}
    owner: dict[int, object] = {}  # id(function node) -> the module that defines it (its imports name the callees)
    for rel, mod in ctx.index.modules.items():
        if not rel.startswith("algos/"):
            continue
        for fname, fn in mod.functions.items():
            table.setdefault(fname, []).append(fn)
            owner[id(fn)] = mod
        for cn, ci in mod.classes.items():
            for m_ in ci.methods.values():
                owner[id(m_)] = mod
            if "__init__" in ci.methods:
                table.setdefault(cn, []).append(ci.methods["__init__"])

    def callee(fn: ast.AST, call: ast.Call) -> str | None:
        """The name, in ``table``, of the function or class that ``call`` (inside ``fn``) calls: a plain name, an
        imported name under an alias, or an attribute of an imported GEMSEO module (``lagrange_multipliers.X(...)``)."""
        mod_ = owner.get(id(fn))
        imports = mod_.imports if mod_ is not None else {}
        func = call.func
        if isinstance(func, ast.Name):
            q = imports.get(func.id, "")
            name = q.rsplit(".", 1)[-1] if q.startswith("gemseo") and func.id not in table else func.id
        elif isinstance(func, ast.Attribute):
            head = (dotted(func.value) or "").split(".")[0]
            if not imports.get(head, "").startswith("gemseo"):
                return None
            name = func.attr
        else:
            return None
        return name if name in table else None

    def may_zero(call: ast.Call) -> bool:
        if last_attr(call) != "reset" or not isinstance(call.func, ast.Attribute):
            return False
        recv = norm_stmt(call.func.value)
        if "problem" not in recv:
            return False
        ci = kwarg(call, "current_iter")
        if ci is None:
            return zeroes_by_default
        return const_value(ci, True) is not False

    def bracketed(fn: ast.AST, call: ast.Call) -> bool:
        cfg = cfg_of(fn)
        cn_ = cfg.node_of(call)
        saves = [s_ for s_ in stmts_of(fn) if isinstance(s_, ast.Assign) and isinstance(s_.targets[0], ast.Name) and (dotted(s_.value) or "").endswith("evaluation_counter.current")]
        restores = [s_ for s_ in stmts_of(fn) if isinstance(s_, ast.Assign) and (dotted(s_.targets[0]) or "").endswith("evaluation_counter.current") and isinstance(s_.value, ast.Name) and s_.value.id in {x.targets[0].id for x in saves}]
        return bool(saves) and bool(restores) and any(cfg.dominates(cfg.node_of(sv_), cn_) for sv_ in saves) and cfg.escape_path(cn_, {cfg.node_of(r_) for r_ in restores}) is None

    def unprotected(fn: ast.AST, depth: int, seen: set) -> list[tuple[ast.Call, str]]:
        """(call in fn, chain) for the calls of fn through which the counter can be zeroed without being restored."""
        out = []
        for c in walk_body(fn):
            if not isinstance(c, ast.Call):
                continue
            chain = None
            if may_zero(c):
                chain = norm_stmt(c, 60)
            else:
                name = callee(fn, c)
                if name and depth > 0 and name not in seen:
                    for g in table[name]:
                        sub = unprotected(g, depth - 1, seen | {name})
                        if sub:
                            chain = f"{name} -> {sub[0][1]}"
                            break
            if chain is not None and not bracketed(fn, c):
                out.append((c, chain))
        return out

    sc = ctx.index.module(SC)
    n = 0
    fns = list(sc.functions.items()) + [(f"{cn}.{mn}", m) for cn, ci in sc.classes.items() for mn, m in ci.methods.items()]
    for fname, fn in sorted(fns, key=lambda kv: kv[0]):
        calls_out = [c for c in walk_body(fn) if isinstance(c, ast.Call) and callee(fn, c)]
        bad = {id(c): ch for c, ch in unprotected(fn, 3, set())}
        for c in calls_out:
            cal = callee(fn, c)
            reach_any = any(_reaches_reset(g, table, may_zero, 2, {cal}, callee) for g in table[cal])
            if not reach_any:
                continue
            n += 1
            ctx.ob("3.9-counter-kept", cname(SC, None, fname), id(c) not in bad, f"`{cal}(...)` reaches `{bad.get(id(c), '')}`, which puts the evaluation counter back to 0 in the middle of a run (the criterion is tested at every new iteration): the budget max_iter is then never reached; the counter must be saved before and restored after", node=c, stmt=f"{cal}(...) keeps the evaluation counter")
    ctx.counts["3.9-sites"] = n
    ctx.floor("3.9-counter-kept", 1)


def _reaches_reset(fn, table, may_zero, depth, seen, callee) -> bool:
    for c in walk_body(fn):
        if isinstance(c, ast.Call):
            if may_zero(c):
                return True
            name = callee(fn, c)
            if name and depth > 0 and name not in seen and any(_reaches_reset(g, table, may_zero, depth - 1, seen | {name}, callee) for g in table[name]):
                return True
    return False


def check_early_result(ctx: Ctx) -> None:
    """3.10: when a termination criterion stops a driver (in the pre-run, in the solver's callbacks, or in an evaluation
    the library makes after the solver returned), ``execute`` builds the result with
    ``_get_early_stopping_result -> self._get_result(problem, message, status)``: every override of ``_get_result`` of a
    driver library must be callable that way (F45: the LP libraries required five more arguments: TypeError instead of
    a result)."""
    base = ctx.index.cls("algos/base_driver_library.py", "BaseDriverLibrary")
    early = base.methods["_get_early_stopping_result"]
    calls_ = [c for c in walk_body(early) if isinstance(c, ast.Call) and isinstance(c.func, ast.Attribute) and c.func.attr == "_get_result" and dotted(c.func.value) == "self"]
    ctx.need(len(calls_) >= 1 and not any(isinstance(a, ast.Starred) for c in calls_ for a in c.args), "_get_early_stopping_result: the call of _get_result was not found")
    n_given = min(len(c.args) for c in calls_)
    kw_given = set.intersection(*[{k.arg for k in c.keywords if k.arg} for c in calls_]) if calls_ else set()
    n = 0
    for cls in [base, *ctx.index.subclasses(base)]:
        m = cls.methods.get("_get_result")
        if m is None:
            continue
        n += 1
        pos = m.args.args[1:]
        n_req = len(pos) - len(m.args.defaults)
        missing = [a.arg for a in pos[n_given:n_req] if a.arg not in kw_given] + [a.arg for a, d in zip(m.args.kwonlyargs, m.args.kw_defaults) if d is None and a.arg not in kw_given]
        ctx.ob("3.10-early-result", cname(cls.module.relpath, cls.qualname, "_get_result"), not missing, f"{cls.name}._get_result cannot be called as _get_early_stopping_result calls it: parameters {missing} have no default, so a driver stopped by a termination criterion raises a TypeError instead of returning a result", node=m, stmt="_get_result(problem, message, status) is a valid call")
    ctx.floor("3.10-early-result", 3)
    # an evaluation a library makes on its own at the point the solver returned (the LP libraries: the solver works on the
    # coefficients, the functions are evaluated once at its optimum) is not an iteration of the driver: charged to the
    # budget, it is refused when the budget is used up and the solver's optimum is lost
    n2 = 0
    for cls in ctx.index.subclasses(base):
        run_ = cls.methods.get("_run")
        if run_ is None or not cls.module.relpath.startswith("algos/opt/"):
            continue
        for c in [c for c in walk_body(run_) if isinstance(c, ast.Call) and isinstance(c.func, ast.Attribute) and c.func.attr == "get_functions"]:
            n2 += 1
            v = kwarg(c, "no_db_no_norm")
            ctx.ob("3.10-own-evaluation", cname(cls.module.relpath, cls.qualname, "_run"), v is not None and const_value(v) is True, f"{cls.name}._run evaluates the functions on its own through the evaluation counter (get_functions without no_db_no_norm=True): with the budget used up the evaluation at the solver's optimum is refused and the optimum is not reported", node=c, stmt="own evaluation outside the budget")
    ctx.floor("3.10-own-evaluation", 2)


def run(ctx: Ctx) -> None:
    check_early_result(ctx)
    check_budget_guard(ctx)
    check_counter_kept(ctx)
    check_nan_policy(ctx)
    check_counter(ctx)
    store_protocol(ctx, "3.3", {"emptiness"})
    check_execute(ctx)
    check_pre_runs(ctx)
    check_stop_classes(ctx)
    check_no_swallow(ctx)
    check_doe_run(ctx)
    # the budget of a DOE is its number of samples: a structured design never has more points than were asked for
    # (rule group 14.5 of C14: size(levels computed from n_samples) <= n_samples, proved on terms)
    from gv.props import c14
    from gv.props.c12 import _Prefixed

    c14.check_stratified_levels(_Prefixed(ctx, "3.11-sample-budget/"))
    if ctx.counts.get("3.2-overrides", 0) < 1:
        raise AnalysisError("no override of _new_iteration_callback found (BaseOptimizationLibrary expected)")


# ---------------------------------------------------------------------------
_OPT = "algos/opt/base_optimization_library.py"
_DBF = "algos/database.py"
WITNESSES = [
    {"name": "seeded-C03-10", "file": "algos/opt/scipy_linprog/scipy_linprog.py", "old": "            evaluate_objective=True,\n            no_db_no_norm=True,\n        )\n", "new": "            evaluate_objective=True,\n        )\n", "expect": "3.10", "note": "ScipyLinprog evaluates the LP optimum through the database (dropped no_db_no_nor"},
    {"name": "seeded-C03-9", "file": "algos/evaluation_problem.py", "old": "\n        for function_name in self._function_names:\n            function = getattr(self, function_name)\n            if isinstance(function, ProblemFunction):\n                function.stop_if_nan = value\n\n    def __check_functions_are_not_preprocessed(self) -> None:\n", "new": "\n    def __check_functions_are_not_preprocessed(self) -> None:\n", "expect": "3.8", "note": "EvaluationProblem.stop_if_nan setter no longer propagates the flag to the object"},
    {"name": "doe-handler-around-the-loop", "file": DOE, "old": "            for index, input_value in enumerate(self.samples):\n                try:\n", "new": "            try:\n              for index, input_value in enumerate(self.samples):\n                if True:\n", "expect": "3.7"},
    {"name": "delete-budget-guard", "file": PF, "old": "            if (\n                not database.get(hashed_xu)\n                and self._evaluation_counter.maximum_is_reached\n            ):\n                raise MaxIterReachedException\n\n            output_value = self._compute_output(input_value)", "new": "            output_value = self._compute_output(input_value)", "expect": "3.1"},
    {"name": "guard-or-instead-of-and", "file": PF, "old": "                not database.get(hashed_xu)\n                and self._evaluation_counter.maximum_is_reached\n            ):\n                raise MaxIterReachedException\n\n            jac_n = self._compute_jacobian(xn_vect)", "new": "                not database.get(hashed_xu)\n                or self._evaluation_counter.maximum_is_reached\n            ):\n                raise MaxIterReachedException\n\n            jac_n = self._compute_jacobian(xn_vect)", "expect": "3.1"},
    {"name": "guard-only-counter", "file": PF, "old": "            if (\n                not database.get(hashed_xu)\n                and self._evaluation_counter.maximum_is_reached\n            ):\n                raise MaxIterReachedException\n\n            jacobian = self._compute_jacobian(input_value).real", "new": "            if self._evaluation_counter.maximum_is_reached:\n                raise MaxIterReachedException\n\n            jacobian = self._compute_jacobian(input_value).real", "expect": "3.1"},
    {"name": "guard-after-compute", "file": PF, "old": "            if (\n                not database.get(hashed_xu)\n                and self._evaluation_counter.maximum_is_reached\n            ):\n                raise MaxIterReachedException\n\n            output_value = self._compute_output(xn_vect)\n", "new": "            output_value = self._compute_output(xn_vect)\n            if (\n                not database.get(hashed_xu)\n                and self._evaluation_counter.maximum_is_reached\n            ):\n                raise MaxIterReachedException\n\n", "expect": "3.1"},
    {"name": "increment-after-raise", "file": DL, "old": "        self._problem.evaluation_counter.current += 1\n        if 0 < self.__max_time < time() - self.__start_time:\n            raise MaxTimeReached\n", "new": "        if 0 < self.__max_time < time() - self.__start_time:\n            raise MaxTimeReached\n\n        self._problem.evaluation_counter.current += 1\n", "expect": "3.2"},
    {"name": "increment-by-two", "file": DL, "old": "self._problem.evaluation_counter.current += 1", "new": "self._problem.evaluation_counter.current += 2", "expect": "3.2"},
    {"name": "override-drops-super", "file": _OPT, "old": "        super()._new_iteration_callback(x_vect)\n        self._f_tol_tester.check(self._problem, raise_exception=True)", "new": "        self._f_tol_tester.check(self._problem, raise_exception=True)", "expect": "3.2"},
    {"name": "override-super-last", "file": _OPT, "old": "        super()._new_iteration_callback(x_vect)\n        self._f_tol_tester.check(self._problem, raise_exception=True)\n        self._x_tol_tester.check(self._problem, raise_exception=True)", "new": "        self._f_tol_tester.check(self._problem, raise_exception=True)\n        self._x_tol_tester.check(self._problem, raise_exception=True)\n        super()._new_iteration_callback(x_vect)", "expect": "3.2"},
    {"name": "strict-budget-predicate", "file": EC, "old": "return self.current >= self.maximum", "new": "return self.current > self.maximum", "expect": "3.2"},
    {"name": "emptiness-read-after-write", "file": _DBF, "old": "        stored_outputs = self.get(hashed_input_value)\n        current_outputs_is_empty = not stored_outputs\n\n        if stored_outputs is None:\n            self.__data[hashed_input_value] = outputs\n        else:\n            # No new keys = already computed = new iteration\n            # otherwise just calls to other functions\n            stored_outputs.update(outputs)\n", "new": "        stored_outputs = self.get(hashed_input_value)\n\n        if stored_outputs is None:\n            self.__data[hashed_input_value] = outputs\n        else:\n            # No new keys = already computed = new iteration\n            # otherwise just calls to other functions\n            stored_outputs.update(outputs)\n\n        current_outputs_is_empty = not stored_outputs\n", "expect": "3.3"},
    {"name": "new-iter-on-every-store", "file": _DBF, "old": "if self.__new_iter_listeners and outputs and current_outputs_is_empty:", "new": "if self.__new_iter_listeners and outputs:", "expect": "3.3"},
    {"name": "new-iter-on-empty-store", "file": _DBF, "old": "if self.__new_iter_listeners and outputs and current_outputs_is_empty:", "new": "if self.__new_iter_listeners and current_outputs_is_empty:", "expect": "3.3"},
    {"name": "notify-before-write", "file": _DBF, "old": "        if stored_outputs is None:\n            self.__data[hashed_input_value] = outputs\n        else:\n            # No new keys = already computed = new iteration\n            # otherwise just calls to other functions\n            stored_outputs.update(outputs)\n\n        if self.__store_listeners:\n            self.notify_store_listeners(x_vect)\n\n        # Notify the new iteration after storing x\n        # because callbacks may need an updated x\n        if self.__new_iter_listeners and outputs and current_outputs_is_empty:\n            self.notify_new_iter_listeners(x_vect)\n", "new": "        if self.__new_iter_listeners and outputs and current_outputs_is_empty:\n            self.notify_new_iter_listeners(x_vect)\n\n        if stored_outputs is None:\n            self.__data[hashed_input_value] = outputs\n        else:\n            stored_outputs.update(outputs)\n\n        if self.__store_listeners:\n            self.notify_store_listeners(x_vect)\n", "expect": "3.3"},
    {"name": "overwrite-existing-entry", "file": _DBF, "old": "        if stored_outputs is None:\n            self.__data[hashed_input_value] = outputs\n        else:", "new": "        if not stored_outputs:\n            self.__data[hashed_input_value] = outputs\n        else:", "expect": "3.3"},
    {"name": "listener-registered-after-run", "file": DL, "old": "        listeners.append(self._new_iteration_callback)\n", "new": "", "expect": "3.4"},
    {"name": "listener-conditional", "file": DL, "old": "        listeners.append(self._new_iteration_callback)\n", "new": "        if self.enable_progress_bar:\n            listeners.append(self._new_iteration_callback)\n", "expect": "3.4"},
    {"name": "clear-listeners-only-on-success", "edits": [
        {"file": DL, "old": "                if is_optimization_problem:\n                    result = self._get_result(problem, *args)\n            except TerminationCriterion", "new": "                if is_optimization_problem:\n                    result = self._get_result(problem, *args)\n                self._clear_listeners(problem)\n            except TerminationCriterion"},
        {"file": DL, "old": "        self.__progress_bar.finalize_iter_observer()\n        self._clear_listeners(problem)\n", "new": "        self.__progress_bar.finalize_iter_observer()\n"},
    ], "expect": "3.4"},
    {"name": "catch-subset-of-criteria", "file": DL, "old": "            except TerminationCriterion as termination_criterion:", "new": "            except (MaxIterReachedException, MaxTimeReached) as termination_criterion:", "expect": "3.5"},
    {"name": "handler-reraises", "file": DL, "old": "                    result = self._get_early_stopping_result(\n                        problem, termination_criterion\n                    )\n", "new": "                    result = self._get_early_stopping_result(\n                        problem, termination_criterion\n                    )\n                    raise\n", "expect": "3.5"},
    {"name": "stop-class-not-a-criterion", "file": SC, "old": "class KKTReached(TerminationCriterion):", "new": "class KKTReached(Exception):", "expect": "3.5"},
    {"name": "early-result-raises-for-unknown", "file": DL, "old": "        else:\n            message = \"\"\n\n        message += \"GEMSEO stopped the driver.\"", "new": "        else:\n            raise termination_criterion\n\n        message += \"GEMSEO stopped the driver.\"", "expect": "3.5"},
    {"name": "budget-not-set", "file": DL, "old": "        problem.evaluation_counter.maximum = max_iter\n", "new": "", "expect": "3.4"},
    {"name": "doe-pre-run-drops-observer", "file": DOE, "old": "        self._init_iter_observer(problem, len(self.unit_samples))\n", "new": "", "expect": "3."},
    {"name": "opt-pre-run-drops-super", "file": "algos/opt/nlopt/nlopt.py", "old": "        super()._pre_run(problem, **settings)\n", "new": "", "expect": "3.4", "first": True},
    {"name": "wrapper-swallows-exceptions", "file": "algos/opt/scipy_local/scipy_local.py", "old": "        opt_result = minimize(", "new": "        try:\n            problem.objective.evaluate(x_0)\n        except Exception:\n            pass\n        opt_result = minimize(", "expect": "3.6"},
    {"name": "doe-swallows-max-iter", "file": DOE, "old": "                except ValueError:  # noqa: PERF203", "new": "                except (ValueError, MaxIterReachedException):  # noqa: PERF203", "expect": "3.6"},
    {"name": "doe-evaluates-next-sample", "file": DOE, "old": "output_value, jacobian_value = self._evaluate_functions(input_value)", "new": "output_value, jacobian_value = self._evaluate_functions(self.samples[index - 1])", "expect": "3.7"},
    {"name": "doe-preseed-after-run", "file": DOE, "old": "                for sample in self.samples:\n                    database.store(sample, {})\n", "new": "", "expect": "3.7"},
    {"name": "doe-budget-off-by-one", "file": DOE, "old": "self._init_iter_observer(problem, len(self.unit_samples))", "new": "self._init_iter_observer(problem, len(self.unit_samples) - 1)", "expect": "3.7"},
]
TWINS = [
    {"name": "guard-operands-swapped", "file": PF, "old": "                not database.get(hashed_xu)\n                and self._evaluation_counter.maximum_is_reached\n            ):\n                raise MaxIterReachedException\n\n            jac_n", "new": "                self._evaluation_counter.maximum_is_reached\n                and not database.get(hashed_xu)\n            ):\n                raise MaxIterReachedException\n\n            jac_n"},
    {"name": "guard-nested-ifs", "file": PF, "old": "            if (\n                not database.get(hashed_xu)\n                and self._evaluation_counter.maximum_is_reached\n            ):\n                raise MaxIterReachedException\n\n            output_value = self._compute_output(input_value)", "new": "            if not database.get(hashed_xu):\n                if self._evaluation_counter.maximum_is_reached:\n                    raise MaxIterReachedException\n\n            output_value = self._compute_output(input_value)"},
    {"name": "predicate-mirrored", "file": EC, "old": "return self.current >= self.maximum", "new": "return self.maximum <= self.current"},
    {"name": "direct-registration", "file": DL, "old": "        listeners.append(self._new_iteration_callback)\n", "new": "        listeners.append(self._new_iteration_callback)\n        problem.database.add_new_iter_listener(self._new_iteration_callback)\n"},
    {"name": "raise-instance", "file": DL, "old": "            raise MaxTimeReached\n", "new": "            raise MaxTimeReached()\n"},
]
